"""Real-kernel cross-validation (DESIGN.md 5, item 2): run a Sim scenario against
`create_server` on 127.0.0.1 with real threads and real sockets, and reduce it
to the same boundary observations as a Sim run, so the two can be compared.

This module must run in a process in which vf.sim.world.install() was NOT
called (the Sim rebinds module globals of waitress).
"""

import random
import socket
import sys
import threading
import time

from vf import core

core.use_waitress()

from vf.ref import response as rs  # noqa: E402
from vf.sim import scenario as SC  # noqa: E402


class _Sched:
    steps = 0


class _Conn:
    def __init__(self):
        self.client_received = bytearray()
        self.server_closed = False
        self.client_closed = False


class RealWorld:
    """the few things vf.sim.scenario.make_app needs from a world"""

    def __init__(self):
        self.sched = _Sched()
        self.gates = {}

        class N:
            conns = {}

        self.net = N()
        self.net.conns = {}

    def wait_until(self, pred, timeout=10.0):
        t0 = time.time()
        while not pred():
            if time.time() - t0 > timeout:
                return False
            time.sleep(0.001)
        return True

    def sleep(self, dt):
        time.sleep(min(dt, 0.05))


_TOOL = 4
_perturb = {"rng": None, "p": 0.0}


def _line_cb(code, line):
    fn = code.co_filename
    if "/waitress/" not in fn:
        return sys.monitoring.DISABLE
    r = _perturb["rng"]
    if r is not None and r.random() < _perturb["p"]:
        time.sleep(0)
    return None


_installed = False


def install_perturbation():
    global _installed
    if _installed:
        return
    mon = sys.monitoring
    mon.use_tool_id(_TOOL, "vf-real")
    mon.register_callback(_TOOL, mon.events.LINE, _line_cb)
    mon.set_events(_TOOL, mon.events.LINE)
    _installed = True


def run_real(scn, perturb_seed=None, timeout=15.0):
    """-> {"conns": [{"received": bytes, "eof": bool, "done": bool}], "log": [(cid, idx, what)], "error": str|None}"""
    from waitress.server import create_server

    if perturb_seed is not None:
        install_perturbation()
        _perturb["rng"] = random.Random(perturb_seed)
        _perturb["p"] = 0.02
    else:
        _perturb["rng"] = None
    w = RealWorld()
    log = SC.AppLog()
    app = SC.make_app(w, log)
    adj = dict(scn.get("adj", {}))
    adj.pop("asyncore_use_poll", None) if False else None
    import warnings

    with warnings.catch_warnings():
        warnings.simplefilter("ignore")
        srv = create_server(app, host="127.0.0.1", port=0, **adj)
    port = srv.effective_port
    stopping = []
    loop_error = []

    def loop():
        try:
            srv.run()
        except OSError as e:
            # closing the map from the controlling thread ends the loop with EBADF
            if not stopping:
                loop_error.append(repr(e))

    t = threading.Thread(target=loop, daemon=True)
    t.start()
    results = []
    threads = []

    def nfinal(buf, methods):
        r, err, left = rs.parse_responses(bytes(buf), methods, eof=False)
        return sum(1 for x in r if not x["interim"] and x.get("complete")), sum(1 for x in r if x["interim"])

    def client(i, cs, res):
        reqs = cs["requests"]
        methods = [r.get("m", "GET") for r in reqs]
        conn = _Conn()
        w.net.conns[i] = conn
        s = socket.create_connection(("127.0.0.1", port), timeout=timeout)
        s.settimeout(0.05)
        buf = conn.client_received
        deadline = time.time() + timeout

        def pump(pred):
            while time.time() < deadline:
                if pred():
                    return True
                try:
                    d = s.recv(65536)
                except socket.timeout:
                    continue
                except OSError:
                    # ECONNRESET: the server closed while bytes of ours were still unread on its side
                    # (pipelined data behind a closing request); the kernel may have thrown away what we
                    # had not read yet -- a TCP effect the Sim does not model
                    res["eof"] = True
                    res["reset"] = True
                    return pred()
                if not d:
                    res["eof"] = True
                    return pred()
                buf.extend(d)
            return pred()

        class _S:
            """sends that stop at the first error (the server may legitimately have closed after a
            closing request while later pipelined bytes are still being sent: EPIPE / ECONNRESET);
            what was received until then is still read and compared"""

            broken = False

            def sendall(self, data):
                if self.broken:
                    return
                try:
                    raw.sendall(data)
                except OSError as e:
                    self.broken = True
                    res["send_error"] = type(e).__name__

            def __getattr__(self, name):
                return getattr(raw, name)

        raw = s
        s = _S()
        try:
            if cs.get("pingpong") or cs.get("waiting"):
                sent = 0
                for k, r in enumerate(reqs):
                    head, body = SC.request_bytes(i, k, r)
                    if cs.get("waiting") and r.get("expect") and body:
                        s.sendall(head)
                        f0, i0 = nfinal(buf, methods)
                        pump(lambda: nfinal(buf, methods)[1] > i0 or nfinal(buf, methods)[0] >= k + 1)
                        if nfinal(buf, methods)[0] >= k + 1:
                            break
                        s.sendall(body)
                    else:
                        s.sendall(head + body)
                    sent = k + 1
                    if cs.get("pingpong"):
                        if not pump(lambda: nfinal(buf, methods)[0] >= k + 1) or res.get("eof"):
                            break
                expect = len(SC.expected_responses(reqs, sent))
                res["done"] = pump(lambda: nfinal(buf, methods)[0] >= expect)
            else:
                data = b"".join(b"".join(SC.request_bytes(i, k, r)) for k, r in enumerate(reqs))
                pieces = cs.get("pieces") or []
                pos = 0
                for p in pieces:
                    if pos < p < len(data):
                        s.sendall(data[pos:p])
                        pos = p
                        time.sleep(0)
                s.sendall(data[pos:])
                if cs.get("half_close"):
                    s.shutdown(socket.SHUT_WR)
                expect = len(SC.expected_responses(reqs))
                res["done"] = pump(lambda: nfinal(buf, methods)[0] >= expect)
            # if the exchange ends the connection, wait for the EOF
            last = SC.expected_responses(reqs)
            if last and (SC.closes_connection(reqs[last[-1]]) or cs.get("half_close")) and res.get("done"):
                pump(lambda: res.get("eof", False))
        except OSError as e:
            res["error"] = repr(e)
        finally:
            res["received"] = bytes(buf)
            try:
                s.close()
            except OSError:
                pass
            conn.client_closed = True

    for i, cs in enumerate(scn["conns"]):
        res = {}
        results.append(res)
        th = threading.Thread(target=client, args=(i, cs, res), daemon=True)
        threads.append(th)
        th.start()
    for th in threads:
        th.join(timeout + 5)
    err = None
    if loop_error or not t.is_alive():
        err = "loop ended: %s" % loop_error
    stopping.append(1)
    # tear down on the loop thread itself (closing the map from here would race with the running
    # loop); errors of this harness teardown are not observations of the server
    try:
        from waitress import wasyncore

        srv.task_dispatcher.shutdown(cancel_pending=True, timeout=1)
        srv.trigger.pull_trigger(lambda: wasyncore.close_all(srv._map, ignore_all=True))
    except Exception:  # noqa
        pass
    t.join(3)
    if t.is_alive():
        try:
            srv.close()
        except Exception:  # noqa
            pass
    _perturb["rng"] = None
    return {"conns": results, "log": [(c, i, what) for _, c, i, what in log.events], "error": err}


def boundary(scn, conns, log_events):
    """Reduce a run (real or Sim) to boundary observations:
    per connection: [(status, tag, payload-ok, body-length)] of complete final responses, eof; execution order"""
    from vf import apps

    out = []
    for i, cs in enumerate(scn["conns"]):
        c = conns[i]
        reqs = cs["requests"]
        methods = [r.get("m", "GET") for r in reqs]
        resps, err, left = rs.parse_responses(c["received"], methods, eof=c.get("eof", False))
        finals = []
        for j, r in enumerate(x for x in resps if not x["interim"]):
            tag = [v for k, v in r["headers"] if k.lower() == b"x-req"]
            body = r["body"]
            ok = None
            if tag:
                cid, idx = tag[0].split(b"-")
                ok = apps.check_ident_payload(body, int(cid), int(idx)) is None
            finals.append((r["status"], tag[0].decode() if tag else None, ok, len(body), bool(r.get("complete"))))
        execs = [idx for cid, idx, what in log_events if cid == i and what == "enter"]
        out.append({"finals": finals, "eof": bool(c.get("eof", False)), "executed": execs, "wire_error": err is not None,
                    "reset": bool(c.get("reset") or c.get("send_error"))})
    return out
