"""Regenerate MANIFEST.json from the table below:  /venv/bin/python -m vf.mkmanifest"""

import json
import os

from vf import core

BASELINE_OFF = (
    "cd /repo && /venv/bin/python -m pytest -ra -q -p no:cacheprovider --timeout=900 "
    "--continue-on-collection-errors"
)

# id -> (engine, category, technique, level text, level note, design ref)
CHECKS = {
    "C01": (
        "sync",
        "exploration",
        "runtime monitoring: differential oracle (independent RFC 9112 reference parser) over generated, "
        "mutated and exhaustively enumerated byte streams run through the real channel/parser/task code",
        "Every generated stream is executed by the real connection code and the recorded application calls, "
        "error responses and close are judged message by message against an independent strict reference "
        "parser. Exhaustive on the single-byte neighbourhoods of 8 base messages; sampled (grammar + one "
        "token mutation per stream) beyond. Held = no disagreement on the executions explored.",
        "Trusts vf/ref/request.py (strict RFC 9112 reading, grey zones in DESIGN.md 2.3), the SyncHarness "
        "fake socket, CPython. Says nothing about streams not generated.",
        "DESIGN.md 4 C01, 2.1, 2.3",
    ),
    "C10": (
        "pure",
        "exploration",
        "runtime monitoring: bounded-exhaustive differential run of each lexical gate through its call site "
        "(HTTPRequestParser / ChunkedReceiver) against hand-written recognisers; pumping to 10^5 bytes",
        "Every byte string up to length 2 over all 256 bytes (3 for the numeric gates in thorough) and up to length "
        "4 (quick) / 5 (thorough) over a per-gate class alphabet is placed in the token position of a real message and "
        "parsed by the real parser; accept/reject and the resulting number / fields are compared with independent "
        "recognisers for 1*DIGIT, 1*HEXDIG, chunk-ext, field-line and request-line. exhaustive on those spaces, "
        "pumped and random strings beyond. Not an automata decision procedure (stated in DESIGN.md 9).",
        "Trusts the recognisers in vf/ref/request.py; realistic gate defects (anchor, */+, class one byte too wide, "
        "pre-stripping, match/fullmatch) have witnesses of length <= 3 over the class alphabet.",
        "DESIGN.md 4 C10",
    ),
    "C20": (
        "pure",
        "exploration",
        "runtime monitoring: reference rule table (written from the documentation) run against the real "
        "Adjustments constructor / parse_args on completely enumerated configuration spaces",
        "All subsets of the exclusive listen/host/port/sockets/unix_socket group x family toggles, all 2^8 proxy "
        "trust configurations (plus unknown kinds), socket lists up to length 3, every adjustment x representative "
        "values x {keyword, --x=v, --x v, --x/--no-x}, and the option names of arguments.rst, runner.rst and the "
        "help text are enumerated completely and judged by the reference table. exhaustive: true.",
        "Trusts the reference casts/rules written from docs/arguments.rst; option *names* are compared with the "
        "docs, prose defaults are not judged (DESIGN.md 6 O-4, O-5).",
        "DESIGN.md 4 C20",
    ),
    "C02": (
        "sync",
        "exploration",
        "runtime monitoring: metamorphic oracle (observation under a segmentation == observation under one-piece delivery) "
        "over systematic and exhaustive segmentations of generated streams, real channel/parser code",
        "Every generated stream (valid, mutated, oversize, pipelined) is delivered byte-wise, with every single cut, every "
        "pair of cuts (<= 64 bytes), structural-boundary pairs and random k-cuts; short streams and short chunked bodies "
        "with ALL 2^(n-1) segmentations. Calls (with content), final statuses, refusal and close must equal the "
        "one-piece run. Counts cuts that actually landed in each of the six carry-over states.",
        "Trusts the fake socket's one-recv-per-segment delivery; 400 vs 413 for a body that is both malformed and over "
        "the limit is not distinguished (DESIGN.md 6 O-6); optional 100 Continue excluded (C19).",
        "DESIGN.md 4 C02",
    ),
    "C06": (
        "sync",
        "exploration",
        "runtime monitoring: refusal-contract monitor + reference parser over boundary sweeps, oversize/malformed "
        "families and two worker schedules; exception hook on received()/handle_error; CPU-scaling monitor",
        "Complete sweep of head lengths limit-3..limit+3 (three head shapes, three tails, one-piece / byte-wise / cuts "
        "at the boundary), body limits -1/0/+1 for Content-Length and chunked, 1..6000-digit numbers, unterminated "
        "heads / control lines / trailers, mutated sentences under tiny limits, recv sizes 1/64/8192, eager and lazy "
        "worker. Each run is checked for: no application call, exactly one parseable 400/413/431/501 with Connection: "
        "close, closure, no recv after the read in which refusal became decidable, no exception, step budget; plus a "
        "thread-CPU-time scaling monitor over 20 pumped shapes.",
        "Trusts vf/ref/request.py for which status applies; lookahead 0 for the stops-consuming clause; the scaling "
        "monitor uses CPU-time ratios with an absolute floor (no wall-clock deadline).",
        "DESIGN.md 4 C06",
    ),
    "C17": (
        "pure",
        "exploration",
        "runtime monitoring: reference bytearray FIFO run in lock-step with the real OverflowableBuffer / "
        "ReadOnlyFileBasedBuffer over completely enumerated operation histories; internal remain/position invariant hook",
        "All histories of 5 (quick) / 6 (thorough) operations over the 14-17 operations the server issues, for every "
        "overflow threshold in {0,1,2,8191,8192,8193,20000}, plus seeded random histories of length <= 60 and the "
        "read-only buffer grid; every return value and len() is compared with the reference queue after every step. "
        "exhaustive on the bounded histories (count cross-checked by a DP count).",
        "Trusts the 40-line reference FIFO; prune() is outside the quantifier (no caller in the server).",
        "DESIGN.md 4 C17",
    ),
    "C03": (
        "sync",
        "exploration",
        "runtime monitoring: client-side reference parser + program-derived oracle over the enumerated decision table of "
        "application behaviours (DSL programs interpreted as real WSGI callables), real task/channel code",
        "Each cell of the decision table (version x Connection x method x status class x declared length x body shape x "
        "return kind incl. file_wrapper variants x failure point x send pattern) is run as a real request followed by a "
        "probe request; the wire must parse strictly into one response per executed request with the program's status, "
        "headers and bytes (cut at the declared length), and announced persistence must match what happens next (probe "
        "served / EOF). Complete table in the thorough tier (exhaustive), every 3rd cell in quick; sampled pipelines.",
        "Trusts vf/ref/response.py and vf/apps.intended(); programs outside the WSGI contract are not generated.",
        "DESIGN.md 4 C03, 2.4, 2.5",
    ),
    "C07": (
        "sync",
        "exploration",
        "runtime monitoring: reference environ model (written from PEP 3333 and the docs) compared with the environ and "
        "wsgi.input the application actually receives, over generated well-formed requests and configurations",
        "Generated canonically well-formed requests (token names incl. dash/underscore aliases and CGI-shadowing names, "
        "repeated fields, obs-text, every target form, valid/invalid escapes, empty/small/temp-file/chunked bodies, "
        "pipelines) x url_prefix/url_scheme/server_name x TCP and unix peers are executed by the real server code; the "
        "exact HTTP_* key set, joined values, server-defined keys, PATH_INFO/QUERY_STRING/SCRIPT_NAME and "
        "len(wsgi.input)==CONTENT_LENGTH are compared with an independent reference.",
        "Trusts vf/ref/environ.py; unix-socket SERVER_PORT/REMOTE_PORT, authority-form and empty absolute paths are "
        "unjudged (PEP 3333 / docs leave them undefined) and counted as such.",
        "DESIGN.md 4 C07",
    ),
    "C08": (
        "sync",
        "exploration",
        "runtime monitoring: line-level oracle on the response head bytes for application-supplied status/header "
        "strings with an offending character at every position; both start_response calls; late mutation",
        "Application programs whose status, header names and values contain each of 42 troublemaker characters at every "
        "position (exhaustive for one offender), non-str objects, hop-by-hop names, via the initial call, the exc_info "
        "re-call before/after output and mutation after the call, over list/generator/write()/file_wrapper bodies and "
        "HTTP/1.0/1.1. The head must be exactly status line + the application's lines + the server's own lines with no "
        "bare CR/LF, or a clean 500 that contains none of the application's strings.",
        "Trusts the line-level oracle and the server's 500 template as the definition of a refusal; strings that cannot "
        "be encoded to latin-1 may be refused with a clean 500 (counted, not judged).",
        "DESIGN.md 4 C08",
    ),
    "C15": (
        "sync",
        "exploration",
        "runtime monitoring: relational (two-run) non-interference oracle on the environ seen behind the real "
        "server-installed proxy middleware, plus a third trusted run for non-vacuity",
        "For generated requests x values of the six proxy headers (well-formed, malformed, degenerate, hostile, "
        "single-byte mutated; case/underscore aliases; duplicated lines) x untrusted peers (incl. prefixes of the trusted "
        "address and the unix peer) x every allowed trust configuration, the environ with the headers must equal the "
        "environ with the header lines deleted on the seven connection variables and on every other key; with clearing on "
        "the headers must be absent. A third run with the peer trusted counts how often each variable would have changed.",
        "Trusts SyncHarness and the recorder application; trusted_proxy='*' is excluded by the property.",
        "DESIGN.md 4 C15",
    ),
    "C16": (
        "sync",
        "exploration",
        "runtime monitoring: reference trust-rule model + taint markers per hop + totality monitor (exception hook on "
        "parse_proxy_headers, status in {200,400}) over generated and single-byte-mutated proxy header values",
        "Hop lists of length 0..5 with a unique marker per hop x trusted_proxy_count 1..4 x every allowed subset of "
        "trusted kinds x untrusted kinds present x quoting/bracket/port forms x the degenerate catalogue at every list "
        "position, and the complete single-byte neighbourhood of 10 base values. Checks: never 500 / exception; only "
        "trusted kinds influence the seven variables; values come from the trusted_proxy_count-th hop from the right; no "
        "marker of a hop left of the trusted suffix occurs in any environ value; the listed malformed classes give 400.",
        "Trusts the reference hop/kind rules written from docs/reverse-proxy.rst; degenerate values the property does not "
        "classify (e.g. an empty host NAME as in 'host=:80') accept 400 or the reference value and are counted as unclassified.",
        "DESIGN.md 4 C16",
    ),
    "C04": (
        "sim",
        "exploration",
        "runtime monitoring under a controlled scheduler: the real threaded server (I/O loop + workers) runs in a "
        "deterministic simulated world (locks, conditions, select/poll, sockets, self-pipe; pre-emption at every lock "
        "operation, socket call and source line via sys.monitoring); offline checker over the recorded history with "
        "self-identifying payloads",
        "Pipelines on 1-3 connections with payload sizes around the buffer thresholds, partial sends, lookahead 0-2 and "
        "1-3 workers are run under seeded random-walk and PCT schedules and under the COMPLETE single-pre-emption "
        "neighbourhood of pilot schedules of directed scenarios. Per connection: executions pairwise non-overlapping, in "
        "arrival order, each exactly once up to the closing request; the client's byte stream parses into exactly those "
        "responses with every 8-byte payload block in place (duplication, loss, interleaving visible). Evidence counts "
        "distinct schedules and the interleavings of interest actually reached.",
        "Trusts the Sim's models (DESIGN.md 5); coverage of schedules is <=1 pre-emption complete per enumerated "
        "scenario, sampled beyond.",
        "DESIGN.md 4 C04, 2.2",
    ),
    "C05": (
        "sim",
        "exploration",
        "runtime monitoring under a controlled scheduler with the poll timeout removed: quiescence (or a spinning "
        "fixpoint) of the simulated world is observable and checked against client-side delivery",
        "Burst, ping-pong and streaming (application waits for its own output to be delivered) clients that always read, "
        "response sizes swept across SO_SNDBUF, send_bytes and watermark settings, both poll implementations. A run ends "
        "only when no thread can run and no timer is pending; then every client must have all expected responses or a "
        "closed connection. Workhorse: complete single-pre-emption enumeration (a lost wake-up needs the I/O thread "
        "parked in poll before the worker's last state change). Counts runs in which the I/O thread was parked while a "
        "worker produced output / finished / decided to close.",
        "Liveness is restated as 'quiescence with infinite poll timeout implies delivery'; trusts the Sim's readiness model.",
        "DESIGN.md 4 C05",
    ),
    "C11": (
        "sim",
        "exploration",
        "runtime monitoring under a controlled scheduler: application invocations ordered against the closing message "
        "in the recorded history; single- and targeted double-pre-emption enumeration around received()",
        "For nine kinds of closing message x what follows it x when it arrives (incl. while the closing request is still "
        "executing, via a gated application) x lookahead 0/1/2/5, no request after the closing message may ever reach the "
        "application. Schedules: complete single-pre-emption neighbourhoods, a targeted two-pre-emption enumeration (first "
        "switch inside the I/O thread's received(), second within the next yield points after it resumes), random walk, PCT.",
        "Trusts the scenario's knowledge of which message closes; for injected worker-side send errors the decision point "
        "is the faulting send().",
        "DESIGN.md 4 C11",
    ),
    "C12": (
        "sim",
        "exploration",
        "runtime monitoring under a controlled scheduler: bound asserted at a hook on write_soon/send_continue (pending "
        "output <= watermark + that write), quiescence inspection for paused producers, payload oracle",
        "One producing worker against the draining I/O thread: write sizes around the mark, watermarks 0/1/64/4096, "
        "send_bytes 1/64/18000, drain patterns (always, stall-then-resume, never, FIN/RST/half-close after k bytes), "
        "single-pre-emption enumeration + random/PCT. Pending output is sampled at every write_soon return; at "
        "quiescence no producer may be asleep while the client reads or after it disconnected, and the request must be "
        "aborted (worker back in the pool) after a disconnect; the client stream is the exact payload prefix.",
        "A client that stops reading for good may keep a producer paused (no timers here); pending output only grows "
        "inside write_soon/send_continue.",
        "DESIGN.md 4 C12",
    ),
    "C09": (
        "sim",
        "fault_enumeration",
        "runtime monitoring with fault injection: an exception at every step index of every base program x exception "
        "class x configuration, and a client disconnect at every server send(); monitors on wire bytes, close() counts, "
        "file closes, thread liveness and a probe connection",
        "72 DSL programs (all return kinds, both start_response timings, small and multi-send bodies, close present / "
        "absent / raising) are run in the real threaded server with an exception injected at each step index (call, after "
        "start_response, before/after each write or chunk, close) for Exception / OSError / BaseException x "
        "expose_tracebacks x log_socket_errors, and with RST / full close injected at each send() index of the fault-free "
        "run. Oracle: one complete 500 then close before output, silent close after; marker text only with "
        "expose_tracebacks; close() exactly once; wrapped file explicitly closed; workers and loop alive; probe served. "
        "Complete enumeration of the placements (exhaustive).",
        "Trusts apps.intended() for before/after-output; the schedule dimension is only sampled here.",
        "DESIGN.md 4 C09",
    ),
    "C14": (
        "sim",
        "exploration",
        "runtime monitoring under a controlled scheduler: offline conservation / exactly-once / FIFO checker over the "
        "recorded history of the real ThreadedTaskDispatcher (recording deque, uniquely numbered tasks)",
        "Submitters, workers, set_thread_count up/down and shutdown(cancel_pending) interleave under random-walk, PCT "
        "and complete single-pre-emption schedules with the 5 s shutdown timeout on the virtual clock; task bodies submit "
        "follow-ups, block on events or raise (incl. BaseException). At the end every task submitted before shutdown is in "
        "exactly one of serviced-once / cancelled-once / still-queued (empty with cancel_pending), pops equal appends in "
        "order, and the worker count matches the last resize / is zero after shutdown.",
        "Post-shutdown clauses are not judged for histories in which set_thread_count raced with shutdown.",
        "DESIGN.md 4 C14",
    ),
    "C13": (
        "sim",
        "fault_enumeration",
        "runtime monitoring with fault injection: every placement of one fault over the socket calls of base scenarios "
        "(plus sampled pairs and single-pre-emption neighbourhoods around disconnects); monitors on the acting thread of "
        "every socket close and socket-map mutation, thread liveness, listener registration, probe and bystander",
        "Base scenarios are run fault-free to list every recv / send / accept and set-up call; each call then fails with "
        "each of 7 errnos or with FIN / RST / full close, under the non-pre-emptive and random-walk schedules. After each "
        "run: loop and workers alive, listener still in the map and not closed, a later connection served, every close() "
        "and map mutation performed by the I/O thread, no socket closed twice, output buffers of closed channels closed, "
        "dead connections torn down, bystander stream intact. Complete over single placements in the thorough tier.",
        "Every listed errno is tried at every call regardless of whether a kernel could return it there; leaks of an "
        "accepted socket after a set-up fault are left to the garbage collector (not judged).",
        "DESIGN.md 4 C13",
    ),
    "C18": (
        "sim",
        "exploration",
        "runtime monitoring on a virtual clock: invariant hooks on every socket-map mutation and accept, and an offline "
        "checker of per-connection timelines (activity, request execution, server-initiated close) against the reaping "
        "deadlines, over enumerated event histories",
        "A director drives connect / partial / complete request / large response / client reads / stalls / application "
        "finishes / clock advances against the real server loop (1 s poll timeout on the virtual clock) for limits 4/5/8, "
        "timeouts 3/10, cleanup intervals 1/4, 1-2 listeners, 1-2 workers. All histories up to length 4 (quick) / 5 "
        "(thorough) plus random ones up to 14. Checked: map size <= limit + listeners - 1 at every mutation, no accept at "
        "the limit, backlog connections admitted within 2.5 s of room, idle connections closed by last activity + "
        "channel_timeout + cleanup_interval + 2 s, no server-initiated close while a request is queued or executing.",
        "Liveness as bounded progress on the virtual clock; findings are keyed by mechanism (F-12, long open, is fixed).",
        "DESIGN.md 4 C18",
    ),
    "C19": (
        "sync+sim",
        "exploration",
        "runtime monitoring: waiting-client harness (the body is withheld until a 100 Continue or a final response is on "
        "the wire) + positional attribution of interim responses + reference-parser oracle; schedule part under the "
        "controlled scheduler",
        "Input part: pipelines mixing ten request kinds (expecting with length / chunked / no body / refused / too large / "
        "HTTP/1.0 / other Expect values, plain) as waiting and non-waiting clients over one-piece, byte-wise, structural "
        "and random segmentations, lookahead 0/1, eager and lazy worker. Schedule part: the worker finishing the preceding "
        "request races the I/O thread receiving the expecting head (single-pre-emption enumeration, random, PCT). Checked: "
        "the wire parses; each 100 is attributed to the request whose turn it is; at most one, none unasked or for "
        "HTTP/1.0; no client left waiting at quiescence; every request executed or refused once with its own fields.",
        "Trusts the WaitFor client model and vf/ref/request.py.",
        "DESIGN.md 4 C19",
    ),
}

PENDING = {}

ALL = ["C%02d" % i for i in range(1, 21)]


def main():
    checks = []
    for pid in ALL:
        if pid not in CHECKS:
            continue
        engine, cat, technique, text, note, ref = CHECKS[pid]
        checks.append(
            {
                "property_id": pid,
                "quick_cmd": f"./check {pid} --tier quick",
                "thorough_cmd": f"./check {pid} --tier thorough",
                "evidence_file": f"/verif/evidence/{pid}.json",
                "replay_cmd_template": f"./check {pid} --replay {{path}}",
                "engine": engine,
                "level_claimed": {"category": cat, "text": text, "design_ref": ref},
                "level_note": note,
                "technique": technique,
            }
        )
    na = [
        {"property_id": pid, "reason": PENDING.get(pid, "check not built yet in this session; see DESIGN.md 4 for the plan")}
        for pid in ALL
        if pid not in CHECKS
    ]
    m = {
        "version": 1,
        "setup_cmd": "/venv/bin/python -m vf setup",
        "hooks": {
            "guard": "WAITRESS_VERIF",
            "enable": "no source hooks: the harness rebinds module globals / wraps class attributes of the "
            "waitress modules at run time (python -m vf); /repo/src is imported as it is on disk",
            "baseline_off_cmd": BASELINE_OFF,
            "source_commits": [],
            "add_only": True,
        },
        "engines": [
            {
                "name": "sync",
                "path": "vf/sync.py",
                "serves_properties": ["C01", "C02", "C03", "C06", "C07", "C08", "C15", "C16", "C19"],
                "kind_free_text": "SyncHarness: real TcpWSGIServer/HTTPChannel/parser/tasks single-threaded over a scripted fake socket",
            },
            {
                "name": "sim",
                "path": "vf/sim/",
                "serves_properties": ["C04", "C05", "C06", "C09", "C11", "C12", "C13", "C14", "C18", "C19"],
                "kind_free_text": "deterministic baton-passing scheduler over the real threaded server (simulated sockets incl. blocking mode, urgent data and persistent faults, select/poll, pipe, locks, virtual clock; sys.monitoring LINE yield points, INSTRUCTION in the lock-free readiness functions)",
            },
            {
                "name": "pure",
                "path": "vf/checks/",
                "serves_properties": ["C10", "C17", "C20"],
                "kind_free_text": "reference-model monitors calling the real functions directly on enumerated inputs/histories",
            },
        ],
        "checks": checks,
        "not_applicable": na,
        "notes": "All checks: ./check <ID> [--tier quick|thorough] [--replay FILE]; exit 0 held / 1 violation / 2 inconclusive. "
        "Known findings: known_findings.json (keyed by mechanism). Evidence is written by the check itself.",
    }
    # (kept even when empty: every one of the 20 properties is decided by runtime monitoring)
    with open(os.path.join(core.ROOT, "MANIFEST.json"), "w") as f:
        json.dump(m, f, indent=1)
    print("MANIFEST.json:", len(checks), "checks,", len(na), "not applicable")


if __name__ == "__main__":
    main()
