"""Regenerate MANIFEST.json from the table below:  /venv/bin/python -m vf.mkmanifest"""

import json
import os

from vf import core

BASELINE_OFF = (
    "cd /repo && /venv/bin/python -m pytest -ra -q -p no:cacheprovider --timeout=900 "
    "--continue-on-collection-errors"
)

# id -> (engine, category, technique, level text, level note, design ref)
CHECKS = {
    "C01": (
        "sync",
        "exploration",
        "runtime monitoring: differential oracle (independent RFC 9112 reference parser) over generated, "
        "mutated and exhaustively enumerated byte streams run through the real channel/parser/task code",
        "Every generated stream is executed by the real connection code and the recorded application calls, "
        "error responses and close are judged message by message against an independent strict reference "
        "parser. Exhaustive on the single-byte neighbourhoods of 8 base messages; sampled (grammar + one "
        "token mutation per stream) beyond. Held = no disagreement on the executions explored.",
        "Trusts vf/ref/request.py (strict RFC 9112 reading, grey zones in DESIGN.md 2.3), the SyncHarness "
        "fake socket, CPython. Says nothing about streams not generated.",
        "DESIGN.md 4 C01, 2.1, 2.3",
    ),
    "C10": (
        "pure",
        "exploration",
        "runtime monitoring: bounded-exhaustive differential run of each lexical gate through its call site "
        "(HTTPRequestParser / ChunkedReceiver) against hand-written recognisers; pumping to 10^5 bytes",
        "Every byte string up to length 2 over all 256 bytes (3 for the numeric gates in thorough) and up to length "
        "4 (quick) / 5 (thorough) over a per-gate class alphabet is placed in the token position of a real message and "
        "parsed by the real parser; accept/reject and the resulting number / fields are compared with independent "
        "recognisers for 1*DIGIT, 1*HEXDIG, chunk-ext, field-line and request-line. exhaustive on those spaces, "
        "pumped and random strings beyond. Not an automata decision procedure (stated in DESIGN.md 9).",
        "Trusts the recognisers in vf/ref/request.py; realistic gate defects (anchor, */+, class one byte too wide, "
        "pre-stripping, match/fullmatch) have witnesses of length <= 3 over the class alphabet.",
        "DESIGN.md 4 C10",
    ),
    "C20": (
        "pure",
        "exploration",
        "runtime monitoring: reference rule table (written from the documentation) run against the real "
        "Adjustments constructor / parse_args on completely enumerated configuration spaces",
        "All subsets of the exclusive listen/host/port/sockets/unix_socket group x family toggles, all 2^8 proxy "
        "trust configurations (plus unknown kinds), socket lists up to length 3, every adjustment x representative "
        "values x {keyword, --x=v, --x v, --x/--no-x}, and the option names of arguments.rst, runner.rst and the "
        "help text are enumerated completely and judged by the reference table. exhaustive: true.",
        "Trusts the reference casts/rules written from docs/arguments.rst; option *names* are compared with the "
        "docs, prose defaults are not judged (DESIGN.md 6 O-4, O-5).",
        "DESIGN.md 4 C20",
    ),
}

PENDING = {}

ALL = ["C%02d" % i for i in range(1, 21)]


def main():
    checks = []
    for pid in ALL:
        if pid not in CHECKS:
            continue
        engine, cat, technique, text, note, ref = CHECKS[pid]
        checks.append(
            {
                "property_id": pid,
                "quick_cmd": f"./check {pid} --tier quick",
                "thorough_cmd": f"./check {pid} --tier thorough",
                "evidence_file": f"/verif/evidence/{pid}.json",
                "replay_cmd_template": f"./check {pid} --replay {{path}}",
                "engine": engine,
                "level_claimed": {"category": cat, "text": text, "design_ref": ref},
                "level_note": note,
                "technique": technique,
            }
        )
    na = [
        {"property_id": pid, "reason": PENDING.get(pid, "check not built yet in this session; see DESIGN.md 4 for the plan")}
        for pid in ALL
        if pid not in CHECKS
    ]
    m = {
        "version": 1,
        "setup_cmd": "/venv/bin/python -m vf setup",
        "hooks": {
            "guard": "WAITRESS_VERIF",
            "enable": "no source hooks: the harness rebinds module globals / wraps class attributes of the "
            "waitress modules at run time (python -m vf); /repo/src is imported as it is on disk",
            "baseline_off_cmd": BASELINE_OFF,
            "source_commits": [],
            "add_only": True,
        },
        "engines": [
            {
                "name": "sync",
                "path": "vf/sync.py",
                "serves_properties": ["C01", "C02", "C03", "C06", "C07", "C08", "C15", "C16", "C19"],
                "kind_free_text": "SyncHarness: real TcpWSGIServer/HTTPChannel/parser/tasks single-threaded over a scripted fake socket",
            },
            {
                "name": "sim",
                "path": "vf/sim/",
                "serves_properties": ["C04", "C05", "C09", "C11", "C12", "C13", "C14", "C18", "C19"],
                "kind_free_text": "deterministic baton-passing scheduler over the real threaded server (simulated sockets, select/poll, pipe, locks, virtual clock; sys.monitoring LINE yield points)",
            },
            {
                "name": "pure",
                "path": "vf/checks/",
                "serves_properties": ["C10", "C17", "C20"],
                "kind_free_text": "reference-model monitors calling the real functions directly on enumerated inputs/histories",
            },
        ],
        "checks": checks,
        "not_applicable": na,
        "notes": "All checks: ./check <ID> [--tier quick|thorough] [--replay FILE]; exit 0 held / 1 violation / 2 inconclusive. "
        "Known findings: known_findings.json (keyed by mechanism). Evidence is written by the check itself.",
    }
    if not na:
        del m["not_applicable"]
    with open(os.path.join(core.ROOT, "MANIFEST.json"), "w") as f:
        json.dump(m, f, indent=1)
    print("MANIFEST.json:", len(checks), "checks,", len(na), "not applicable")


if __name__ == "__main__":
    main()
