"""Compare what the real server did with a byte stream against the reference
parser's expected outcomes (C01, C06; observation tuples for C02)."""

from vf.ref import request as rq
from vf.ref import response as rs

ERR_STATUSES = (400, 413, 431, 501)


def collapse_ws(s):
    out = []
    prev = False
    for ch in s:
        if ch in " \t":
            if not prev:
                out.append(" ")
            prev = True
        else:
            out.append(ch)
            prev = False
    return "".join(out).strip(" ")


def observed_image(environ):
    img = {}
    for k, v in environ.items():
        if k.startswith("HTTP_"):
            img[k[5:]] = v
        elif k in ("CONTENT_LENGTH", "CONTENT_TYPE"):
            img[k] = v
    return img


def doomed(data):
    """True if no continuation of `data` can make the unit it ends in valid:
    it contains a bare LF, or a CR not followed by LF, or a NUL"""
    n = len(data)
    for i, c in enumerate(data):
        if c == 0x0A and (i == 0 or data[i - 1] != 0x0D):
            return True
        if c == 0x0D and i + 1 < n and data[i + 1] != 0x0A:
            return True
        if c == 0:
            return True
    return False


WAITRESS_FILES = ("parser.py", "receiver.py", "channel.py", "task.py", "utilities.py", "buffers.py",
                  "proxy_headers.py", "server.py", "wasyncore.py", "rfc7230.py", "trigger.py")


def exc_key(e):
    """mechanism key of a recorded exception: type + deepest frame inside waitress"""
    site = "?"
    for fr in e.get("where", []):
        parts = fr.split(":")
        if parts[0] in WAITRESS_FILES:
            site = parts[0] + ":" + parts[1]
    return "exception:" + e["type"] + "@" + site


def primary_zone(zones):
    for z in ("cl+te", "te-not-1.1", "empty-te", "te-empty-elements", "obs-fold"):
        if z in zones:
            return z
    return "plain"


class Verdict:
    __slots__ = ("violations", "classes", "zones", "ncalls")

    def __init__(self):
        self.violations = []  # (key, what)
        self.classes = []  # outcome classes seen (for non-vacuity)
        self.zones = set()
        self.ncalls = 0


def judge(data, expected, res, strict_400_body=False):
    """expected: list[Outcome]; res: sync.Result with .calls.
    Returns a Verdict."""
    v = Verdict()
    calls = res.calls
    methods = [c.environ.get("REQUEST_METHOD") for c in calls]
    # an error response to a refused HEAD request carries no body either
    tail = None
    for o in expected:
        if o.kind != "deliver" or len(methods) < 1 + expected.index(o):
            rest = data[o.start:].lstrip(b"\r\n")
            tail = "HEAD" if rest.startswith(b"HEAD ") else None
            break
    resps, werr, leftover = rs.parse_responses(res.wire, methods + [None, None], eof=res.closed)
    if werr is not None and tail == "HEAD":
        # the server may or may not have got as far as learning the method
        r2 = rs.parse_responses(res.wire, methods + ["HEAD", None], eof=res.closed)
        if r2[1] is None:
            resps, werr, leftover = r2
    finals = [r for r in resps if not r["interim"]]

    def bad(key, what):
        v.violations.append((key, what))

    if res.exceptions:
        e = res.exceptions[0]
        bad(exc_key(e), f"exception escaped: {e}")
        return v
    if res.hung:
        bad("hang", f"no quiescence within {res.steps} steps")
    if werr is not None:
        bad("wire-unparseable", f"response stream does not parse: {werr}")
        return v

    ci = 0  # index into calls
    fi = 0  # index into final responses
    terminal = False
    for o in expected:
        v.zones |= o.zones
        if o.kind == "deliver":
            # Either-branch: the server refused where it may
            took_refuse = False
            if ci >= len(calls):
                # no call for this message
                if fi < len(finals) and finals[fi]["status"] in ERR_STATUSES:
                    st = finals[fi]["status"]
                    if st in o.may_refuse:
                        took_refuse = True
                        v.classes.append("either-refused:" + ",".join(sorted(o.zones)))
                    else:
                        bad("refused-deliverable:%d" % st,
                            f"message the reference delivers was refused with {st}: {o.brief()}")
                        return v
                    fi += 1
                    if not res.closed:
                        bad("refusal-without-close", "error response but connection left open")
                    if fi < len(finals) or ci < len(calls):
                        bad("service-after-refusal", "responses or calls after an error response")
                    terminal = True
                    break
                bad("lost-request", f"complete message neither executed nor refused: {o.brief()}")
                return v
            c = calls[ci]
            env = c.environ
            what = None
            if env.get("REQUEST_METHOD") != o.method.decode("latin-1").upper():
                what = f"method {env.get('REQUEST_METHOD')!r} != {o.method!r}"
            elif env.get("REQUEST_URI") != o.target.decode("latin-1"):
                what = f"target {env.get('REQUEST_URI')!r} != {o.target!r}"
            elif o.version in ("1.0", "1.1") and env.get("SERVER_PROTOCOL") != "HTTP/" + o.version:
                what = f"protocol {env.get('SERVER_PROTOCOL')!r} != {o.version!r}"
            elif c.body != o.body:
                what = f"body {c.body[:60]!r} (len {len(c.body)}) != {o.body[:60]!r} (len {len(o.body)})"
            else:
                exp = rq.field_image(o)
                got = observed_image(env)
                if "empty-te" in o.zones:
                    exp.pop("TRANSFER_ENCODING", None)
                    got.pop("TRANSFER_ENCODING", None)
                if o.fold:
                    exp = {k: collapse_ws(x) for k, x in exp.items()}
                    got = {k: collapse_ws(x) for k, x in got.items()}
                if o.drop_cl:
                    pass  # image already carries the decoded length
                if exp != got:
                    diff = {k: (exp.get(k), got.get(k)) for k in set(exp) | set(got) if exp.get(k) != got.get(k)}
                    what = f"header image differs (expected, got): {diff}"
            if what is not None:
                bad("delivered-differently:" + o.framing, what + " -- " + o.brief())
                return v
            ci += 1
            v.ncalls += 1
            v.classes.append("deliver:" + o.framing)
            if fi >= len(finals) or finals[fi]["status"] != 200:
                bad("missing-response", "executed request has no 200 response")
                return v
            fi += 1
            if o.close_after is True:
                v.classes.append("close-after")
                if ci < len(calls):
                    bad("executed-after-close-required:" + primary_zone(o.zones),
                        f"request executed after a message that must end the connection: {o.brief()}")
                    return v
                if fi < len(finals):
                    bad("executed-after-close-required:" + primary_zone(o.zones), "response after a message that must end the connection")
                    return v
                if not res.closed:
                    bad("not-closed-after:" + primary_zone(o.zones),
                        f"connection reusable after a message that must end it: {o.brief()}")
                    return v
                terminal = True
                break
            if res.closed and ci >= len(calls) and fi >= len(finals):
                # server closed although persistence was possible: legitimate
                # only if not judged / request wished it.
                if o.close_after is False and o is not expected[-1]:
                    bad("closed-persistent", f"connection closed after a message that keeps it alive: {o.brief()}")
                    return v
                terminal = True
                break
        elif o.kind == "refuse":
            v.classes.append("refuse:" + o.reason)
            if ci < len(calls):
                bad("delivered-refusable:" + o.reason,
                    f"message that must be refused ({o.reason}) reached the application: "
                    f"{calls[ci].environ.get('REQUEST_METHOD')} {calls[ci].environ.get('REQUEST_URI')!r} body={calls[ci].body[:40]!r}")
                return v
            if fi >= len(finals):
                bad("refusal-without-response:" + o.reason, f"no error response for a refused message ({o.reason}); closed={res.closed}")
                return v
            st = finals[fi]["status"]
            if st not in o.statuses:
                bad("refusal-status:%d:%s" % (st, o.reason), f"status {st} not in {sorted(o.statuses)} for {o.reason}")
                return v
            v.classes.append("status:%d" % st)
            fi += 1
            if fi < len(finals):
                bad("service-after-refusal", "responses after the error response")
                return v
            if not res.closed:
                bad("refusal-without-close", "error response but connection left open")
                return v
            terminal = True
            break
        else:  # incomplete
            v.classes.append("incomplete")
            if ci < len(calls):
                bad("delivered-incomplete",
                    f"incomplete message reached the application ({o.reason}): body={calls[ci].body[:40]!r}")
                return v
            if fi < len(finals):
                st = finals[fi]["status"]
                ok = st in o.may_refuse or (st == 400 and doomed(data[o.start:]))
                if not ok:
                    bad("refused-incomplete:%d" % st, f"incomplete (still valid) message refused with {st} ({o.reason})")
                    return v
                v.classes.append("incomplete-early-refusal")
                fi += 1
                if not res.closed:
                    bad("refusal-without-close", "error response but connection left open")
            terminal = True
            break
    if not terminal:
        if ci < len(calls):
            bad("extra-call", f"{len(calls) - ci} application call(s) beyond the messages in the stream")
        elif fi < len(finals):
            bad("extra-response", f"{len(finals) - fi} response(s) beyond the messages in the stream")
    return v


def observation(res):
    """The C02 observation tuple: independent of timing, byte counts, and
    optional interim responses."""
    methods = [c.environ.get("REQUEST_METHOD") for c in res.calls] + [None, None]
    resps, werr, leftover = rs.parse_responses(res.wire, methods, eof=res.closed)
    calls = tuple(
        (
            c.environ.get("REQUEST_METHOD"),
            c.environ.get("REQUEST_URI"),
            c.environ.get("SERVER_PROTOCOL"),
            tuple(sorted(observed_image(c.environ).items())),
            c.body,
        )
        for c in res.calls
    )
    finals = tuple(r["status"] for r in resps if not r["interim"])
    return (calls, finals, bool(res.closed), werr is not None,
            tuple(e["type"] for e in res.exceptions), res.hung)
