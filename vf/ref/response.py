"""Strict client-side parser of an HTTP/1.x response byte stream (RFC 9112 6.3).

parse_responses(wire, methods, eof) -> (responses, error, leftover)

`methods` is the list of request methods in the order the requests were
answered (needed for HEAD); it may be longer than the number of responses.
Each response: dict(status=int, reason=bytes, version=str, headers=[(name,
value)], body=bytes, framing="none"|"cl"|"chunked"|"eof", interim=bool,
start=int, end=int, head=bytes, complete=bool).
error is None or a string describing the first deviation.
"""

from vf.ref.request import (
    DIGITS,
    is_digits,
    parse_chunk_line,
    parse_field_line,
    strip_ows,
)


class WireError(Exception):
    pass


def _parse_head(wire, pos):
    term = wire.find(b"\r\n\r\n", pos)
    if term < 0:
        return None
    head = wire[pos:term]
    lines = head.split(b"\r\n")
    sl = lines[0]
    # status-line = HTTP-version SP status-code SP [reason-phrase]
    if (
        len(sl) < 12
        or sl[:5] != b"HTTP/"
        or sl[5] not in DIGITS
        or sl[6:7] != b"."
        or sl[7] not in DIGITS
        or sl[8:9] != b" "
        or not is_digits(sl[9:12])
    ):
        raise WireError(f"bad status line {sl[:60]!r}")
    if len(sl) > 12 and sl[12:13] != b" ":
        raise WireError(f"bad status line {sl[:60]!r}")
    if b"\r" in sl or b"\n" in sl:
        raise WireError("bare CR/LF in status line")
    status = int(sl[9:12])
    reason = sl[13:]
    headers = []
    for ln in lines[1:]:
        if b"\r" in ln or b"\n" in ln:
            raise WireError(f"bare CR/LF in header line {ln[:60]!r}")
        f = parse_field_line(ln)
        if f is None:
            raise WireError(f"bad header line {ln[:60]!r}")
        headers.append(f)
    return {
        "status": status,
        "reason": reason,
        "version": sl[5:8].decode(),
        "headers": headers,
        "head": wire[pos : term + 4],
        "start": pos,
        "head_end": term + 4,
    }


def header_values(resp, name):
    name = name.lower()
    return [v for k, v in resp["headers"] if k.lower() == name]


def parse_responses(wire, methods=(), eof=True, all_final=False):
    out = []
    pos = 0
    n = len(wire)
    mi = 0
    try:
        while pos < n:
            r = _parse_head(wire, pos)
            if r is None:
                raise WireError(f"incomplete response head at {pos}: {wire[pos:pos+40]!r}")
            status = r["status"]
            r["interim"] = 100 <= status < 200 and not all_final
            method = None
            if not r["interim"]:
                method = methods[mi] if mi < len(methods) else None
                mi += 1
            r["method"] = method
            p = r["head_end"]
            te = header_values(r, b"transfer-encoding")
            cl = header_values(r, b"content-length")
            r["complete"] = True
            if r["interim"] or status in (204, 304) or 100 <= status < 200 or method == "HEAD":
                r["framing"] = "none"
                r["body"] = b""
                if 100 <= status < 200 and (te or cl):
                    raise WireError("1xx response with framing headers")
                if status == 204 and (te or cl):
                    raise WireError("204 response with framing headers")
            elif te:
                codings = [strip_ows(e).lower() for v in te for e in v.split(b",") if strip_ows(e)]
                if codings != [b"chunked"]:
                    raise WireError(f"unsupported transfer coding {te!r}")
                if cl:
                    raise WireError("both Transfer-Encoding and Content-Length")
                r["framing"] = "chunked"
                body = bytearray()
                while True:
                    eol = wire.find(b"\r\n", p)
                    if eol < 0:
                        r["complete"] = False
                        r["body"] = bytes(body)
                        r["end"] = n
                        out.append(r)
                        raise WireError("chunked body truncated (control line)")
                    size = parse_chunk_line(wire[p:eol])
                    if size is None:
                        raise WireError(f"bad chunk line {wire[p:eol][:40]!r}")
                    p = eol + 2
                    if size == 0:
                        break
                    if n - p < size + 2:
                        body += wire[p : p + size]
                        r["complete"] = False
                        r["body"] = bytes(body)
                        r["end"] = n
                        out.append(r)
                        raise WireError("chunked body truncated (data)")
                    body += wire[p : p + size]
                    p += size
                    if wire[p : p + 2] != b"\r\n":
                        raise WireError("chunk not terminated by CRLF")
                    p += 2
                # trailer section (the server under test sends none)
                if wire[p : p + 2] != b"\r\n":
                    if n - p < 2:
                        r["complete"] = False
                        r["body"] = bytes(body)
                        r["end"] = n
                        out.append(r)
                        raise WireError("chunked body truncated (terminator)")
                    raise WireError("unexpected trailer section")
                p += 2
                r["body"] = bytes(body)
            elif cl:
                if len(cl) != 1 or not is_digits(cl[0]):
                    raise WireError(f"bad Content-Length {cl!r}")
                length = int(cl[0])
                r["framing"] = "cl"
                r["declared"] = length
                if n - p < length:
                    r["body"] = wire[p:]
                    r["complete"] = False
                    r["end"] = n
                    out.append(r)
                    raise WireError(f"body truncated: {n - p} of {length} bytes")
                r["body"] = wire[p : p + length]
                p += length
            else:
                r["framing"] = "eof"
                r["body"] = wire[p:]
                p = n
                if not eof:
                    r["complete"] = False
            r["end"] = p
            out.append(r)
            pos = p
    except WireError as e:
        return out, str(e), wire[pos:]
    return out, None, b""
