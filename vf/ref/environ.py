"""Reference image of a request in the WSGI environ (property C07).

Written from PEP 3333 ("environ Variables", "Unicode Issues", "Input and
Error Streams"), RFC 3875 4.1 (CGI meta-variable names), RFC 9112 3.2 (the
four request-target forms), RFC 3986 2.1 (percent-encoding) and the waitress
docs (docs/arguments.rst: url_prefix, url_scheme, server_name, ident,
trusted_proxy "For unix sockets ... localhost"; docs/reverse-proxy.rst) --
not from waitress's task.py / parser.py.  No `re`, no urllib.

The message itself comes in as a vf.ref.request.Outcome (kind "deliver"):
method, target, version, fields [(name, OWS-stripped value)], framing, body.

What is deliberately NOT judged (neither PEP 3333 nor the docs define it) is
returned in the `unjudged` set of expected_environ():

  PATH_INFO for an absolute-form target with an empty path ("http://host")
  PATH_INFO / QUERY_STRING for authority-form (CONNECT host:port)
  SERVER_PORT and REMOTE_PORT of a unix-socket server
"""

HEXDIG = frozenset(b"0123456789abcdefABCDEF")
ALPHA = frozenset(b"abcdefghijklmnopqrstuvwxyzABCDEFGHIJKLMNOPQRSTUVWXYZ")
DIGIT = frozenset(b"0123456789")
SCHEME_CHARS = ALPHA | DIGIT | frozenset(b"+-.")
# the alphabet of well-formed targets this reference is calibrated for
# (RFC 3986 unreserved / sub-delims / ":" "@" "/" "?" and "%")
TARGET_ALPHABET = ALPHA | DIGIT | frozenset(b"-._~!$&'()*+,;=:@/%?")
REGNAME_CHARS = ALPHA | DIGIT | frozenset(b"-._~")

OWS = b" \t"


def percent_decode(raw):
    """RFC 3986 2.1: "%" HEXDIG HEXDIG stands for one octet; a "%" that is not
    followed by two hex digits is not an escape and stays as it is.
    Returns (latin-1 str, number of escapes decoded, number of stray '%')."""
    out = bytearray()
    i, n = 0, len(raw)
    valid = invalid = 0
    while i < n:
        c = raw[i]
        if c == 0x25:
            if i + 2 < n and raw[i + 1] in HEXDIG and raw[i + 2] in HEXDIG:
                out.append(int(raw[i + 1 : i + 3], 16))
                i += 3
                valid += 1
                continue
            invalid += 1
        out.append(c)
        i += 1
    return out.decode("latin-1"), valid, invalid


def split_target(target):
    """Classify a request-target (RFC 9112 3.2) and cut it into raw path and
    raw query.  Returns a dict: form in origin / absolute / asterisk /
    authority / other; path, query: bytes (path None where the form has none)."""
    t = target
    h = t.find(b"#")
    if h >= 0:
        # a fragment is never part of the target the server acts on
        t = t[:h]
    if t == b"*":
        return {"form": "asterisk", "path": b"*", "query": b""}
    if t[:1] == b"/":
        q = t.find(b"?")
        if q < 0:
            return {"form": "origin", "path": t, "query": b""}
        return {"form": "origin", "path": t[:q], "query": t[q + 1 :]}
    s = t.find(b"://")
    if s > 0 and t[0] in ALPHA and all(c in SCHEME_CHARS for c in t[:s]):
        rest = t[s + 3 :]
        # authority runs to the first "/" or "?"
        cut = len(rest)
        for i, c in enumerate(rest):
            if c in (0x2F, 0x3F):
                cut = i
                break
        authority, tail = rest[:cut], rest[cut:]
        q = tail.find(b"?")
        if q < 0:
            path, query = tail, b""
        else:
            path, query = tail[:q], tail[q + 1 :]
        return {"form": "absolute", "path": path, "query": query, "authority": authority,
                "scheme": t[:s]}
    c = t.rfind(b":")
    if c > 0 and all(x in REGNAME_CHARS for x in t[:c]) and t[c + 1 :] and all(x in DIGIT for x in t[c + 1 :]):
        return {"form": "authority", "path": None, "query": None, "authority": t}
    return {"form": "other", "path": None, "query": None}


def normal_prefix(url_prefix):
    """docs/arguments.rst url_prefix: "...the value passed minus any trailing
    slashes you add" """
    p = url_prefix
    while p.endswith("/"):
        p = p[:-1]
    return p


def prefix_split(path, prefix):
    """docs: SCRIPT_NAME is the prefix; "the PATH_INFO of any request which is
    prefixed with this value [is] stripped of the prefix".  A path is prefixed
    with /p when it is /p itself or continues with a "/" (path-segment-wise,
    PEP 3333: SCRIPT_NAME + PATH_INFO is the path).  Returns
    (SCRIPT_NAME, PATH_INFO, relation)."""
    if not prefix:
        return "", path, "none"
    if path == prefix:
        return prefix, "", "exact"
    if path.startswith(prefix + "/"):
        return prefix, path[len(prefix) :], "under"
    return prefix, path, "outside"


def cgi_name(name):
    """RFC 3875 4.1.18: upper case, "-" replaced by "_" """
    return name.upper().replace(b"-", b"_").decode("latin-1")


UNPREFIXED = ("CONTENT_LENGTH", "CONTENT_TYPE")


def header_image(o):
    """{environ key: value} for the header section of a delivered message.

    PEP 3333: HTTP_ variables "corresponding to the client-supplied HTTP
    request headers"; CONTENT_LENGTH / CONTENT_TYPE without the prefix.
    Property C07: names with an underscore never appear; repeated fields are
    joined with ", " in arrival order; a chunked body is presented as a plain
    one (CONTENT_LENGTH = decoded length, no Transfer-Encoding).
    Also returns {key: [values...]} and the dropped underscore fields."""
    parts = {}
    order = []
    dropped = []
    for name, value in o.fields:
        v = value.strip(OWS).decode("latin-1")
        if b"_" in name:
            dropped.append((cgi_name(name), v, name))
            continue
        k = cgi_name(name)
        key = k if k in UNPREFIXED else "HTTP_" + k
        if key not in parts:
            parts[key] = []
            order.append(key)
        parts[key].append(v)
    img = {k: ", ".join(parts[k]) for k in order}
    if o.framing == "chunked":
        img.pop("HTTP_TRANSFER_ENCODING", None)
        parts.pop("HTTP_TRANSFER_ENCODING", None)
        img["CONTENT_LENGTH"] = str(len(o.body))
        parts["CONTENT_LENGTH"] = [img["CONTENT_LENGTH"]]
    return img, parts, dropped


# keys whose value is the server's own, whatever the client sent
SERVER_KEYS = (
    "REMOTE_ADDR", "REMOTE_HOST", "REMOTE_PORT", "SERVER_NAME", "SERVER_PORT", "SERVER_SOFTWARE",
    "SCRIPT_NAME", "wsgi.url_scheme", "wsgi.version", "wsgi.multithread", "wsgi.multiprocess",
    "wsgi.run_once",
)
REQUEST_LINE_KEYS = ("REQUEST_METHOD", "SERVER_PROTOCOL", "PATH_INFO", "QUERY_STRING", "REQUEST_URI")
# further keys a PEP 3333 server defines; their values are objects
OBJECT_KEYS = ("wsgi.input", "wsgi.errors", "wsgi.file_wrapper", "wsgi.input_terminated",
               "waitress.client_disconnected")


def expected_environ(o, config, peer):
    """o: Outcome(kind="deliver"); config: url_prefix, url_scheme,
    server_name, ident, unix (bool), listen_port (str, TCP only);
    peer: (ip, port) of the TCP client (ignored for unix).

    Returns (exp, unjudged, meta): exp = {key: value} for every judged key,
    unjudged = set of keys left open, meta = form / relation / escape counts."""
    exp = {}
    unjudged = set()
    meta = {}
    prefix = normal_prefix(config.get("url_prefix", ""))

    # --- request line
    exp["REQUEST_METHOD"] = o.method.decode("latin-1")
    exp["SERVER_PROTOCOL"] = "HTTP/" + o.version
    exp["REQUEST_URI"] = o.target.decode("latin-1")
    st = split_target(o.target)
    meta["form"] = st["form"]
    meta["valid_escapes"] = meta["invalid_escapes"] = 0
    meta["relation"] = "n/a"
    if st["form"] in ("origin", "absolute", "asterisk"):
        path, nv, ni = percent_decode(st["path"])
        meta["valid_escapes"], meta["invalid_escapes"] = nv, ni
        if path.startswith("/"):
            # an absolute path has one leading slash; empty leading segments
            # carry no meaning for SCRIPT_NAME / PATH_INFO
            path = "/" + path.lstrip("/")
        script, info, rel = prefix_split(path, prefix)
        meta["relation"] = rel
        exp["PATH_INFO"] = info
        exp["QUERY_STRING"] = st["query"].decode("latin-1")
        if st["form"] == "absolute" and st["path"] == b"":
            # "http://host": RFC 9110 4.2.3 calls the empty path equivalent to
            # "/", PEP 3333 allows an empty PATH_INFO: not defined
            del exp["PATH_INFO"]
            unjudged.add("PATH_INFO")
            meta["relation"] = "n/a"
    else:
        unjudged.update(("PATH_INFO", "QUERY_STRING"))
    exp["SCRIPT_NAME"] = prefix

    # --- the server's own variables
    exp["SERVER_NAME"] = config.get("server_name", "waitress.invalid")
    exp["SERVER_SOFTWARE"] = config.get("ident", "waitress")
    exp["wsgi.url_scheme"] = config.get("url_scheme", "http")
    exp["wsgi.version"] = (1, 0)
    exp["wsgi.multithread"] = True
    exp["wsgi.multiprocess"] = False
    exp["wsgi.run_once"] = False
    if config.get("unix"):
        exp["REMOTE_ADDR"] = "localhost"
        exp["REMOTE_HOST"] = "localhost"
        unjudged.update(("REMOTE_PORT", "SERVER_PORT"))
    else:
        exp["REMOTE_ADDR"] = peer[0]
        exp["REMOTE_HOST"] = peer[0]
        exp["REMOTE_PORT"] = str(peer[1])
        exp["SERVER_PORT"] = str(config.get("listen_port", "8080"))

    # --- header section
    img, parts, dropped = header_image(o)
    exp.update(img)
    meta["parts"] = parts
    meta["dropped"] = dropped
    return exp, unjudged, meta
