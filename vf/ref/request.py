"""Independent, strict reference parser for an HTTP/1.x request byte stream.

Written from RFC 9112 / RFC 9110 and the text of properties C01/C06/C10 --
not from waitress's code.  No `re`; hand-written recognisers over bytes.

parse_stream(data, max_header, max_body) -> list[Outcome]

Outcome.kind:
  "deliver"    the message must reach the application exactly as described
  "refuse"     the message must not reach the application; one error response
               with a status in .statuses; connection closed; terminal
  "incomplete" the stream ends inside this message; nothing is delivered
Grey zones (see DESIGN.md 2.3) are expressed as
  .may_refuse   set of statuses with which a server may *also* refuse a
                "deliver"/"incomplete" outcome (empty = strict)
  .close_after  True / False / None (None = not judged)
  .zones        names of the grey zones this message touched
"""

DIGITS = frozenset(b"0123456789")
HEXDIGITS = frozenset(b"0123456789abcdefABCDEF")
ALPHA = frozenset(b"abcdefghijklmnopqrstuvwxyzABCDEFGHIJKLMNOPQRSTUVWXYZ")
TCHAR = frozenset(b"!#$%&'*+-.^_`|~") | DIGITS | ALPHA
VCHAR = frozenset(range(0x21, 0x7F))
OBS_TEXT = frozenset(range(0x80, 0x100))
FIELD_VCHAR = VCHAR | OBS_TEXT
OWS = frozenset(b" \t")
QDTEXT = frozenset(b"\t !") | frozenset(range(0x23, 0x5C)) | frozenset(range(0x5D, 0x7F)) | OBS_TEXT
QPAIR = frozenset(b"\t ") | VCHAR | OBS_TEXT


def is_token(b):
    if not b:
        return False
    for c in b:
        if c not in TCHAR:
            return False
    return True


def is_digits(b):
    if not b:
        return False
    for c in b:
        if c not in DIGITS:
            return False
    return True


def is_hexdigits(b):
    if not b:
        return False
    for c in b:
        if c not in HEXDIGITS:
            return False
    return True


def strip_ows(b):
    i, j = 0, len(b)
    while i < j and b[i] in OWS:
        i += 1
    while j > i and b[j - 1] in OWS:
        j -= 1
    return b[i:j]


def valid_field_value(v):
    """v already stripped of OWS: empty, or starts/ends with a field-vchar and
    contains only field-vchar / SP / HTAB"""
    if not v:
        return True
    if v[0] not in FIELD_VCHAR or v[-1] not in FIELD_VCHAR:
        return False
    for c in v:
        if c not in FIELD_VCHAR and c not in OWS:
            return False
    return True


def parse_field_line(line):
    """field-line = token ":" OWS field-value OWS ; returns (name, value) or None"""
    colon = line.find(b":")
    if colon <= 0:
        return None
    name = line[:colon]
    if not is_token(name):
        return None
    value = strip_ows(line[colon + 1 :])
    if not valid_field_value(value):
        return None
    return name, value


def parse_version(b):
    # "HTTP/" DIGIT "." DIGIT
    if len(b) == 8 and b[:5] == b"HTTP/" and b[5] in DIGITS and b[6:7] == b"." and b[7] in DIGITS:
        return b[5:8].decode("ascii")
    return None


def parse_request_line(line):
    """token SP target [ SP "HTTP/" DIGIT "." DIGIT ]
    returns (method, target, version-or-"") or None"""
    if b"\r" in line or b"\n" in line:
        return None
    parts = line.split(b" ")
    if len(parts) not in (2, 3):
        return None
    if not is_token(parts[0]) or not parts[1]:
        return None
    if len(parts) == 3:
        v = parse_version(parts[2])
        if v is None:
            return None
        return parts[0], parts[1], v
    return parts[0], parts[1], ""


def parse_quoted_string(b, i):
    """b[i] == '"'; returns index after the closing quote or -1"""
    n = len(b)
    if i >= n or b[i] != 0x22:
        return -1
    i += 1
    while i < n:
        c = b[i]
        if c == 0x22:
            return i + 1
        if c == 0x5C:
            if i + 1 >= n or b[i + 1] not in QPAIR:
                return -1
            i += 2
            continue
        if c not in QDTEXT:
            return -1
        i += 1
    return -1


def valid_chunk_ext(b):
    """*( ";" token [ "=" ( token / quoted-string ) ] ) -- no whitespace"""
    i, n = 0, len(b)
    while i < n:
        if b[i] != 0x3B:
            return False
        i += 1
        j = i
        while j < n and b[j] in TCHAR:
            j += 1
        if j == i:
            return False
        i = j
        if i < n and b[i] == 0x3D:
            i += 1
            if i < n and b[i] == 0x22:
                k = parse_quoted_string(b, i)
                if k < 0:
                    return False
                i = k
            else:
                j = i
                while j < n and b[j] in TCHAR:
                    j += 1
                if j == i:
                    return False
                i = j
    return True


def parse_chunk_line(line):
    """chunk-size [ chunk-ext ]  (the line without its CRLF).
    returns size or None"""
    semi = line.find(b";")
    if semi >= 0:
        size, ext = line[:semi], line[semi:]
        if not valid_chunk_ext(ext):
            return None
    else:
        size = line
    if not is_hexdigits(size):
        return None
    return int(size, 16)


def list_elements(values):
    """elements of a #list spread over several field lines; OWS-trimmed;
    empty elements ignored (RFC 9110 5.6.1.2)"""
    out = []
    for v in values:
        for e in v.split(b","):
            e = strip_ows(e)
            if e:
                out.append(e)
    return out


class Outcome:
    __slots__ = (
        "kind",
        "method",
        "target",
        "version",
        "fields",
        "body",
        "framing",
        "close_after",
        "expect",
        "statuses",
        "may_refuse",
        "zones",
        "reason",
        "start",
        "end",
        "head_end",
        "drop_cl",
        "fold",
        "decided",
    )

    def __init__(self, kind, **kw):
        self.kind = kind
        self.method = self.target = self.version = None
        self.fields = []
        self.body = b""
        self.framing = "none"
        self.close_after = False
        self.expect = False
        self.statuses = frozenset()
        self.may_refuse = set()
        self.zones = set()
        self.reason = ""
        self.start = self.end = self.head_end = 0
        self.drop_cl = False
        self.fold = False
        self.decided = None
        for k, v in kw.items():
            setattr(self, k, v)

    def brief(self):
        if self.kind == "deliver":
            return (
                f"deliver {self.method!r} {self.target!r} v={self.version!r} "
                f"framing={self.framing} body={len(self.body)} close={self.close_after} "
                f"may_refuse={sorted(self.may_refuse)} zones={sorted(self.zones)}"
            )
        if self.kind == "refuse":
            return f"refuse {sorted(self.statuses)} ({self.reason})"
        return f"incomplete may_refuse={sorted(self.may_refuse)} ({self.reason})"


def _refuse(statuses, reason, **kw):
    return Outcome("refuse", statuses=frozenset(statuses), reason=reason, **kw)


S400 = (400,)
S_TE = (400, 501)


def parse_message(data, pos, max_header, max_body):
    """Parse one message starting at data[pos].  Returns an Outcome; for
    "deliver", .end is the offset of the byte after the message."""
    n = len(data)
    start = pos
    may_refuse = set()
    refuse_extra = set()
    zones = set()

    def _refuse(statuses, reason, **kw):
        # a message with several defects may be refused for any of them
        decided = kw.pop("decided", None)
        o = Outcome("refuse", statuses=frozenset(statuses) | frozenset(may_refuse) | frozenset(refuse_extra), reason=reason, **kw)
        o.zones = set(zones)
        # offset (exclusive) by which the refusal is decidable from the bytes
        o.decided = decided if decided is not None else (kw.get("head_end") or None)
        return o

    # leading empty lines: CRLF only (RFC 9112 2.2)
    while data[pos : pos + 2] == b"\r\n":
        pos += 2
    lead = pos - start
    if pos >= n or (n - pos == 1 and data[pos:] == b"\r"):
        # nothing but (possibly part of) empty lines
        out = Outcome("incomplete", reason="no request line yet", start=start)
        if max_header is not None and n - start >= max_header:
            out.may_refuse.add(431)
        return out
    term = data.find(b"\r\n\r\n", pos)
    if term < 0:
        # the head is not complete.  A lone CRLF CRLF could still be completed
        # by later bytes, so nothing can be said except for the size limit.
        sofar = n - pos
        if max_header is not None and sofar >= max_header:
            return _refuse((431,), "head reaches the limit without terminator", start=start, decided=pos + max_header)
        out = Outcome("incomplete", reason="head incomplete", start=start)
        if max_header is not None and sofar + lead >= max_header:
            out.may_refuse.add(431)
            out.zones.add("leading-crlf-counted")
        return out
    head_end = term + 4
    head_len = head_end - pos
    if max_header is not None and head_len >= max_header:
        return _refuse((431,), "head reaches the limit", start=start, head_end=head_end, decided=pos + max_header)
    if max_header is not None and head_len + lead >= max_header:
        may_refuse.add(431)
        zones.add("leading-crlf-counted")

    head = data[pos:term]
    lines = head.split(b"\r\n")
    rl = parse_request_line(lines[0])
    if rl is None:
        return _refuse(S400, "request line", start=start, head_end=head_end)
    method, target, version = rl
    for c in target:
        if c < 0x21 or c > 0x7E:
            zones.add("target-bytes")
            may_refuse.add(400)
            break
    if method != method.upper():
        zones.add("lowercase-method")
        may_refuse.add(400)
    if b"[" in target or b"]" in target:
        # a server may validate the URI (bracketed host syntax)
        zones.add("target-brackets")
        may_refuse.add(400)

    # field lines
    fields = []
    fold = False
    raw = []
    for ln in lines[1:]:
        if b"\r" in ln or b"\n" in ln:
            return _refuse(S400, "bare CR or LF in the header section", start=start, head_end=head_end)
        if ln[:1] in (b" ", b"\t"):
            if not raw:
                return _refuse(S400, "whitespace-preceded first field line", start=start, head_end=head_end)
            raw[-1] = raw[-1] + b" " + ln
            fold = True
            continue
        if ln == b"":
            # cannot happen (first CRLFCRLF ends the head) -- defensive
            return _refuse(S400, "empty line in head", start=start, head_end=head_end)
        raw.append(ln)
    for ln in raw:
        f = parse_field_line(ln)
        if f is None:
            return _refuse(S400, "field line", start=start, head_end=head_end)
        fields.append(f)
    if fold:
        zones.add("obs-fold")
        may_refuse.add(400)

    def values(name):
        name = name.lower()
        return [v for k, v in fields if k.lower() == name]

    # fields whose name contains an underscore never reach the application
    # (C07); they also play no role in framing here: a server that drops them
    # must drop them before looking at framing, otherwise Content_Length could
    # be taken for Content-Length.  They are kept in .fields and removed by
    # the image builder.
    te = values(b"transfer-encoding")
    cl = values(b"content-length")
    ctype = values(b"content-type")
    host = values(b"host")
    if len(ctype) > 1:
        zones.add("repeated-content-type")
        may_refuse.add(400)
    if len(host) > 1:
        # RFC 9112 3.2: MUST respond 400 to more than one Host field line
        return _refuse(S400, "repeated Host", start=start, head_end=head_end)

    def cl_value():
        """exactly one valid Content-Length -> int, absent -> None, else 'bad'"""
        if not cl:
            return None
        if len(cl) != 1 or not is_digits(cl[0]):
            return "bad"
        sig = cl[0].lstrip(b"0")
        if len(sig) > 18:
            # larger than any stream or limit; avoid int()'s digit limit
            return 10**18
        return int(sig or b"0")

    framing = "none"
    length = 0
    close_after = False
    drop_cl = False
    if version == "1.1":
        if te:
            codings = list_elements(te)
            if codings and any(not strip_ows(e) for v in te for e in v.split(b",")):
                # empty list elements: a recipient must ignore them, but a
                # server that refuses such a Transfer-Encoding is safe
                zones.add("te-empty-elements")
                may_refuse.update(S_TE)
            if not codings:
                # Transfer-Encoding present with an empty list
                # (no coding is applied; whether the connection must close
                # is not judged -- see DESIGN.md 2.3)
                zones.add("empty-te")
                may_refuse.update(S_TE)
                close_after = None
                c = cl_value()
                if c == "bad":
                    return _refuse(S400, "Content-Length", start=start, head_end=head_end)
                if c:
                    framing, length = "cl", c
            else:
                ok = len(codings) == 1 and codings[0].lower() == b"chunked"
                if not ok:
                    return _refuse(S_TE, "transfer coding other than one final chunked", start=start, head_end=head_end)
                framing = "chunked"
                if cl:
                    zones.add("cl+te")
                    may_refuse.add(400)
                    close_after = True
                    drop_cl = True
        else:
            c = cl_value()
            if c == "bad":
                return _refuse(S400, "Content-Length", start=start, head_end=head_end)
            if c:
                framing, length = "cl", c
    else:
        if te:
            zones.add("te-not-1.1")
            may_refuse.update(S_TE)
            close_after = True
        c = cl_value()
        if c == "bad":
            return _refuse(S400, "Content-Length", start=start, head_end=head_end)
        if c:
            framing, length = "cl", c

    if framing == "cl" and len(cl[0]) > 20:
        zones.add("long-cl")
        may_refuse.update((400, 413))

    # persistence wished by the request
    conn = [e.lower() for e in list_elements(values(b"connection"))]
    raw_conn = [strip_ows(v).lower() for v in values(b"connection")]
    if version == "1.1":
        if raw_conn == [b"close"]:
            close_after = True
        elif b"close" in conn:
            close_after = None if not close_after else True
            zones.add("connection-list")
    elif version == "1.0":
        if raw_conn == [b"keep-alive"]:
            pass
        elif b"keep-alive" in conn:
            close_after = None if not close_after else True
            zones.add("connection-list")
        else:
            close_after = True
    else:
        # HTTP/0.9-style or a version other than 1.0/1.1: persistence not judged
        if not close_after:
            close_after = None
        zones.add("other-version")

    expect = False
    if version == "1.1":
        ex = [strip_ows(v).lower() for v in values(b"expect")]
        expect = ex == [b"100-continue"]

    out = Outcome(
        "deliver",
        method=method,
        target=target,
        version=version,
        fields=fields,
        framing=framing,
        close_after=close_after,
        expect=expect,
        may_refuse=may_refuse,
        zones=zones,
        start=start,
        head_end=head_end,
        drop_cl=drop_cl,
        fold=fold,
    )

    def incomplete(reason):
        o = Outcome("incomplete", reason=reason, start=start, head_end=head_end)
        o.may_refuse = set(may_refuse)
        o.zones = set(zones)
        o.expect = expect
        o.version = version
        return o

    p = head_end
    if framing == "none":
        out.end = p
        return out
    if framing == "cl":
        if max_body is not None and length >= max_body:
            return _refuse((413,), "declared length reaches the limit", start=start, head_end=head_end, expect=expect, version=version)
        if n - p < length:
            return incomplete("body incomplete")
        out.body = data[p : p + length]
        out.end = p + length
        return out

    # chunked
    body = bytearray()
    body_start = p
    if max_body is not None and n - body_start >= max_body:
        # the server counts wire bytes read, so a body that is both malformed
        # and long enough to cross the limit may be answered with either status
        refuse_extra.add(413)
    while True:
        if max_body is not None and len(body) >= max_body:
            return _refuse((413,), "decoded body reaches the limit", start=start, head_end=head_end, expect=expect, version=version, decided=p)
        if max_body is not None and p - body_start >= max_body:
            may_refuse.add(413)
            zones.add("encoded-size")
            out.may_refuse = may_refuse
        eol = data.find(b"\r\n", p)
        if eol < 0:
            o = incomplete("chunk control line incomplete")
            if max_body is not None and n - body_start >= max_body:
                o.may_refuse.add(413)
            return o
        size = parse_chunk_line(data[p:eol])
        if size is None:
            return _refuse(S400, "chunk size / extension", start=start, head_end=head_end, expect=expect, version=version, decided=eol + 2)
        p = eol + 2
        if size == 0:
            break
        avail = data[p : p + size]
        body += avail
        if max_body is not None and len(body) >= max_body:
            return _refuse((413,), "decoded body reaches the limit", start=start, head_end=head_end, expect=expect, version=version,
                           decided=p + max(0, max_body - (len(body) - len(avail))))
        if len(avail) < size:
            o = incomplete("chunk data incomplete")
            if max_body is not None and n - body_start >= max_body:
                o.may_refuse.add(413)
            return o
        p += size
        t = data[p : p + 2]
        if len(t) < 2:
            o = incomplete("chunk terminator incomplete")
            if max_body is not None and n - body_start >= max_body:
                o.may_refuse.add(413)
            return o
        if t != b"\r\n":
            return _refuse(S400, "chunk terminator", start=start, head_end=head_end, expect=expect, version=version, decided=p + 2)
        p += 2
    # trailer section: *( field-line CRLF ) CRLF
    tstart = p
    tlines = []
    while True:
        eol = data.find(b"\r\n", p)
        if eol < 0:
            o = incomplete("trailer incomplete")
            if max_body is not None and n - body_start >= max_body:
                o.may_refuse.add(413)
            return o
        ln = data[p:eol]
        p = eol + 2
        if ln == b"":
            break
        tlines.append(ln)
    tfold = False
    for i, ln in enumerate(tlines):
        if b"\r" in ln or b"\n" in ln:
            return _refuse(S400, "bare CR or LF in the trailer", start=start, head_end=head_end, expect=expect, version=version, decided=p)
        if ln[:1] in (b" ", b"\t"):
            if i == 0:
                return _refuse(S400, "trailer line", start=start, head_end=head_end, expect=expect, version=version, decided=p)
            tfold = True
            continue
        if parse_field_line(ln) is None:
            return _refuse(S400, "trailer line", start=start, head_end=head_end, expect=expect, version=version, decided=p)
    if tfold:
        out.zones.add("obs-fold-trailer")
        out.may_refuse.add(400)
    if max_body is not None and p - body_start >= max_body:
        out.may_refuse.add(413)
        out.zones.add("encoded-size")
    out.body = bytes(body)
    out.end = p
    return out


def parse_stream(data, max_header=None, max_body=None, limit=64):
    """All expected outcomes, up to and including the first terminal one."""
    outs = []
    pos = 0
    n = len(data)
    while len(outs) < limit:
        if pos >= n:
            break
        o = parse_message(data, pos, max_header, max_body)
        outs.append(o)
        if o.kind != "deliver":
            break
        if o.close_after is True:
            break
        pos = o.end
    return outs


def field_image(o):
    """The {CGI-name: value} image the application must see for a delivered
    message (HTTP_ prefix not applied): underscore names dropped, repeated
    fields joined with ', ', Transfer-Encoding removed and CONTENT_LENGTH set
    to the decoded length for a chunked HTTP/1.1 message."""
    img = {}
    for name, value in o.fields:
        if b"_" in name:
            continue
        key = name.upper().replace(b"-", b"_").decode("latin-1")
        v = value.decode("latin-1")
        if key in img:
            img[key] = img[key] + ", " + v
        else:
            img[key] = v
    if o.framing == "chunked":
        img.pop("TRANSFER_ENCODING", None)
        img["CONTENT_LENGTH"] = str(len(o.body))
    return img
