"""python -m vf.triage C01 [key-substring]  -- show replays of a check"""
import glob, json, sys
from vf import core
core.use_waitress()
def main():
    pid = sys.argv[1]; sub = sys.argv[2] if len(sys.argv) > 2 else ""
    mod = core.load_check(pid)
    n = 0
    for f in sorted(glob.glob(f"{core.REPLAYS}/{pid}-*.json")):
        w = json.load(open(f))["witness"]
        if sub and sub not in w["key"]: continue
        print("=" * 80); print(f); print("KEY", w["key"]); print("WHAT", w["what"][:500])
        c = w["case"]
        for k, v in c.items():
            print("  ", k, "=", repr(v)[:700])
        if hasattr(mod, "explain"):
            mod.explain(c)
        n += 1
        if n >= int(sys.argv[3] if len(sys.argv) > 3 else 3): break
main()
