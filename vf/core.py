"""Shared driver: sharding, verdicts, evidence, known findings, replay files.

A check module (vf/checks/cNN.py) provides

    ID, LEVEL, RULE (str), ASSUMPTIONS (list[str])
    plan(tier, seed)            -> list of JSON-able shard specs
    run_shard(spec)             -> dict (see ShardOut below)
    required_counters(tier)     -> list of counter names that must be > 0
                                   (non-vacuity; zero => INCONCLUSIVE)
    replay(case)                -> list of violation witnesses (may be empty)
    finish(agg, tier)           -> optional hook to add keys to coverage

A shard returns

    {"evaluations": int,
     "distinct": [str, ...]           keys counted by the check's RULE
     "counters": {name: int},
     "maxima": {name: number},
     "violations": [witness, ...]     witness = {"key": mechanism-key,
                                                 "what": str, "case": {...}}
     "violations_total": int,
     "samples": [...],
     "inconclusive": [str, ...]}
"""

import hashlib
import importlib
import json
import os
import subprocess
import sys
import time
import concurrent.futures as cf

ROOT = os.path.dirname(os.path.dirname(os.path.abspath(__file__)))
REPO = os.environ.get("VF_REPO", "/repo")
WAITRESS_SRC = os.environ.get("VF_WAITRESS_SRC", os.path.join(REPO, "src"))
WORK = os.environ.get("VF_WORK_DIR") or os.path.join(ROOT, ".work")
REPLAYS = os.environ.get("VF_REPLAY_DIR") or os.path.join(ROOT, "replays")
EVIDENCE = os.environ.get("VF_EVIDENCE_DIR") or os.path.join(ROOT, "evidence")
KNOWN = os.path.join(ROOT, "known_findings.json")
PY = sys.executable
NPROC = int(os.environ.get("VF_JOBS", "0")) or min(16, os.cpu_count() or 4)

_waitress_ready = False


def use_waitress():
    """Make `import waitress` resolve to the tree under test and assert it."""
    global _waitress_ready
    if _waitress_ready:
        return
    src = os.path.realpath(WAITRESS_SRC)
    if sys.path[0] != src:
        sys.path.insert(0, src)
    import logging

    import waitress

    got = os.path.realpath(os.path.dirname(waitress.__file__))
    if not got.startswith(src):
        raise SystemExit(f"waitress imported from {got}, expected under {src}")
    # the checks observe the wire, not the log; keep stderr quiet
    lg = logging.getLogger("waitress")
    lg.handlers[:] = [logging.NullHandler()]
    lg.propagate = False
    lg.setLevel(logging.CRITICAL + 10)
    ql = logging.getLogger("waitress.queue")
    ql.handlers[:] = [logging.NullHandler()]
    ql.propagate = False
    _waitress_ready = True


def load_check(pid):
    return importlib.import_module("vf.checks." + pid.lower())


def jhash(obj):
    return hashlib.sha1(
        json.dumps(obj, sort_keys=True, default=repr).encode()
    ).hexdigest()[:12]


def b2s(b):
    """bytes -> JSON-safe str (latin-1)"""
    return b.decode("latin-1")


def s2b(s):
    return s.encode("latin-1")


# ---------------------------------------------------------------- known list


def load_known(pid):
    try:
        with open(KNOWN) as f:
            data = json.load(f)
    except FileNotFoundError:
        return []
    return [e for e in data.get("findings", []) if e.get("property") == pid]


# ------------------------------------------------------------------- shards


def _run_one(pid, idx, spec, timeout):
    os.makedirs(WORK, exist_ok=True)
    base = os.path.join(WORK, f"{pid}-{idx}")
    with open(base + ".spec.json", "w") as f:
        json.dump(spec, f)
    env = dict(os.environ, PYTHONHASHSEED="0", PYTHONDONTWRITEBYTECODE="1")
    t0 = time.time()
    try:
        p = subprocess.run(
            [PY] + list(spec.get("pyflags") or []) + ["-m", "vf", "shard", pid, base + ".spec.json", base + ".out.json"],
            cwd=ROOT,
            env=env,
            timeout=timeout,
            stdout=subprocess.PIPE,
            stderr=subprocess.PIPE,
        )
    except subprocess.TimeoutExpired:
        return {"inconclusive": [f"shard {idx} hit the {timeout}s wall-clock watchdog"]}
    if p.returncode != 0 or not os.path.exists(base + ".out.json"):
        tail = (p.stderr or b"").decode("utf-8", "replace")[-1500:]
        return {
            "inconclusive": [f"shard {idx} crashed (rc={p.returncode}): {tail}"],
            "crashed": True,
        }
    with open(base + ".out.json") as f:
        out = json.load(f)
    out["_wall"] = time.time() - t0
    for suffix in (".spec.json", ".out.json"):
        try:
            os.remove(base + suffix)
        except OSError:
            pass
    return out


def shard_main(pid, specfile, outfile):
    use_waitress()
    mod = load_check(pid)
    with open(specfile) as f:
        spec = json.load(f)
    out = mod.run_shard(spec)
    with open(outfile + ".tmp", "w") as f:
        json.dump(out, f, default=repr)
    os.replace(outfile + ".tmp", outfile)


class Acc:
    """Per-shard accumulator used by the checks."""

    MAXV = 40

    def __init__(self):
        self.evaluations = 0
        self.distinct = set()
        self.counters = {}
        self.maxima = {}
        self.violations = []
        self.violations_total = 0
        self.vkeys = {}
        self.samples = []
        self.inconclusive = []

    def count(self, name, n=1):
        self.counters[name] = self.counters.get(name, 0) + n

    def maxi(self, name, v):
        if v > self.maxima.get(name, float("-inf")):
            self.maxima[name] = v

    def violation(self, key, what, case):
        self.violations_total += 1
        n = self.vkeys.get(key, 0)
        self.vkeys[key] = n + 1
        # keep a few witnesses per mechanism key so that one noisy mechanism
        # cannot hide another
        if n < 3 and len(self.violations) < self.MAXV:
            self.violations.append({"key": key, "what": what, "case": case})

    def sample(self, s, limit=3):
        if len(self.samples) < limit:
            self.samples.append(s)

    def out(self):
        return {
            "evaluations": self.evaluations,
            "distinct": sorted(self.distinct),
            "counters": self.counters,
            "maxima": self.maxima,
            "violations": self.violations,
            "violations_total": self.violations_total,
            "vkeys": self.vkeys,
            "samples": self.samples,
            "inconclusive": self.inconclusive,
        }


def aggregate(outs):
    agg = {
        "evaluations": 0,
        "distinct": set(),
        "counters": {},
        "maxima": {},
        "violations": [],
        "violations_total": 0,
        "vkeys": {},
        "samples": [],
        "inconclusive": [],
    }
    for o in outs:
        agg["evaluations"] += o.get("evaluations", 0)
        agg["distinct"].update(o.get("distinct", ()))
        for k, v in o.get("counters", {}).items():
            agg["counters"][k] = agg["counters"].get(k, 0) + v
        for k, v in o.get("maxima", {}).items():
            if v > agg["maxima"].get(k, float("-inf")):
                agg["maxima"][k] = v
        for k, v in o.get("vkeys", {}).items():
            agg["vkeys"][k] = agg["vkeys"].get(k, 0) + v
        agg["violations"].extend(o.get("violations", ()))
        agg["violations_total"] += o.get("violations_total", 0)
        if len(agg["samples"]) < 6:
            agg["samples"].extend(o.get("samples", ())[: 6 - len(agg["samples"])])
        agg["inconclusive"].extend(o.get("inconclusive", ()))
    return agg


# ------------------------------------------------------------------ evidence


def write_evidence(pid, tier, seed, level, coverage, assumptions, wall, nviol):
    ev = {
        "property_id": pid,
        "tier": tier,
        "seed": seed,
        "level": level,
        "coverage": coverage,
        "assumptions": assumptions,
        "wall_s": round(wall, 2),
        "violations": nviol,
    }
    # minimal self-validation of what EVIDENCE.schema.json requires
    cov = coverage
    assert isinstance(cov.get("evaluations"), int) and cov["evaluations"] >= 0
    assert isinstance(cov.get("distinct_nontrivial"), int)
    assert isinstance(cov.get("rule"), str)
    assert isinstance(cov.get("samples"), list)
    os.makedirs(EVIDENCE, exist_ok=True)
    path = os.path.join(EVIDENCE, pid + ".json")
    with open(path + ".tmp", "w") as f:
        json.dump(ev, f, indent=1, sort_keys=True, default=repr)
    os.replace(path + ".tmp", path)
    return path


def write_replay(pid, witness, tier, seed):
    os.makedirs(REPLAYS, exist_ok=True)
    h = jhash(witness)
    path = os.path.join(REPLAYS, f"{pid}-{h}.json")
    with open(path, "w") as f:
        json.dump(
            {"property": pid, "tier": tier, "seed": seed, "witness": witness},
            f,
            indent=1,
            default=repr,
        )
    return path


# --------------------------------------------------------------------- main


def check_main(pid, tier, seed, replay=None):
    mod = load_check(pid)
    if replay:
        return replay_main(mod, pid, replay)
    t0 = time.time()
    specs = mod.plan(tier, seed)
    timeout = getattr(mod, "SHARD_TIMEOUT", {}).get(tier, 900 if tier == "quick" else 3600)
    outs = []
    with cf.ThreadPoolExecutor(NPROC) as ex:
        futs = [ex.submit(_run_one, pid, i, s, timeout) for i, s in enumerate(specs)]
        for f in futs:
            outs.append(f.result())
    agg = aggregate(outs)
    wall = time.time() - t0

    known = load_known(pid)
    open_keys = {e["key"]: e for e in known if e.get("status") == "open"}
    seen_known = {}
    fresh = []
    for w in agg["violations"]:
        e = open_keys.get(w["key"])
        if e is not None:
            seen_known.setdefault(w["key"], w)
        else:
            fresh.append(w)
    fresh_total = sum(n for k, n in agg["vkeys"].items() if k not in open_keys)

    need = mod.required_counters(tier) if hasattr(mod, "required_counters") else []
    missing = [c for c in need if agg["counters"].get(c, 0) <= 0]
    # runs that ended without a verdict (step limit / watchdog of a single
    # scenario): tolerated while they are a negligible share of the runs
    soft = [r for r in agg["inconclusive"] if r.startswith("harness:")]
    inconc = [r for r in agg["inconclusive"] if not r.startswith("harness:")]
    if len(soft) > max(3, agg["evaluations"] // 100):
        inconc.append(f"{len(soft)} of {agg['evaluations']} runs ended without a verdict, e.g. {soft[0][:300]}")
    if missing:
        inconc.append("non-vacuity counters at zero: " + ",".join(missing))
    if agg["evaluations"] == 0:
        inconc.append("no evaluations")

    coverage = {
        "evaluations": agg["evaluations"],
        "distinct_nontrivial": len(agg["distinct"]),
        "rule": mod.RULE,
        "samples": agg["samples"] or ["(none)"],
        "counters": dict(sorted(agg["counters"].items())),
        "maxima": agg["maxima"],
        "shards": len(specs),
        "slowest_shards_s": sorted((round(o.get("_wall", 0), 1) for o in outs), reverse=True)[:5],
        "required_counters": need,
        "known_findings_seen": {k: agg["vkeys"].get(k, 0) for k in seen_known},
        "violation_keys": {k: n for k, n in agg["vkeys"].items() if k not in open_keys},
        "inconclusive": inconc,
        "runs_without_verdict": len(soft),
        "runs_without_verdict_examples": soft[:3],
        "verdict": "violated" if fresh_total else ("inconclusive" if inconc else "held"),
    }
    if hasattr(mod, "finish"):
        mod.finish(agg, tier, coverage)
        inconc = coverage["inconclusive"]
        coverage["verdict"] = "violated" if fresh_total else ("inconclusive" if inconc else "held")
    write_evidence(
        pid, tier, seed, mod.LEVEL, coverage, list(mod.ASSUMPTIONS), wall, fresh_total
    )

    for k, e in open_keys.items():
        n = agg["vkeys"].get(k, 0)
        print(
            f"KNOWN-FINDING: property={pid} {e['what']} "
            f"[key={k}; reproduced {n}x in this run]"
        )
    rc = 0
    if fresh_total:
        done = set()
        for w in fresh:
            if w["key"] in done:
                continue
            done.add(w["key"])
            path = write_replay(pid, w, tier, seed)
            print(f"VIOLATION property={pid} replay={path}")
            print(f"  key={w['key']} what={w['what']}"[:600])
        rc = 1
    elif inconc:
        for r in inconc[:10]:
            print(f"INCONCLUSIVE property={pid} reason={r}"[:2000])
        rc = 2
    print(
        f"{pid} {tier} seed={seed}: verdict={coverage['verdict']} "
        f"evaluations={agg['evaluations']} distinct={len(agg['distinct'])} "
        f"violations={fresh_total} known={sum(coverage['known_findings_seen'].values())} "
        f"wall={wall:.1f}s"
    )
    return rc


def replay_main(mod, pid, path):
    use_waitress()
    with open(path) as f:
        data = json.load(f)
    w = data.get("witness", data)
    vs = mod.replay(w["case"])
    known = {e["key"] for e in load_known(pid) if e.get("status") == "open"}
    rc = 0
    for v in vs:
        if v["key"] in known:
            print(f"KNOWN-FINDING: property={pid} key={v['key']} {v['what']}"[:600])
        else:
            print(f"VIOLATION property={pid} replay={path}")
            print(f"  key={v['key']} what={v['what']}"[:1200])
            rc = 1
    if not vs:
        print(f"{pid} replay: no violation reproduced")
    return rc


def split(seq, n):
    """split a list into n nearly equal contiguous parts (drops empties)"""
    seq = list(seq)
    k, m = divmod(len(seq), n)
    out = []
    i = 0
    for j in range(n):
        size = k + (1 if j < m else 0)
        if size:
            out.append(seq[i : i + size])
        i += size
    return out
