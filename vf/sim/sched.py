"""Deterministic baton-passing scheduler over real OS threads (DESIGN.md 2.2).

Exactly one managed thread runs at a time.  A managed thread gives up the
baton only inside this module: at a yield point (yield_point), when it blocks
(block), or when it ends.  All scheduling decisions come from a Strategy, so a
run is a function of (scenario, strategy parameters).
"""

import random
import threading as _real_threading
import time as _real_time
import zlib

RUNNABLE, BLOCKED, DONE, NEW = "runnable", "blocked", "done", "new"


class SimShutdown(SystemExit):
    """Raised inside managed threads at teardown.  Derives from SystemExit so
    that wasyncore's bare `except:` handlers re-raise it."""


class SimDeadlock(Exception):
    pass


class MThread:
    __slots__ = ("tid", "name", "role", "state", "go", "target", "args", "blocked_on",
                 "deadline", "timed_out", "os_thread", "exc", "run_len", "wake_reason",
                 "priority", "daemon", "steps")

    def __init__(self, tid, name, role, target, args):
        self.tid = tid
        self.name = name
        self.role = role
        self.state = NEW
        self.go = _real_threading.Semaphore(0)
        self.target = target
        self.args = args
        self.blocked_on = None
        self.deadline = None
        self.timed_out = False
        self.os_thread = None
        self.exc = None
        self.run_len = 0
        self.wake_reason = None
        self.priority = 0
        self.daemon = True
        self.steps = 0

    def __repr__(self):
        return f"<T{self.tid} {self.name} {self.state} on={self.blocked_on!r}>"


class Strategy:
    """Base: non-pre-emptive (switch only when the running thread blocks)."""

    name = "nonpreemptive"

    def __init__(self, rng=None):
        self.rng = rng or random.Random(0)

    def at_yield(self, sched, cur, others):
        """return the thread to run next (cur to continue)"""
        return cur

    def pick(self, sched, runnable):
        """current thread cannot continue: choose among runnable (FIFO)"""
        return runnable[0]


class RandomWalk(Strategy):
    name = "random"

    def __init__(self, rng, p):
        super().__init__(rng)
        self.p = p

    def at_yield(self, sched, cur, others):
        if others and self.rng.random() < self.p:
            return self.rng.choice(others)
        return cur

    def pick(self, sched, runnable):
        return self.rng.choice(runnable)


class PCT(Strategy):
    """Probabilistic concurrency testing: random priorities, d-1 change points."""

    name = "pct"

    def __init__(self, rng, depth, expected_steps):
        super().__init__(rng)
        self.depth = depth
        self.change = sorted(rng.randrange(1, max(2, expected_steps)) for _ in range(max(0, depth - 1)))
        self.prio = {}
        self.low = 0

    def _p(self, t):
        if t.tid not in self.prio:
            self.prio[t.tid] = self.depth + self.rng.random() * 1000
        return self.prio[t.tid]

    def at_yield(self, sched, cur, others):
        while self.change and sched.steps >= self.change[0]:
            self.change.pop(0)
            self.low -= 1
            self.prio[cur.tid] = self.low  # drop the running thread below everyone
        best = cur
        bp = self._p(cur)
        for t in others:
            if self._p(t) > bp:
                best, bp = t, self._p(t)
        return best

    def pick(self, sched, runnable):
        return max(runnable, key=self._p)


class Forced(Strategy):
    """Non-pre-emptive base plus forced switches {step: tid}."""

    name = "forced"

    def __init__(self, switches, prefer=()):
        super().__init__(None)
        self.switches = dict(switches)
        # once a forced switch has been taken: whom to run first when the running thread blocks
        self.prefer = list(prefer)

    def pick(self, sched, runnable):
        if sched.forced_taken and self.prefer:
            for tid in self.prefer:
                for t in runnable:
                    if t.tid == tid:
                        return t
        return runnable[0]

    def at_yield(self, sched, cur, others):
        tid = self.switches.get(sched.steps)
        if tid is not None:
            for t in others:
                if t.tid == tid:
                    sched.forced_taken += 1
                    return t
        return cur


class Scheduler:
    FAIR_K = 600
    FAIR_QUANTUM = 400

    def __init__(self, strategy=None, step_limit=400000, record_pilot=False):
        self.threads = []
        self.current = None
        self.strategy = strategy or Strategy()
        self.steps = 0
        self.switches = 0
        self.preemptions = 0
        self.forced_taken = 0
        self.now = 1000000.0  # virtual clock (seconds)
        self.shutting_down = False
        self.done = _real_threading.Event()
        self.end_reason = None
        self.step_limit = step_limit
        self.trace_hash = 0
        self.runq = []  # FIFO of runnable threads (excluding current)
        self.tl = _real_threading.local()
        self.director = None
        self.infinite_poll = False
        self.pilot = [] if record_pilot else None  # (step, [other runnable tids]) per yield point
        self.on_quiescence = None
        self.counters = {}
        self.fairness_switches = 0
        self.failed = None
        self.site = None
        self.protected = None  # (thread, remaining yields) after a fairness switch

    # ------------------------------------------------------------- threads
    def count(self, name, n=1):
        self.counters[name] = self.counters.get(name, 0) + n

    def me(self):
        return getattr(self.tl, "t", None)

    def spawn(self, target, args=(), name=None, role="actor"):
        t = MThread(len(self.threads), name or f"t{len(self.threads)}", role, target, args)
        self.threads.append(t)
        t.state = RUNNABLE
        self.runq.append(t)
        th = _real_threading.Thread(target=self._bootstrap, args=(t,), name="sim-" + t.name, daemon=True)
        t.os_thread = th
        th.start()
        return t

    def _bootstrap(self, t):
        self.tl.t = t
        t.go.acquire()  # wait for the baton
        try:
            if self.shutting_down:
                return
            try:
                t.target(*t.args)
            except SimShutdown:
                pass
            except BaseException as e:  # noqa
                t.exc = e
                self.count("thread-died:" + t.role)
        finally:
            self.tl.t = None
            t.state = DONE
            if not self.shutting_down:
                self._thread_ended(t)

    def _thread_ended(self, t):
        # wake joiners
        for o in self.threads:
            if o.state == BLOCKED and o.blocked_on == ("join", t.tid):
                self._make_runnable(o, "joined")
        if t is self.director:
            self._finish("director-finished")
            return
        self._dispatch(None)

    # ----------------------------------------------------------- switching
    def _hash(self, *items):
        self.trace_hash = zlib.crc32(repr(items).encode(), self.trace_hash)

    def _make_runnable(self, t, reason):
        if t.state == BLOCKED:
            t.state = RUNNABLE
            t.blocked_on = None
            t.deadline = None
            t.wake_reason = reason
            self.runq.append(t)

    def _switch_to(self, cur, nxt):
        """hand the baton from cur (may be None / ended) to nxt"""
        self.current = nxt
        self.switches += 1
        nxt.run_len = 0
        self._hash("sw", self.steps, cur.tid if cur else -1, nxt.tid, self.site)
        nxt.go.release()

    def _finish(self, reason):
        if self.end_reason is None:
            self.end_reason = reason
        self.current = None
        self.done.set()

    def _dispatch(self, cur):
        """cur cannot continue (blocked or ended): run somebody else, advance
        time, or declare quiescence."""
        while True:
            if self.shutting_down:
                return
            if self.runq:
                nxt = self.strategy.pick(self, list(self.runq))
                self.runq.remove(nxt)
                self._switch_to(cur, nxt)
                return
            # nobody runnable: timers?
            timed = [t for t in self.threads if t.state == BLOCKED and t.deadline is not None]
            if timed:
                dl = min(t.deadline for t in timed)
                if dl > self.now:
                    # nothing can happen until a timer fires: an observation point for monitors
                    # (everything that was woken has run)
                    if getattr(self, "on_clock_advance", None) is not None:
                        self.on_clock_advance(self)
                    self.now = dl
                for t in timed:
                    if t.deadline <= self.now:
                        t.timed_out = True
                        self._make_runnable(t, "timeout")
                self.count("clock-advances")
                continue
            if self.on_quiescence is not None and self.on_quiescence(self):
                # the hook injected something (made a thread runnable)
                continue
            self._finish("quiescent")
            return

    def _park(self, t):
        t.go.acquire()
        if self.shutting_down:
            raise SimShutdown()

    # --------------------------------------------------------- public API
    def yield_point(self, site=None):
        t = self.me()
        if t is None or t is not self.current:
            return
        if self.shutting_down:
            raise SimShutdown()
        self.steps += 1
        t.steps += 1
        t.run_len += 1
        if self.steps > self.step_limit:
            self.failed = "step-limit"
            self._finish("step-limit")
            self._park(t)
            return
        others = self.runq
        if not others:
            if self.pilot is not None:
                pass
            return
        self.site = site
        if self.pilot is not None:
            self.pilot.append((self.steps, [o.tid for o in others], site, t.tid))
        if self.protected is not None:
            # a thread that got the baton through the fairness rule keeps it
            # for a quantum (or until it blocks): otherwise a priority-based
            # strategy hands the baton straight back to the spinning thread
            pt, left = self.protected
            if pt is t and left > 0:
                self.protected = (pt, left - 1)
                return
            self.protected = None
        nxt = self.strategy.at_yield(self, t, others)
        if nxt is t and t.run_len > self.FAIR_K:
            # fairness: a thread that spins without blocking loses the baton
            nxt = others[0]
            self.fairness_switches += 1
            self.protected = (nxt, self.FAIR_QUANTUM)
        if nxt is not t:
            self.preemptions += 1
            self.runq.remove(nxt)
            t.state = RUNNABLE
            self.runq.append(t)
            self._switch_to(t, nxt)
            self._park(t)

    def block(self, on, timeout=None):
        """Block the current thread until unblock(); returns True on timeout."""
        t = self.me()
        if t is None:
            raise RuntimeError("block() from an unmanaged thread: %r" % (on,))
        if self.shutting_down:
            raise SimShutdown()
        t.state = BLOCKED
        t.blocked_on = on
        t.timed_out = False
        t.deadline = None if timeout is None else self.now + max(0.0, timeout)
        self._hash("blk", self.steps, t.tid, on[0] if isinstance(on, tuple) else str(on))
        self._dispatch(t)
        self._park(t)
        return t.timed_out

    def unblock(self, t, reason="wake"):
        self._make_runnable(t, reason)

    def unblock_where(self, pred, reason="wake"):
        for t in self.threads:
            if t.state == BLOCKED and pred(t.blocked_on):
                self._make_runnable(t, reason)

    def stop(self, reason):
        """called by the running managed thread: end the run here"""
        t = self.me()
        self._finish(reason)
        if t is not None:
            self._park(t)

    def idle(self):
        """True if no other thread could run or wake up by itself"""
        if self.runq:
            return False
        for t in self.threads:
            if t.state == BLOCKED and t.deadline is not None:
                return False
        return True

    def fire_next_timer(self):
        """A running thread spins without any event in the world: model the passage of time by
        advancing the virtual clock to the earliest deadline (the woken thread gets the baton
        through the fairness rule).  Returns False if there is no timer."""
        timed = [t for t in self.threads if t.state == BLOCKED and t.deadline is not None]
        if not timed:
            return False
        dl = min(t.deadline for t in timed)
        if dl > self.now:
            self.now = dl
        for t in timed:
            if t.deadline <= self.now:
                t.timed_out = True
                self._make_runnable(t, "timeout")
        self.count("clock-advances-while-spinning")
        return True

    def sleep(self, dt):
        self.block(("sleep",), dt)

    def join(self, t, timeout=None):
        if t.state == DONE:
            return
        self.block(("join", t.tid), timeout)

    # ----------------------------------------------------- run / teardown
    def run(self, wall_timeout=60.0):
        """Called by the (unmanaged) controller thread."""
        if not self.runq:
            self._finish("nothing-to-run")
            return self.end_reason
        nxt = self.strategy.pick(self, list(self.runq))
        self.runq.remove(nxt)
        self._switch_to(None, nxt)
        if not self.done.wait(wall_timeout):
            self.failed = "wall-clock-watchdog"
            self.end_reason = "wall-clock-watchdog"
        return self.end_reason

    def resume(self, wall_timeout=60.0):
        """Continue after a quiescent stop (the controller changed the world)."""
        self.done.clear()
        self.end_reason = None
        self._dispatch(None)
        if not self.done.wait(wall_timeout):
            self.failed = "wall-clock-watchdog"
            self.end_reason = "wall-clock-watchdog"
        return self.end_reason

    def teardown(self):
        self.shutting_down = True
        leaked = 0
        for t in self.threads:
            if t.state != DONE:
                # let it run into SimShutdown
                for _ in range(50):
                    t.go.release()
                    t.os_thread.join(0.2)
                    if not t.os_thread.is_alive():
                        break
                if t.os_thread.is_alive():
                    leaked += 1
        return leaked

    def snapshot(self):
        return [(t.tid, t.name, t.role, t.state, t.blocked_on) for t in self.threads]
