"""Parametrised scenarios for the Sim: pipelines of self-describing requests
answered by an application whose behaviour is encoded in the request target.

A scenario is plain data (replayable):

  {"adj": {...adjustments...}, "sndbuf": int, "listeners": 1,
   "conns": [{"requests": [req, ...], "pieces": [offsets] | None, "pingpong": bool, "half_close": bool,
              "send_caps": [...], "delay": float, "reader": {"mode": "always"} |
              {"mode": "stall", "after": nbytes, "resume": "never"|float} |
              {"mode": "disconnect", "after": nbytes, "how": "close"|"reset"|"shutdown_wr"}}]}
  req = {"m": "GET", "v": "1.1", "n": payload bytes, "k": kind, "body": request body bytes,
         "chunked_req": bool, "expect": bool, "close": bool, "keepalive": bool, "w": chunk size,
         "lead": stray empty line(s) sent in front of the request line (RFC 9112 2.2),
         "gate": True (runs on when its own client opens the gate) | "peer" (runs on once a request
         of another connection has been executed)}
  kinds: "cl" (Content-Length, one chunk), "chunks" (Content-Length, chunks of w bytes),
         "write" (write() callable, Content-Length), "gen" (generator, Content-Length),
         "fw" (wsgi.file_wrapper), "fwoff" (wsgi.file_wrapper over a file of the operating system that is
         read from an offset; no Content-Length of the application's), "nocl" (generator without Content-Length),
         "raise0" (exception before output), "raise1" (exception after first chunk),
         "short" (declares n bytes, produces n-3), "short0" (declares n bytes, produces none),
         "exit0" (raises SystemExit before any output)
"""

import io

from vf import apps
from vf.ref import response as rs


def target_of(cid, idx, req):
    t = "/r?c=%d&i=%d&n=%d&k=%s&w=%d" % (cid, idx, req.get("n", 10), req.get("k", "cl"), req.get("w", 0))
    if req.get("gate") == "peer":
        t += "&g=2"
    elif req.get("gate"):
        t += "&g=1"
    return t


def request_bytes(cid, idx, req):
    if "raw" in req:
        return req["raw"].encode("latin-1"), b""
    m = req.get("m", "GET")
    v = req.get("v", "1.1")
    lines = ["%s %s HTTP/%s" % (m, target_of(cid, idx, req), v), "Host: h"]
    body = b""
    blen = req.get("body", 0)
    if blen:
        raw = bytes((97 + (i + idx) % 26) for i in range(blen))
        if req.get("chunked_req"):
            lines.append("Transfer-Encoding: chunked")
            half = max(1, blen // 2)
            body = b"%x\r\n" % half + raw[:half] + b"\r\n"
            if blen - half:
                body += b"%x\r\n" % (blen - half) + raw[half:] + b"\r\n"
            body += b"0\r\n\r\n"
        else:
            lines.append("Content-Length: %d" % blen)
            body = raw
    if req.get("expect"):
        lines.append("Expect: 100-continue")
    if req.get("close"):
        lines.append("Connection: close")
    elif req.get("keepalive"):
        lines.append("Connection: keep-alive")
    head = (req.get("lead", "") + "\r\n".join(lines) + "\r\n\r\n").encode()
    return head, body


def closes_connection(req):
    """does the exchange end the connection (known from the request / kind)?"""
    v = req.get("v", "1.1")
    k = req.get("k", "cl")
    if req.get("close"):
        return True
    if v == "1.0" and not req.get("keepalive"):
        return True
    if k in ("nocl", "raise0", "raise1", "short", "short0", "exit0"):
        return True
    if "raw" in req:
        return bool(req.get("refused", True))
    return False


class AppLog:
    def __init__(self):
        self.events = []  # (step, cid, idx, what)
        self.active = {}

    def add(self, world, cid, idx, what):
        self.events.append((world.sched.steps, cid, idx, what))


def make_app(world, log, hooks=None):
    """The scenario application: behaviour from QUERY_STRING."""
    hooks = hooks or {}

    def app(environ, start_response):
        q = dict(p.split("=") for p in environ["QUERY_STRING"].split("&") if "=" in p)
        cid, idx, n = int(q.get("c", 0)), int(q.get("i", 0)), int(q.get("n", 0))
        k = q.get("k", "cl")
        w = int(q.get("w", 0)) or max(1, n)
        log.add(world, cid, idx, "enter")
        try:
            body_in = environ["wsgi.input"].read()
            log.add(world, cid, idx, ("body", len(body_in)))
            h = hooks.get("on_enter")
            if h:
                h(cid, idx, environ)
            if q.get("g") == "1":
                # gated request: runs on only once the client has opened the gate
                # (i.e. after it has sent what follows this request)
                log.add(world, cid, idx, "gate-wait")
                world.gates[("waiting", cid)] = True
                world.net.changed()
                world.wait_until(lambda: world.gates.get(cid))
            if q.get("g") == "2":
                # peer-gated request (a long poll): runs on only once a request of another
                # connection has been executed; needs a second worker thread
                log.add(world, cid, idx, "gate-wait")
                world.gates["peer-waiters"] = True
                world.gates[("waiting", cid)] = True
                world.net.changed()
                world.wait_until(lambda: any(c != cid and what == "exit" for _, c, _, what in log.events))
            payload = apps.ident_payload(cid, idx, n)
            hdrs = [("Content-Type", "application/octet-stream"), ("X-Req", "%d-%d" % (cid, idx))]
            if k == "raise0":
                raise apps.AppError("app-failure-%d-%d" % (cid, idx))
            if k == "exit0":
                raise SystemExit("app-failure-%d-%d" % (cid, idx))
            if k in ("cl", "chunks", "write", "gen", "fw", "short", "short0", "raise1", "stream", "wgate"):
                hdrs.append(("Content-Length", str(n)))
            if environ["REQUEST_METHOD"] == "HEAD":
                start_response("200 OK", hdrs)
                return []
            if k == "cl":
                start_response("200 OK", hdrs)
                return [payload]
            if k == "chunks":
                start_response("200 OK", hdrs)
                return [payload[i : i + w] for i in range(0, len(payload), w)]
            if k == "write":
                wr = start_response("200 OK", hdrs)
                for i in range(0, len(payload), w):
                    wr(payload[i : i + w])
                return []
            if k == "fw":
                start_response("200 OK", hdrs)
                return environ["wsgi.file_wrapper"](io.BytesIO(payload))
            if k == "fwoff":
                import tempfile

                f = tempfile.TemporaryFile()
                f.write(b"#" * 37 + payload)
                f.flush()
                f.seek(37)
                start_response("200 OK", hdrs)
                return environ["wsgi.file_wrapper"](f)
            if k == "stream":
                # write everything, then wait until the client has really
                # received it (a streaming application that depends on its
                # output being delivered while the request is still running)
                wr = start_response("200 OK", hdrs)
                for i in range(0, len(payload), w):
                    wr(payload[i : i + w])
                tail = payload[-8:]
                conn = world.net.conns[cid]
                log.add(world, cid, idx, "stream-wait")
                world.wait_until(lambda: tail in conn.client_received or conn.server_closed or conn.client_closed)
                log.add(world, cid, idx, "stream-acked")
                return []
            if k == "wgate":
                # writes the first w bytes, then waits for the harness (hook "on_mid"), then writes the rest:
                # a request that is still executing while part of its output is already pending
                wr = start_response("200 OK", hdrs)
                wr(payload[:w])
                h2 = hooks.get("on_mid")
                if h2:
                    h2(cid, idx, environ)
                if payload[w:]:
                    wr(payload[w:])
                return []
            if k == "short0":
                # declares n bytes, produces none at all
                start_response("200 OK", hdrs)
                return []
            if k == "short":
                start_response("200 OK", hdrs)
                return [payload[: max(0, n - 3)]]
            if k in ("gen", "nocl", "raise1"):
                start_response("200 OK", hdrs)

                def gen():
                    try:
                        first = True
                        for i in range(0, len(payload), w):
                            yield payload[i : i + w]
                            if k == "raise1" and first:
                                raise apps.AppError("app-failure-%d-%d" % (cid, idx))
                            first = False
                    finally:
                        log.add(world, cid, idx, "gen-closed")

                return gen()
            raise ValueError(k)
        finally:
            log.add(world, cid, idx, "exit")
            if world.gates.get("peer-waiters"):
                world.net.changed()

    return app


def parse_client_stream(data, methods, eof):
    return rs.parse_responses(bytes(data), methods, eof=eof)


def client_actor(world, cid_hint, spec, result):
    """Runs inside a managed actor thread."""
    if spec.get("delay"):
        world.sleep(spec["delay"])
    c = world.connect(sndbuf=spec.get("sndbuf"), send_caps=spec.get("send_caps"))
    cid = c.conn.cid
    result["cid"] = cid
    result["client"] = c
    reqs = spec["requests"]
    methods = [r.get("m", "GET") for r in reqs]
    reader = spec.get("reader") or {"mode": "always"}
    sent = 0

    def nfinal(cl):
        r, err, left = parse_client_stream(cl.conn.client_received, methods, eof=False)
        return sum(1 for x in r if not x["interim"] and x.get("complete")), r, err

    def saw_interim_or_final(cl, k):
        r, err, left = parse_client_stream(cl.conn.client_received, methods, eof=False)
        finals = sum(1 for x in r if not x["interim"] and x.get("complete"))
        interims = sum(1 for x in r if x["interim"])
        return finals, interims

    def reading_wait(pred):
        mode = reader.get("mode")
        if mode == "always":
            return c.wait(pred)
        # limited reader: drain at most `after` bytes, then stall / disconnect
        limit = reader.get("after", 0)
        s = world.sched
        while True:
            room = limit - len(c.conn.client_received)
            if room > 0:
                c.conn.client_drain(room)
            if pred(c):
                return True
            if len(c.conn.client_received) >= limit:
                break
            if c.conn.server_closed and not c.conn.s2c:
                return pred(c)
            s.block(("client-wait", cid), None)
        result["limited_at"] = len(c.conn.client_received)
        if mode == "disconnect":
            how = reader.get("how", "close")
            getattr(c, how)()
            result["disconnected"] = how
            if how == "shutdown_wr":
                return c.wait(pred)
            return False
        if mode == "stall":
            resume = reader.get("resume", "never")
            if resume == "never":
                result["stalled"] = True
                world.sched.block(("stalled", cid), None)
                return False
            world.sleep(resume)
            result["resumed"] = True
            return c.wait(pred)
        return False

    waiting_client = spec.get("waiting")  # Expect: send body only after 100 / final
    if spec.get("pingpong") or waiting_client:
        for i, r in enumerate(reqs):
            head, body = request_bytes(cid, i, r)
            if waiting_client and r.get("expect") and body:
                eager = min(r.get("eager", 0), len(body) - 1)
                if eager > 0:
                    # a client may start sending its body before the 100 Continue arrives
                    c.send(head + body[:eager])
                    body = body[eager:]
                else:
                    c.send(head)
                result.setdefault("waited_for", []).append(i)
                fin0, int0 = saw_interim_or_final(c, i)
                target_int = int0 + 1

                def go(cl, i=i, target_int=target_int):
                    f, n = saw_interim_or_final(cl, i)
                    return n >= target_int or f >= i + 1

                ok = reading_wait(go)
                f, n = saw_interim_or_final(c, i)
                if f >= i + 1:
                    result.setdefault("final_without_continue", []).append(i)
                    # final response came instead of 100: do not send the body
                    if c.eof() or True:
                        break
                if not ok:
                    result["left_waiting"] = i
                    break
                c.send(body)
            else:
                c.send(head + body, spec.get("pieces"))
            sent = i + 1
            result["sent"] = sent
            if spec.get("pingpong"):
                ok = reading_wait(lambda cl, i=i: nfinal(cl)[0] >= i + 1)
                if not ok:
                    break
        result["sent"] = sent
        if not spec.get("pingpong") and "left_waiting" not in result:
            expect = 0
            for r in reqs[:sent]:
                expect += 1
                if closes_connection(r):
                    break
            result["expect"] = expect
            if not reading_wait(lambda cl: nfinal(cl)[0] >= expect) and not c.eof():
                return
    else:
        data = b"".join(b"".join(request_bytes(cid, i, r)) for i, r in enumerate(reqs))
        plan = spec.get("plan")
        if plan:
            # [[offset, "recv", nbytes] | [offset, "sleep", dt] | [offset, "yield", k] | [offset, "gate" |
            #  "app-waiting" | "any-app-waiting" | "open-all-gates", 0]]: send up to
            # offset, then wait for that condition before sending on
            pos = 0
            for off, kind, arg in plan:
                off = min(off, len(data))
                if off > pos:
                    c.send(data[pos:off])
                    pos = off
                if kind == "recv":
                    c.wait(lambda cl, arg=arg: len(cl.conn.client_received) >= arg)
                elif kind == "sleep":
                    world.sleep(arg)
                elif kind == "gate":
                    world.gates[cid] = True
                    world.net.changed()
                elif kind == "oob":
                    # one byte of TCP urgent data
                    c.send_oob()
                elif kind == "any-app-waiting":
                    # until the gated application of ANY connection is blocked (a worker is occupied)
                    world.wait_until(lambda: any(isinstance(k, tuple) and k[0] == "waiting" and v for k, v in world.gates.items())
                                     or c.conn.server_closed)
                elif kind == "open-all-gates":
                    for k, v in list(world.gates.items()):
                        if isinstance(k, tuple) and k[0] == "waiting":
                            world.gates[k[1]] = True
                    world.net.changed()
                elif kind == "app-waiting":
                    # until the gated application is blocked (its request was read and dispatched)
                    world.wait_until(lambda: world.gates.get(("waiting", cid)) or c.conn.server_closed)
                else:
                    for _ in range(int(arg)):
                        world.sched.yield_point(("client", "plan"))
            if pos < len(data) and not c.conn.server_closed:
                c.send(data[pos:])
            world.gates[cid] = True
            world.net.changed()
        else:
            c.send(data, spec.get("pieces"))
        sent = len(reqs)
        result["sent"] = sent
        if spec.get("half_close") and not c.conn.server_closed:
            # the client has nothing more to say: FIN on its sending side, keeps reading
            c.shutdown_wr()
            result["half_closed"] = True
        # how many responses can be expected: up to and including the first closing one
        expect = 0
        for r in reqs:
            expect += 1
            if closes_connection(r):
                break
        result["expect"] = expect
        reading_wait(lambda cl: nfinal(cl)[0] >= expect)
    if spec.get("then_close"):
        c.close()
    elif spec.get("read_to_eof"):
        c.read_until_eof()
    result["done"] = True


def expected_responses(reqs, upto=None):
    """indices of the requests that must be executed and answered (up to and
    including the first one that ends the connection)"""
    out = []
    for i, r in enumerate(reqs[: upto if upto is not None else len(reqs)]):
        out.append(i)
        if closes_connection(r):
            break
    return out
