"""World: one simulated run of the real threaded waitress server."""

import gc
import sys
import threading as _real_threading
import warnings

from vf import core

core.use_waitress()

import waitress.channel  # noqa: E402
import waitress.server  # noqa: E402
import waitress.task  # noqa: E402
import waitress.trigger  # noqa: E402
import waitress.wasyncore  # noqa: E402
import waitress.buffers  # noqa: E402
from waitress.adjustments import Adjustments  # noqa: E402

from vf.sim import shim  # noqa: E402
from vf.sim.net import Net  # noqa: E402
from vf.sim.sched import Scheduler, Strategy, SimShutdown  # noqa: E402

_patched = False
_threading = shim.ThreadingShim()
_time = shim.TimeShim()
_select = shim.SelectShim()
_os = shim.OsShim()

YIELD_FILES = ("channel.py", "task.py", "server.py", "wasyncore.py", "trigger.py", "buffers.py")
_yield_codes = {}
_TOOL = 3
_monitoring_on = False
_line_enabled = True


def _line_cb(code, line):
    st = _yield_codes.get(code)
    if st is None:
        fn = code.co_filename
        st = fn.endswith(YIELD_FILES) and "/waitress/" in fn
        _yield_codes[code] = st
    if not st:
        return sys.monitoring.DISABLE
    w = shim._Cur.world
    if w is None or not w.line_yields:
        return None
    s = w.sched
    t = s.me()
    if t is None or t is not s.current:
        return None
    s.yield_point((code.co_name, line))
    return None


def _instr_cb(code, offset):
    w = shim._Cur.world
    if w is None or not w.line_yields:
        return None
    s = w.sched
    t = s.me()
    if t is None or t is not s.current:
        return None
    s.yield_point((code.co_name, "i%d" % offset))
    return None


# Functions the I/O thread evaluates without any lock over state that workers change: a thread
# switch between two bytecodes of ONE source line matters there (e.g. `x and x[-1]`), so these get
# a yield point per instruction instead of per line.
INSTRUCTION_LEVEL = (
    ("channel", "HTTPChannel", "readable"), ("channel", "HTTPChannel", "writable"), ("channel", "HTTPChannel", "handle_write"),
    ("server", "BaseWSGIServer", "maintenance"), ("server", "BaseWSGIServer", "close_marked_channels"),
)


def install():
    """Rebind the module globals of the waitress modules (once per process)."""
    global _patched, _monitoring_on
    if _patched:
        return
    for mod in (waitress.channel, waitress.task, waitress.trigger):
        mod.threading = _threading
    for mod in (waitress.channel, waitress.task, waitress.server, waitress.wasyncore):
        mod.time = _time
    waitress.wasyncore.select = _select
    waitress.wasyncore.os = _os
    waitress.trigger.os = _os
    mon = sys.monitoring
    mon.use_tool_id(_TOOL, "vf-sim")
    mon.register_callback(_TOOL, mon.events.LINE, _line_cb)
    mon.set_events(_TOOL, mon.events.LINE)
    mon.register_callback(_TOOL, mon.events.INSTRUCTION, _instr_cb)
    for modname, clsname, fname in INSTRUCTION_LEVEL:
        fn = getattr(getattr(getattr(waitress, modname), clsname), fname, None)
        code = getattr(fn, "__code__", None)
        if code is not None:
            mon.set_local_events(_TOOL, code, mon.events.INSTRUCTION)
    _monitoring_on = True
    _patched = True


class Client:
    """Scripted client; its methods are called from an actor (managed) thread."""

    def __init__(self, world, conn):
        self.world = world
        self.conn = conn

    @property
    def received(self):
        return bytes(self.conn.client_received)

    def send(self, data, pieces=None):
        if pieces:
            pos = 0
            for p in pieces:
                if p <= pos or p >= len(data):
                    continue
                self.conn.client_send(data[pos:p])
                self.world.sched.yield_point(("client", "send"))
                pos = p
            self.conn.client_send(data[pos:])
        else:
            self.conn.client_send(data)
        self.world.sched.yield_point(("client", "send"))

    def drain(self, n=None):
        k = self.conn.client_drain(n)
        return k

    def wait(self, pred, timeout=None):
        """keep reading until pred(self) or EOF; returns pred's last value"""
        s = self.world.sched
        while True:
            self.conn.client_drain()
            r = pred(self)
            if r:
                return r
            if self.conn.server_closed and not self.conn.s2c:
                self.conn.eof_seen_by_client = True
                return pred(self)
            if s.block(("client-wait", self.conn.cid), timeout):
                return pred(self)

    def read_until_eof(self, timeout=None):
        return self.wait(lambda c: False, timeout)

    def wait_bytes(self, n, timeout=None):
        return self.wait(lambda c: len(c.conn.client_received) >= n, timeout)

    def stall(self, until_event):
        """stop reading until the (sim) event is set"""
        until_event.wait()

    def close(self):
        self.conn.client_close()

    def shutdown_wr(self):
        self.conn.client_shutdown_wr()

    def send_oob(self):
        self.conn.client_send_oob()

    def reset(self):
        self.conn.client_reset()

    def eof(self):
        return self.conn.client_sees_eof()


class World:
    _closed_since_gc = 0

    def __init__(self, app, strategy=None, adj_kw=None, listeners=1, infinite_poll=True,
                 line_yields=True, step_limit=400000, record_pilot=False, sndbuf=65536, dispatcher=None,
                 start_server=True, trace=False, own_map=False):
        install()
        # No cyclic GC while a world runs: a finalizer (e.g. file_wrapper.__del__
        # of an earlier world's trigger) would execute waitress lines at an
        # arbitrary point -- inside the scheduler itself -- and yield there.
        gc.disable()
        shim._Cur.world = self
        self.sched = Scheduler(strategy or Strategy(), step_limit=step_limit, record_pilot=record_pilot)
        self.sched.infinite_poll = infinite_poll
        self.net = Net(self)
        self.net.default_sndbuf = sndbuf
        self.locks = []
        self.conditions = []
        self.line_yields = line_yields
        self.events = [] if trace else None
        self.nevents = 0
        self.counters = {}
        self.monitors = []
        self.app = app
        self.clients = []
        self.map = {}
        self.servers = []
        self.loop_thread = None
        self.worker_threads = []
        self.in_poll = False
        self.trigger_pulls = 0
        self.map_mutations = []
        self.failed = None
        self.gates = {}
        self.own_map = own_map
        self._last_poll_nevents = -1
        self._idle_polls = 0
        self.spinning = False
        kw = dict(adj_kw or {})
        if listeners > 1 and not any(k in kw for k in ("listen", "host", "port", "sockets", "unix_socket")):
            # as create_server does: every listening server gets the same adjustments, whose `listen`
            # names all the addresses
            kw["listen"] = " ".join("127.0.0.1:%d" % (8080 + i) for i in range(listeners))
        with warnings.catch_warnings():
            warnings.simplefilter("ignore")
            self.adj = Adjustments(**kw)
        if start_server:
            self._start_server(listeners, dispatcher)

    # ---------------------------------------------------------------- set-up
    def _start_server(self, listeners, dispatcher):
        from waitress.server import TcpWSGIServer
        from waitress.task import ThreadedTaskDispatcher

        self.map = RecordingMap(self)
        if dispatcher is None:
            dispatcher = ThreadedTaskDispatcher()
            dispatcher.set_thread_count(self.adj.threads)
        self.dispatcher = dispatcher
        for i in range(listeners):
            lsock = self.net.listener(("127.0.0.1", 8080 + i))
            if self.own_map and listeners == 1:
                # a server constructed the way webtest / the functional-test fixtures do it: without a
                # socket map of the caller's -- it makes, and polls, one of its own
                srv = TcpWSGIServer(self._app_trampoline, _start=True, _sock=lsock, dispatcher=dispatcher, adj=self.adj)
                self.map = srv._map
            else:
                srv = TcpWSGIServer(self._app_trampoline, map=self.map, _start=True, _sock=lsock,
                                    dispatcher=dispatcher, adj=self.adj)
            self.servers.append(srv)
        self.server = self.servers[0]
        self.multi = None
        if listeners > 1:
            # as create_server does for several listening sockets: the object whose run() is the loop
            from waitress.server import MultiSocketServer

            self.multi = MultiSocketServer(self.map, self.adj, [("127.0.0.1", 8080 + i) for i in range(listeners)], dispatcher,
                                           lambda *a: None)
        self.loop_thread = self.sched.spawn(self._loop, (), name="io-loop", role="io")

    def _app_trampoline(self, environ, start_response):
        return self.app(environ, start_response)

    def _loop(self):
        try:
            (self.multi or self.server).run()
            self.count("loop-returned")
        except SimShutdown:
            raise
        except BaseException as e:  # noqa
            self.count("loop-died")
            self.loop_error = repr(e)
            raise

    # --------------------------------------------------------------- actors
    def actor(self, fn, *args, name=None):
        return self.sched.spawn(fn, args, name=name or f"actor{len(self.sched.threads)}", role="actor")

    def connect(self, listener=0, peer=None, sndbuf=None, send_caps=None):
        c = Client(self, self.net.connect(listener, peer, sndbuf, send_caps))
        self.clients.append(c)
        return c

    def sleep(self, dt):
        self.sched.sleep(dt)

    def wait_until(self, pred, timeout=None):
        """block the calling managed thread until pred() holds; re-evaluated
        whenever the network state changes"""
        while not pred():
            if self.sched.block(("client-wait", -1), timeout):
                return pred()
        return True

    def Event(self):
        return shim.Event()

    # ------------------------------------------------------------- notes
    def count(self, name, n=1):
        self.counters[name] = self.counters.get(name, 0) + n

    NO_PROGRESS = frozenset(["s-send-block"])

    def event(self, *ev):
        # events that change nothing (a send that would block) do not count as
        # progress for the spin detection
        if ev[0] not in self.NO_PROGRESS:
            self.nevents += 1
        if self.events is not None:
            self.events.append((self.sched.steps, self.thread_role()) + ev)
        self.sched._hash("ev", ev)

    def thread_role(self):
        t = self.sched.me()
        if t is None:
            return "controller"
        return t.role + ":" + t.name if t.role != "io" else "io"

    def server_map(self):
        return self.map

    def note_trylock_failed(self, lock, t):
        owner = lock.owner
        self.count("trylock-failed:" + lock.label)
        if t.role == "io" and getattr(owner, "role", None) == "worker":
            self.count("overlap:io-trylock-failed-against-worker")

    def note_contended(self, lock, t):
        self.count("contended:" + lock.label)

    def note_wait(self, cond, t):
        self.count("cond-wait:" + cond.label)
        if self.in_poll:
            self.count("overlap:wait-while-io-in-poll")

    def note_notify(self, cond, nwaiters):
        self.count("cond-notify:" + cond.label + (":with-waiter" if nwaiters else ":no-waiter"))

    def note_thread_started(self, mt):
        if mt.role == "worker":
            self.worker_threads.append(mt)

    SPIN_POLLS = 40

    def note_poll_enter(self, kind):
        self.in_poll = True
        self.count("poll-enter:" + kind)
        # spin detection: the loop polls again and again without any event in
        # the world while nobody else can run: the state is a fixpoint
        if self.nevents == self._last_poll_nevents:
            self._idle_polls += 1
            if self._idle_polls >= self.SPIN_POLLS and self.sched.idle():
                self.spinning = True
                self.in_poll = False
                self.sched.stop("spinning")
            elif self._idle_polls >= self.SPIN_POLLS and not self.sched.runq:
                # the loop spins while others only wait for timers: time passes meanwhile
                if self.sched.fire_next_timer():
                    self._idle_polls = 0
        else:
            self._idle_polls = 0
            self._last_poll_nevents = self.nevents

    def note_poll_exit(self, result):
        self.in_poll = False

    def note_trigger_pull(self):
        self.trigger_pulls += 1
        if self.in_poll:
            self.count("overlap:trigger-pulled-while-io-parked-in-poll")

    def note_sockcall(self, conn, op, n):
        if self.events is not None:
            pass
        for m in self.monitors:
            f = getattr(m, "on_sockcall", None)
            if f:
                f(conn, op, n)

    def note_fault(self, conn, op, n, f):
        self.count("fault-injected:%s:%s" % (op, f))
        t = self.sched.me()
        if t is not None:
            self.count("fault-surfaced-in:" + t.role)

    def note_accept(self, listener, conn):
        for m in self.monitors:
            f = getattr(m, "on_accept", None)
            if f:
                f(listener, conn)

    # ------------------------------------------------------------------ run
    def run(self, wall_timeout=60.0):
        reason = self.sched.run(wall_timeout)
        if self.sched.failed:
            self.failed = self.sched.failed
        return reason

    def resume(self, wall_timeout=60.0):
        reason = self.sched.resume(wall_timeout)
        if self.sched.failed:
            self.failed = self.sched.failed
        return reason

    def close(self):
        leaked = self.sched.teardown()
        for srv in self.servers:
            # the trigger's file_wrapper would os.close() its (simulated) fd
            # from __del__ at some later time, inside another world
            try:
                srv.trigger.socket.fd = -1
            except Exception:
                pass
        # release real resources held by the servers (buffers, temp files)
        try:
            for ch in list(self.map.values()):
                for b in getattr(ch, "outbufs", ()):
                    try:
                        b.close()
                    except Exception:
                        pass
        except Exception:
            pass
        shim._Cur.world = None
        World._closed_since_gc += 1
        if World._closed_since_gc >= 40:
            World._closed_since_gc = 0
            gc.collect()
        return leaked

    # ------------------------------------------------------- inspection
    def io_alive(self):
        return self.loop_thread is not None and self.loop_thread.state != "done"

    def workers_alive(self):
        return [t for t in self.worker_threads if t.state != "done"]

    def channels(self):
        from waitress.channel import HTTPChannel

        return [o for o in self.map.values() if isinstance(o, HTTPChannel)]


class RecordingMap(dict):
    """socket map that records which thread mutates it (C13, C18)"""

    def __init__(self, world):
        super().__init__()
        self.world = world

    def __setitem__(self, k, v):
        self.world.map_mutations.append(("set", k, type(v).__name__, self.world.thread_role()))
        super().__setitem__(k, v)
        for m in self.world.monitors:
            f = getattr(m, "on_map_change", None)
            if f:
                f(self, "set", k, v)

    def __delitem__(self, k):
        v = self.get(k)
        self.world.map_mutations.append(("del", k, type(v).__name__, self.world.thread_role()))
        super().__delitem__(k)
        for m in self.world.monitors:
            f = getattr(m, "on_map_change", None)
            if f:
                f(self, "del", k, v)

    def pop(self, k, *a):
        if k in self:
            self.world.map_mutations.append(("del", k, type(self[k]).__name__, self.world.thread_role()))
        return super().pop(k, *a)

    def clear(self):
        self.world.map_mutations.append(("clear", None, None, self.world.thread_role()))
        super().clear()
