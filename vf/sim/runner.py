"""Run one scenario under one schedule strategy and collect observations."""

import random

from vf.sim import scenario as SC
from vf.sim import sched as S
from vf.sim.world import World


def make_strategy(spec, expected_steps=3000):
    kind = spec.get("kind", "np")
    if kind == "np":
        return S.Strategy()
    if kind == "random":
        return S.RandomWalk(random.Random(spec["seed"]), spec.get("p", 0.02))
    if kind == "pct":
        return S.PCT(random.Random(spec["seed"]), spec.get("d", 3), spec.get("len", expected_steps))
    if kind == "forced":
        return S.Forced({int(k): v for k, v in spec["switches"].items()})
    raise ValueError(kind)


class Obs:
    pass


def run_scenario(scn, strat, hooks=None, trace=False, pilot=False, wall_timeout=60.0, setup=None,
                 infinite_poll=True, director=None):
    """scn: scenario dict (vf.sim.scenario); strat: strategy spec dict."""
    strategy = make_strategy(strat, scn.get("expected_steps", 3000))
    log = SC.AppLog()
    holder = {}

    def app(environ, start_response):
        return holder["app"](environ, start_response)

    adj = dict(scn.get("adj", {}))
    w = World(app, strategy=strategy, adj_kw=adj, listeners=scn.get("listeners", 1),
              infinite_poll=infinite_poll, record_pilot=pilot, sndbuf=scn.get("sndbuf", 65536), trace=trace,
              step_limit=scn.get("step_limit", 400000))
    w.net.faults.update({_fkey(k): v for k, v in (scn.get("faults") or {}).items()})
    holder["app"] = SC.make_app(w, log, hooks)
    results = []
    for i, cs in enumerate(scn["conns"]):
        r = {}
        results.append(r)
        w.actor(SC.client_actor, w, i, cs, r, name="client%d" % i)
    if setup is not None:
        setup(w, results, log)
    if director is not None:
        w.sched.director = w.actor(director, w, results, log, name="director")
    reason = w.run(wall_timeout)
    o = Obs()
    o.world = w
    o.reason = reason
    o.results = results
    o.log = log
    o.failed = w.failed
    o.steps = w.sched.steps
    o.switches = w.sched.switches
    o.preemptions = w.sched.preemptions
    o.trace_hash = w.sched.trace_hash
    o.pilot = w.sched.pilot
    o.snapshot = w.sched.snapshot()
    o.counters = dict(w.counters)
    o.counters.update(w.sched.counters)
    o.fairness = w.sched.fairness_switches
    return o


def _fkey(k):
    """fault keys are stored as 'cid:op:n' strings in scenarios"""
    if isinstance(k, tuple):
        return k
    cid, op, n = k.split(":")
    if cid.startswith("L"):
        cid = ("L", int(cid[1:]))
    else:
        cid = int(cid)
    return (cid, op, n if n == "*" else int(n))


def finish(o):
    """tear the world down; returns number of leaked threads"""
    return o.world.close()


def single_preemptions(pilot, max_points=None, rng=None):
    """all (step, tid) forced switches from a pilot run"""
    out = []
    for step, tids in pilot:
        for tid in tids:
            out.append((step, tid))
    if max_points is not None and len(out) > max_points and rng is not None:
        out = rng.sample(out, max_points)
        out.sort()
    return out
