"""Run one scenario under one schedule strategy and collect observations."""

import random

from vf.sim import scenario as SC
from vf.sim import sched as S
from vf.sim.world import World


def make_strategy(spec, expected_steps=3000):
    kind = spec.get("kind", "np")
    if kind == "np":
        return S.Strategy()
    if kind == "random":
        return S.RandomWalk(random.Random(spec["seed"]), spec.get("p", 0.02))
    if kind == "pct":
        return S.PCT(random.Random(spec["seed"]), spec.get("d", 3), spec.get("len", expected_steps))
    if kind == "forced":
        return S.Forced({int(k): v for k, v in spec["switches"].items()}, spec.get("prefer") or ())
    raise ValueError(kind)


class Obs:
    pass


def run_scenario(scn, strat, hooks=None, trace=False, pilot=False, wall_timeout=60.0, setup=None,
                 infinite_poll=True, director=None):
    """scn: scenario dict (vf.sim.scenario); strat: strategy spec dict."""
    strategy = make_strategy(strat, scn.get("expected_steps", 3000))
    log = SC.AppLog()
    holder = {}

    def app(environ, start_response):
        return holder["app"](environ, start_response)

    adj = dict(scn.get("adj", {}))
    w = World(app, strategy=strategy, adj_kw=adj, listeners=scn.get("listeners", 1),
              infinite_poll=infinite_poll, record_pilot=pilot, sndbuf=scn.get("sndbuf", 65536), trace=trace,
              step_limit=scn.get("step_limit", 400000), own_map=bool(scn.get("own_map")))
    w.net.faults.update({_fkey(k): v for k, v in (scn.get("faults") or {}).items()})
    if scn.get("peer_family"):
        w.net.peer_family = scn["peer_family"]
    holder["app"] = SC.make_app(w, log, hooks)
    results = []
    for i, cs in enumerate(scn["conns"]):
        r = {}
        results.append(r)
        w.actor(SC.client_actor, w, i, cs, r, name="client%d" % i)
    if setup is not None:
        setup(w, results, log)
    if director is not None:
        w.sched.director = w.actor(director, w, results, log, name="director")
    reason = w.run(wall_timeout)
    o = Obs()
    o.world = w
    o.reason = reason
    o.results = results
    o.log = log
    o.failed = w.failed
    o.steps = w.sched.steps
    o.switches = w.sched.switches
    o.preemptions = w.sched.preemptions
    o.trace_hash = w.sched.trace_hash
    o.pilot = w.sched.pilot
    o.snapshot = w.sched.snapshot()
    o.counters = dict(w.counters)
    o.counters.update(w.sched.counters)
    o.fairness = w.sched.fairness_switches
    return o


def chained_preemptions(scn, stages, setup=None, prefer_role=None):
    """Targeted enumeration of k forced switches.  stages: list of dicts {"site": predicate(site), "from":
    role of the running thread, "to": role of the thread switched to, "limit": most candidates taken per
    prefix, "stride": take every n-th}.  Stage i looks, in the pilot of the run forced so far, at the yield
    points after the previous switch.  prefer_role: whenever the running thread blocks after the first forced
    switch, threads of that role run first.  Yields strategy specs."""
    pref = []

    def rec(prefix, after, i):
        strat = {"kind": "forced", "switches": prefix, "prefer": list(pref)} if prefix else {"kind": "np"}
        o = run_scenario(scn, strat, pilot=True, setup=setup)
        pilot = o.pilot
        roles = {t.tid: t.role for t in o.world.sched.threads}
        if prefer_role and not pref:
            pref.extend(t for t, r in sorted(roles.items()) if r == prefer_role)
        finish(o)
        st = stages[i]
        cands = []
        for step, tids, site, cur in pilot:
            if step <= after or roles.get(cur) != st["from"] or not st["site"](site):
                continue
            for tid in tids:
                if roles.get(tid) == st["to"]:
                    cands.append((step, tid))
                    break
        cands = cands[:: st.get("stride", 1)][: st.get("limit", 20)]
        for step, tid in cands:
            sw = dict(prefix)
            sw[str(step)] = tid
            if i + 1 == len(stages):
                yield {"kind": "forced", "switches": sw, "prefer": list(pref)}
            else:
                yield from rec(sw, step, i + 1)

    yield from rec({}, -1, 0)


def _fkey(k):
    """fault keys are stored as 'cid:op:n' strings in scenarios"""
    if isinstance(k, tuple):
        return k
    cid, op, n = k.split(":")
    if cid.startswith("L"):
        cid = ("L", int(cid[1:]))
    else:
        cid = int(cid)
    return (cid, op, n if n == "*" else int(n))


def finish(o):
    """tear the world down; returns number of leaked threads"""
    return o.world.close()


def single_preemptions(pilot, max_points=None, rng=None):
    """all (step, tid) forced switches from a pilot run"""
    out = []
    for entry in pilot:
        step, tids = entry[0], entry[1]
        for tid in tids:
            out.append((step, tid))
    if max_points is not None and len(out) > max_points and rng is not None:
        out = rng.sample(out, max_points)
        out.sort()
    return out


def double_preemptions(scn, first_filter, window=60, run=None, second="preempted", second_filter=None, first_roles=None):
    """Targeted two-pre-emption enumeration: a first forced switch at every
    pilot yield point accepted by first_filter(site, running_tid), then a
    second one at each of the next `window` yield points of the thread that
    was pre-empted first.  Yields switch dicts {step1: tid1, step2: tid2}."""
    o = run_scenario(scn, {"kind": "np"}, pilot=True)
    pilot = o.pilot
    roles = {t.tid: t.role for t in o.world.sched.threads}
    finish(o)
    for entry in pilot:
        step, tids, site, cur = entry
        if not first_filter(site, cur):
            continue
        for tid in tids:
            if first_roles is not None and roles.get(tid) not in first_roles:
                # (first_roles: the first switch goes to threads of these roles only)
                continue
            o2 = run_scenario(scn, {"kind": "forced", "switches": {str(step): tid}}, pilot=True)
            p2 = o2.pilot
            finish(o2)
            seen = 0
            # second switch: at yield points of the thread that was pre-empted first
            # ("preempted", after it resumes) or of the thread switched to ("target")
            # ... or of any thread but the pre-empted one ("other": e.g. the client runs first, and the
            # I/O thread it wakes is the one interrupted), switching back to the pre-empted thread
            who = cur if second == "preempted" else tid
            for e2 in p2:
                if e2[0] <= step:
                    continue
                if second == "other":
                    if e2[3] == cur:
                        continue
                elif e2[3] != who:
                    continue
                if second_filter is not None and not second_filter(e2[2]):
                    continue
                seen += 1
                if seen > window:
                    break
                for tid2 in e2[1]:
                    if second in ("target", "other") and tid2 != cur:
                        continue
                    yield {str(step): tid, str(e2[0]): tid2}
