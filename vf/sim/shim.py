"""Scheduler-aware replacements for the `threading`, `time`, `select` and `os`
module globals of the waitress modules.  They all act on the current World
(vf.sim.world.CURRENT)."""

import errno
import os as _real_os
import select as _real_select
import sys
import time as _real_time

from vf.sim.sched import SimShutdown


class _Cur:
    world = None


def W():
    return _Cur.world


def S():
    return _Cur.world.sched


class MisuseError(AssertionError):
    """The code under test misused a synchronisation primitive."""


def _site(depth=2):
    f = sys._getframe(depth)
    return f"{f.f_code.co_filename.rsplit('/', 1)[-1]}:{f.f_code.co_name}"


# ----------------------------------------------------------------- threading


class Lock:
    _reentrant = False

    def __init__(self):
        self.owner = None
        self.count = 0
        self.label = _site()
        w = W()
        if w is not None:
            w.locks.append(self)

    def _free_for(self, t):
        return self.owner is None or (self._reentrant and self.owner is t)

    def acquire(self, blocking=True, timeout=-1):
        s = S()
        if s.shutting_down:
            raise SimShutdown()
        t = s.me()
        if t is None:
            # the controller thread (set-up / inspection): never contended
            if self.owner is None:
                self.owner = "controller"
                self.count = 1
                return True
            if self.owner == "controller" and self._reentrant:
                self.count += 1
                return True
            raise MisuseError(f"controller cannot take {self.label}: held by {self.owner}")
        s.yield_point(("lock", self.label))
        while not self._free_for(t):
            if not blocking:
                W().note_trylock_failed(self, t)
                return False
            W().note_contended(self, t)
            to = None if (timeout is None or timeout < 0) else timeout
            if s.block(("lock", id(self)), to):
                return False
        self.owner = t
        self.count += 1
        return True

    def release(self):
        s = S()
        if s.shutting_down:
            return
        t = s.me()
        if self.owner is None or (t is not None and self.owner is not t) or (t is None and self.owner != "controller"):
            raise MisuseError(f"release of un-owned lock {self.label} by {t} (owner {self.owner})")
        self.count -= 1
        if self.count == 0:
            self.owner = None
            s.unblock_where(lambda on, me=id(self): on == ("lock", me), "lock-free")
        if t is not None:
            s.yield_point(("unlock", self.label))

    def locked(self):
        return self.owner is not None

    def __enter__(self):
        self.acquire()
        return self

    def __exit__(self, *a):
        self.release()

    # used by Condition
    def _release_save(self):
        st = (self.owner, self.count)
        self.owner = None
        self.count = 0
        S().unblock_where(lambda on, me=id(self): on == ("lock", me), "lock-free")
        return st

    def _acquire_restore(self, st):
        s = S()
        t = s.me()
        while self.owner is not None:
            s.block(("lock", id(self)), None)
        self.owner, self.count = st

    def _is_owned(self):
        t = S().me()
        return self.owner is not None and (self.owner is t or (t is None and self.owner == "controller"))


class RLock(Lock):
    _reentrant = True


class Condition:
    def __init__(self, lock=None):
        self._lock = lock if lock is not None else RLock()
        self.label = _site()
        if lock is None:
            self._lock.label = self.label
        self.waiters = []
        self.acquire = self._lock.acquire
        self.release = self._lock.release
        w = W()
        if w is not None:
            w.conditions.append(self)

    def __enter__(self):
        self._lock.acquire()
        return self

    def __exit__(self, *a):
        self._lock.release()

    def wait(self, timeout=None):
        s = S()
        if s.shutting_down:
            raise SimShutdown()
        t = s.me()
        if not self._lock._is_owned():
            raise MisuseError(f"wait() on {self.label} without owning the lock")
        token = [t, False]
        self.waiters.append(token)
        st = self._lock._release_save()
        W().note_wait(self, t)
        timed_out = s.block(("cond", id(self), id(token)), timeout)
        if token in self.waiters:
            self.waiters.remove(token)
        self._lock._acquire_restore(st)
        return not timed_out

    def notify(self, n=1):
        s = S()
        if s.shutting_down:
            return
        if not self._lock._is_owned():
            raise MisuseError(f"notify() on {self.label} without owning the lock")
        W().note_notify(self, len(self.waiters))
        for token in list(self.waiters[:n]):
            self.waiters.remove(token)
            token[1] = True
            s.unblock_where(lambda on, c=id(self), k=id(token): on == ("cond", c, k), "notified")

    def notify_all(self):
        self.notify(len(self.waiters) or 1)

    notifyAll = notify_all


class Event:
    def __init__(self):
        self._flag = False

    def is_set(self):
        return self._flag

    def set(self):
        self._flag = True
        s = S()
        if not s.shutting_down:
            s.unblock_where(lambda on, me=id(self): on == ("event", me), "event")

    def clear(self):
        self._flag = False

    def wait(self, timeout=None):
        s = S()
        if s.shutting_down:
            raise SimShutdown()
        s.yield_point(("event", 0))
        while not self._flag:
            if s.block(("event", id(self)), timeout):
                break
        return self._flag


class Thread:
    def __init__(self, group=None, target=None, name=None, args=(), kwargs=None, daemon=None):
        self._target = target
        self._args = args
        self._kwargs = kwargs or {}
        self.name = name or "thread"
        self.daemon = daemon
        self._mt = None

    def start(self):
        role = "worker" if self.name.startswith("waitress-") else "thread"

        def run():
            self._target(*self._args, **self._kwargs)

        self._mt = S().spawn(run, (), name=self.name, role=role)
        w = W()
        if w is not None:
            w.note_thread_started(self._mt)

    def is_alive(self):
        return self._mt is not None and self._mt.state != "done"

    def join(self, timeout=None):
        if self._mt is not None:
            S().join(self._mt, timeout)


class ThreadingShim:
    """stands in for the `threading` module inside waitress modules"""

    Lock = Lock
    RLock = RLock
    Condition = Condition
    Event = Event
    Thread = Thread

    @staticmethod
    def current_thread():
        return S().me()

    @staticmethod
    def get_ident():
        t = S().me()
        return -1 if t is None else t.tid


# ---------------------------------------------------------------------- time


class TimeShim:
    def time(self):
        w = W()
        return _real_time.time() if w is None else w.sched.now

    def sleep(self, dt):
        s = S()
        if s.me() is None:
            return
        s.yield_point(("sleep", 0))
        s.sleep(dt)

    def __getattr__(self, name):
        return getattr(_real_time, name)


# -------------------------------------------------------------------- select


class PollObject:
    def __init__(self):
        self.reg = {}

    def register(self, fd, flags=None):
        if flags is None:
            flags = SelectShim.POLLIN | SelectShim.POLLPRI | SelectShim.POLLOUT
        self.reg[fd] = flags

    def modify(self, fd, flags):
        self.reg[fd] = flags

    def unregister(self, fd):
        del self.reg[fd]

    def poll(self, timeout=None):
        w = W()
        s = w.sched
        s.yield_point(("poll", 0))
        w.note_poll_enter("poll")
        if timeout is not None:
            timeout = timeout / 1000.0
        if s.infinite_poll:
            timeout = None
        while True:
            out = []
            for fd, flags in self.reg.items():
                rev = w.net.poll_events(fd, flags)
                if rev:
                    out.append((fd, rev))
            if out:
                w.note_poll_exit(out)
                return out
            if s.block(("select", tuple(self.reg)), timeout):
                w.note_poll_exit([])
                return []


class SelectShim:
    POLLIN = _real_select.POLLIN
    POLLPRI = _real_select.POLLPRI
    POLLOUT = _real_select.POLLOUT
    POLLERR = _real_select.POLLERR
    POLLHUP = _real_select.POLLHUP
    POLLNVAL = _real_select.POLLNVAL
    error = OSError

    def select(self, r, w_, e, timeout=None):
        w = W()
        s = w.sched
        s.yield_point(("select", 0))
        w.note_poll_enter("select")
        if s.infinite_poll:
            timeout = None
        fds = tuple(r) + tuple(w_) + tuple(e)
        while True:
            for fd in fds:
                if not w.net.valid(fd):
                    w.note_poll_exit("EBADF")
                    raise OSError(errno.EBADF, "Bad file descriptor")
            rr = [fd for fd in r if w.net.readable(fd)]
            ww = [fd for fd in w_ if w.net.writable(fd)]
            # the third set: exceptional conditions = unread TCP urgent data
            ee = [fd for fd in e if w.net.exceptional(fd)]
            if rr or ww or ee:
                w.note_poll_exit((rr, ww))
                return rr, ww, ee
            if s.block(("select", fds), timeout):
                w.note_poll_exit(([], []))
                return [], [], []

    def poll(self):
        return PollObject()


# ------------------------------------------------------------------------ os


class OsShim:
    """`os` for waitress.trigger / waitress.wasyncore: pipe I/O is simulated."""

    def pipe(self):
        return W().net.pipe()

    def dup(self, fd):
        return W().net.dup(fd)

    def read(self, fd, n):
        return W().net.pipe_read(fd, n)

    def write(self, fd, data):
        return W().net.pipe_write(fd, data)

    def close(self, fd):
        w = W()
        if w is None:
            return None  # a finalizer of a closed world
        return w.net.pipe_close(fd)

    def set_blocking(self, fd, flag):
        return W().net.pipe_set_blocking(fd, flag)

    def __getattr__(self, name):
        return getattr(_real_os, name)
