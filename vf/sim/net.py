"""Simulated network: listening sockets, TCP connection endpoints with finite
send buffers, partial sends, FIN / half-close / RST, a fault plan, and the
self-pipe used by waitress.trigger (DESIGN.md 2.2, 5)."""

import errno
import select as _sel
import socket as _socket


class Pipe:
    def __init__(self):
        self.buf = bytearray()
        self.closed_r = False
        self.closed_w = False


class Conn:
    """One TCP connection.  Server side = the object handed to waitress
    (ServerSock); client side = methods used by actor scripts."""

    def __init__(self, net, cid, peer, sndbuf, send_caps):
        self.net = net
        self.cid = cid
        self.peer = peer
        self.sndbuf = sndbuf
        self.send_caps = tuple(send_caps) if send_caps else (-1,)
        self.send_i = 0
        self.c2s = bytearray()  # client -> server, not yet recv'd
        self.s2c = bytearray()  # server -> client, in flight (the server's send buffer)
        self.client_received = bytearray()
        self.client_fin = False  # client sent FIN (half or full close)
        self.client_closed = False  # client fully closed (no longer reads)
        self.client_rst = False
        self.server_closed = False
        self.server_close_calls = 0
        self.close_threads = []
        self.opcount = {}
        self.server_sock = None
        self.accepted = False
        self.fd = None
        self.sent_total = 0
        self.eof_seen_by_client = False

    # ---- client side (called from actor threads) -------------------------
    def client_send(self, data):
        if self.client_fin or self.client_rst:
            raise RuntimeError("client already closed")
        self.c2s += data
        self.net.world.event("c-send", self.cid, len(data))
        self.net.changed()

    def client_drain(self, n=None):
        """move up to n bytes from the wire to the client; returns bytes moved"""
        if n is None or n > len(self.s2c):
            n = len(self.s2c)
        if n:
            self.client_received += self.s2c[:n]
            del self.s2c[:n]
            self.net.changed()
        return n

    def client_send_oob(self):
        """one byte of TCP urgent data (send(b"x", MSG_OOB)): not part of the byte stream"""
        self.oob_pending = True
        self.net.world.event("c-oob", self.cid)
        self.net.changed()

    def client_shutdown_wr(self):
        self.client_fin = True
        self.net.world.event("c-fin", self.cid)
        self.net.changed()

    def client_close(self):
        self.client_fin = True
        self.client_closed = True
        self.net.world.event("c-close", self.cid)
        self.net.changed()

    def client_reset(self):
        self.client_rst = True
        self.client_closed = True
        del self.c2s[:]
        self.net.world.event("c-rst", self.cid)
        self.net.changed()

    def client_sees_eof(self):
        return self.server_closed and not self.s2c


class ServerSock:
    """The socket object waitress holds for an accepted connection."""

    family = _socket.AF_INET
    type = _socket.SOCK_STREAM
    proto = 0

    def __init__(self, conn):
        self.conn = conn
        self.net = conn.net
        self._fd = conn.fd
        # what accept() returns is a BLOCKING socket, whatever the listener's mode (Linux / CPython)
        self.nonblocking = False

    def _op(self, op):
        c = self.conn
        n = c.opcount.get(op, 0)
        c.opcount[op] = n + 1
        w = self.net.world
        w.sched.yield_point(("sock", op))
        w.note_sockcall(c, op, n)
        f = self.net.faults.get((c.cid, op, n))
        if f is None:
            f = self.net.faults.get((c.cid, op, "*"))
        if f is None:
            # a connection that is dead from its n-th call on: {(cid, op): (n, errno)}
            ff = getattr(self.net, "faults_from", {}).get((c.cid, op))
            if ff is not None and n >= ff[0]:
                f = ff[1]
        if isinstance(f, str) and f.startswith("DEAD:"):
            # from this call on the connection is dead: every further call of this kind fails too
            e = int(f[5:])
            self.net.__dict__.setdefault("faults_from", {})[(c.cid, op)] = (n, e)
            # the kernel has given the connection up: the error is pending on the socket, which
            # poll / select report as ready (POLLERR) from now on
            c.sock_error = e
            self.net.changed()
            f = e
        if f is not None:
            w.note_fault(c, op, n, f)
            if isinstance(f, int):
                raise OSError(f, errno.errorcode.get(f, "fault"))
            if f == "RST":
                # the client resets the connection just before this call
                if not c.client_rst:
                    c.client_reset()
            elif f == "CLOSE":
                if not c.client_closed:
                    c.client_close()
        return f

    def fileno(self):
        return self._fd

    def setblocking(self, flag):
        self._op("setblocking")
        self.nonblocking = not flag

    def _would_block(self, what):
        """a call that cannot proceed: EWOULDBLOCK on a non-blocking socket; on a blocking one the
        calling thread really waits (until the client moves or goes away)"""
        c = self.conn
        if self.nonblocking:
            self.net.world.event("s-%s-block" % what, c.cid)
            raise BlockingIOError(errno.EWOULDBLOCK, "Resource temporarily unavailable")
        self.net.world.count("blocking-socket-call-blocked:" + what)
        self.net.world.sched.block(("sock-blocking", c.cid, what), None)

    def getsockopt(self, level, opt, *a):
        self._op("getsockopt")
        if level == _socket.SOL_SOCKET and opt == _socket.SO_SNDBUF:
            return self.conn.sndbuf
        if level == _socket.SOL_SOCKET and opt == _socket.SO_ERROR:
            return errno.ECONNRESET if self.conn.client_rst else 0
        return 0

    def setsockopt(self, *a):
        self._op("setsockopt")

    def getpeername(self):
        return self.conn.peer

    def recv(self, n):
        f = self._op("recv")
        c = self.conn
        if c.server_closed:
            raise OSError(errno.EBADF, "Bad file descriptor")
        if f == "FIN":
            return b""
        if c.client_rst:
            raise OSError(errno.ECONNRESET, "Connection reset by peer")
        if c.c2s:
            data = bytes(c.c2s[:n])
            del c.c2s[:n]
            self.net.world.event("s-recv", c.cid, len(data))
            return data
        if c.client_fin:
            self.net.world.event("s-recv-eof", c.cid)
            return b""
        if self.nonblocking:
            raise BlockingIOError(errno.EWOULDBLOCK, "Resource temporarily unavailable")
        while not (c.c2s or c.client_fin or c.client_rst or c.server_closed):
            self._would_block("recv")
        return self.recv(n) if False else self._recv_now(n)

    def _recv_now(self, n):
        c = self.conn
        if c.server_closed:
            raise OSError(errno.EBADF, "Bad file descriptor")
        if c.client_rst:
            raise OSError(errno.ECONNRESET, "Connection reset by peer")
        if c.c2s:
            data = bytes(c.c2s[:n])
            del c.c2s[:n]
            self.net.world.event("s-recv", c.cid, len(data))
            return data
        self.net.world.event("s-recv-eof", c.cid)
        return b""

    def send(self, data):
        f = self._op("send")
        c = self.conn
        if c.server_closed:
            raise OSError(errno.EBADF, "Bad file descriptor")
        if c.client_rst:
            raise OSError(errno.ECONNRESET, "Connection reset by peer")
        if c.client_closed:
            raise OSError(errno.EPIPE, "Broken pipe")
        cap = c.send_caps[c.send_i % len(c.send_caps)]
        c.send_i += 1
        free = c.sndbuf - len(c.s2c)
        k = min(len(data), free)
        if cap >= 0:
            k = min(k, cap)
        if k <= 0:
            if self.nonblocking:
                self.net.world.event("s-send-block", c.cid)
                raise BlockingIOError(errno.EWOULDBLOCK, "Resource temporarily unavailable")
            while c.sndbuf - len(c.s2c) <= 0 and not (c.client_rst or c.client_closed or c.server_closed):
                self._would_block("send")
            if c.server_closed:
                raise OSError(errno.EBADF, "Bad file descriptor")
            if c.client_rst:
                raise OSError(errno.ECONNRESET, "Connection reset by peer")
            if c.client_closed:
                raise OSError(errno.EPIPE, "Broken pipe")
            k = min(len(data), c.sndbuf - len(c.s2c))
        c.s2c += data[:k]
        c.sent_total += k
        self.net.world.event("s-send", c.cid, k)
        self.net.changed()
        return k

    def close(self):
        f = self._op("close")
        c = self.conn
        c.server_close_calls += 1
        c.close_threads.append(self.net.world.thread_role())
        if not c.server_closed:
            c.server_closed = True
            self.net.release_fd(self._fd)
            self.net.world.event("s-close", c.cid, self.net.world.thread_role())
            self.net.changed()


class Listener:
    family = _socket.AF_INET
    type = _socket.SOCK_STREAM
    proto = 0

    def __init__(self, net, lid, name=("127.0.0.1", 8080)):
        self.net = net
        self.lid = lid
        self.name = name
        self.backlog = []
        self.closed = False
        self.close_threads = []
        self._fd = net.new_fd(("listener", self))
        self.accept_calls = 0

    def fileno(self):
        return self._fd

    def setblocking(self, flag):
        pass

    def getsockopt(self, *a):
        return 0

    def setsockopt(self, *a):
        pass

    def bind(self, addr):
        pass

    def listen(self, n):
        pass

    def getsockname(self):
        return self.name

    def accept(self):
        w = self.net.world
        w.sched.yield_point(("sock", "accept"))
        n = self.accept_calls
        self.accept_calls += 1
        f = self.net.faults.get((("L", self.lid), "accept", n))
        if f is not None:
            w.note_fault(None, "accept", n, f)
            raise OSError(f, errno.errorcode.get(f, "fault"))
        if self.closed:
            raise OSError(errno.EBADF, "Bad file descriptor")
        if not self.backlog:
            raise BlockingIOError(errno.EWOULDBLOCK, "Resource temporarily unavailable")
        conn = self.backlog.pop(0)
        conn.fd = self.net.new_fd(("conn", conn))
        conn.accepted = True
        conn.server_sock = ServerSock(conn)
        w.event("accept", conn.cid, len(self.net.world.server_map()))
        w.note_accept(self, conn)
        return conn.server_sock, conn.peer

    def close(self):
        self.close_threads.append(self.net.world.thread_role())
        if not self.closed:
            self.closed = True
            self.net.release_fd(self._fd)
            self.net.world.event("listener-closed", self.lid, self.net.world.thread_role())
            self.net.changed()


class Net:
    def __init__(self, world):
        self.world = world
        self.fds = {}
        self.next_fd = 100
        self.conns = []
        self.listeners = []
        self.faults = {}
        self.default_sndbuf = 65536

    # ---- descriptors
    def new_fd(self, what):
        fd = self.next_fd
        self.next_fd += 1
        self.fds[fd] = what
        return fd

    def release_fd(self, fd):
        self.fds.pop(fd, None)

    def valid(self, fd):
        return fd in self.fds

    def changed(self):
        """some readiness may have changed: wake threads blocked in select/poll"""
        self.world.sched.unblock_where(lambda on: isinstance(on, tuple) and on and on[0] == "select", "io")
        self.world.sched.unblock_where(lambda on: isinstance(on, tuple) and on and on[0] == "client-wait", "io")
        self.world.sched.unblock_where(lambda on: isinstance(on, tuple) and on and on[0] == "sock-blocking", "io")

    # ---- listener / connections
    def listener(self, name=("127.0.0.1", 8080)):
        l = Listener(self, len(self.listeners), name)
        self.listeners.append(l)
        return l

    def connect(self, listener=0, peer=None, sndbuf=None, send_caps=None):
        cid = len(self.conns)
        if peer is None:
            if getattr(self, "peer_family", "inet") == "inet6":
                # what accept() returns on an AF_INET6 listener: (host, port, flowinfo, scope_id)
                peer = ("2001:db8::%x" % (cid + 1), 40000 + cid, 0, 0)
            else:
                peer = ("127.0.0.1", 40000 + cid)
        c = Conn(self, cid, peer, sndbuf or self.default_sndbuf, send_caps)
        self.conns.append(c)
        self.listeners[listener].backlog.append(c)
        self.world.event("connect", cid)
        self.changed()
        return c

    # ---- readiness
    def readable(self, fd):
        what = self.fds.get(fd)
        if what is None:
            return False
        kind, obj = what
        if kind == "listener":
            return bool(obj.backlog)
        if kind == "conn":
            return bool(obj.c2s) or obj.client_fin or obj.client_rst or bool(getattr(obj, "sock_error", 0))
        if kind == "pipe-r":
            return bool(obj.buf) or obj.closed_w
        return False

    def exceptional(self, fd):
        what = self.fds.get(fd)
        if what is None:
            return False
        kind, obj = what
        # urgent data stays "exceptional" until somebody reads it with MSG_OOB (nobody does)
        return kind == "conn" and bool(getattr(obj, "oob_pending", False)) and not obj.server_closed

    def writable(self, fd):
        what = self.fds.get(fd)
        if what is None:
            return False
        kind, obj = what
        if kind == "conn":
            return obj.client_rst or obj.client_closed or bool(getattr(obj, "sock_error", 0)) or len(obj.s2c) < obj.sndbuf
        if kind == "pipe-w":
            return True
        return False

    def poll_events(self, fd, flags):
        what = self.fds.get(fd)
        if what is None:
            return _sel.POLLNVAL
        kind, obj = what
        rev = 0
        if flags & _sel.POLLIN and self.readable(fd):
            rev |= _sel.POLLIN
        if flags & _sel.POLLOUT and self.writable(fd):
            rev |= _sel.POLLOUT
        if kind == "conn":
            if obj.client_rst:
                rev |= _sel.POLLERR | _sel.POLLHUP
            elif getattr(obj, "sock_error", 0):
                rev |= _sel.POLLERR
            if getattr(obj, "oob_pending", False) and flags & _sel.POLLPRI:
                rev |= _sel.POLLPRI
        return rev

    # ---- pipes (the trigger)
    def pipe(self):
        p = Pipe()
        r = self.new_fd(("pipe-r", p))
        w = self.new_fd(("pipe-w", p))
        return r, w

    def dup(self, fd):
        what = self.fds.get(fd)
        if what is None:
            raise OSError(errno.EBADF, "Bad file descriptor")
        return self.new_fd(what)

    def pipe_read(self, fd, n):
        what = self.fds.get(fd)
        if what is None or what[0] != "pipe-r":
            raise OSError(errno.EBADF, "Bad file descriptor")
        self.world.sched.yield_point(("pipe", "read"))
        p = what[1]
        if p.buf:
            data = bytes(p.buf[:n])
            del p.buf[:n]
            self.world.event("pipe-read", len(data))
            return data
        if p.closed_w:
            return b""
        raise BlockingIOError(errno.EWOULDBLOCK, "Resource temporarily unavailable")

    def pipe_write(self, fd, data):
        what = self.fds.get(fd)
        if what is None or what[0] != "pipe-w":
            raise OSError(errno.EBADF, "Bad file descriptor")
        self.world.sched.yield_point(("pipe", "write"))
        what[1].buf += data
        self.world.event("pipe-write", len(data))
        self.world.note_trigger_pull()
        self.changed()
        return len(data)

    def pipe_close(self, fd):
        what = self.fds.pop(fd, None)
        if what is None:
            raise OSError(errno.EBADF, "Bad file descriptor")
        if what[0] == "pipe-w":
            if not any(w is what for w in self.fds.values()):
                what[1].closed_w = True
        self.changed()

    def pipe_set_blocking(self, fd, flag):
        if fd not in self.fds:
            raise OSError(errno.EBADF, "Bad file descriptor")
