"""C01 -- request framing agrees with RFC 9112 (reference-parser oracle)."""

import random

from vf import core
from vf.core import Acc, b2s, s2b

ID = "C01"
LEVEL = "exploration"
RULE = (
    "streams = grammar sentences (1-4 pipelined messages, three framings) with one token-level "
    "mutation, plus the exhaustive single-byte insert/replace/delete neighbourhood of 8 base "
    "messages; each run through the real channel/parser/task code and judged by an independent "
    "RFC 9112 reference parser. distinct = (message skeleton, mutator, position, limit class) for "
    "generated streams and (base, op, offset, byte class) for the neighbourhoods"
)
ASSUMPTIONS = [
    "vf/ref/request.py is a correct strict RFC 9112 request parser (grey zones listed in DESIGN.md 2.3)",
    "SyncHarness: fake socket + deferred dispatcher is one legal schedule of the real server",
]

CONFIGS = [
    {},
    {"recv_bytes": 1},
    {"recv_bytes": 7},
    {"max_request_header_size": 96, "max_request_body_size": 24},
    {"max_request_header_size": 256, "max_request_body_size": 64, "recv_bytes": 7},
    {"inbuf_overflow": 16},
    {"max_request_body_size": 8},
    {"channel_request_lookahead": 2},
]
BASE_KW = {"clear_untrusted_proxy_headers": False}


def plan(tier, seed):
    specs = []
    if tier == "quick":
        ngen, per = 48, 1500
        neigh_parts = 4
    else:
        ngen, per = 160, 12000
        neigh_parts = 8
    for i in range(ngen):
        specs.append({"mode": "gen", "seed": seed * 100003 + i, "n": per})
    from vf.gen.requests import BASE_MESSAGES

    for b in range(len(BASE_MESSAGES)):
        for part in range(neigh_parts):
            specs.append({"mode": "neigh", "base": b, "part": part, "parts": neigh_parts,
                          "follow": tier != "quick" or True})
    return specs


def required_counters(tier):
    return [
        "class:deliver:none",
        "class:deliver:cl",
        "class:deliver:chunked",
        "class:close-after",
        "class:incomplete",
        "class:status:400",
        "class:status:413",
        "class:status:431",
        "class:status:501",
        "class:either-refused",
        "calls_compared",
        "followup_served",
        "followup_not_served",
    ]


_harnesses = {}


def harness(cfg):
    from vf.sync import SyncHarness

    key = tuple(sorted(cfg.items()))
    h = _harnesses.get(key)
    if h is None:
        kw = dict(BASE_KW)
        kw.update(cfg)
        h = SyncHarness(**kw)
        _harnesses[key] = h
    return h


def limits(cfg):
    return (
        cfg.get("max_request_header_size", 262144),
        cfg.get("max_request_body_size", 1073741824),
    )


def run_case(data, cfg, lazy=False):
    from vf import oracle
    from vf.ref import request as rq

    h = harness(cfg)
    mh, mb = limits(cfg)
    expected = rq.parse_stream(data, mh, mb)
    res = h.run_recorded([data], lazy=lazy)
    v = oracle.judge(data, expected, res)
    return expected, res, v


def account(acc, v, expected, res, data, cfg, dkey, label, lazy=False):
    acc.evaluations += 1
    acc.distinct.add(dkey)
    for c in v.classes:
        if c.startswith("either-refused"):
            acc.count("class:either-refused")
        if c.startswith("refuse:"):
            acc.count("class:refuse")
        acc.count("class:" + c if not c.startswith(("refuse:", "either-refused")) else "detail:" + c)
    for z in v.zones:
        acc.count("zone:" + z)
    acc.count("calls_compared", v.ncalls)
    for key, what in v.violations:
        acc.violation(key, what, {"stream": b2s(data), "config": cfg, "label": label, "lazy": lazy})


def run_shard(spec):
    from vf.gen import requests as G

    acc = Acc()
    if spec["mode"] == "gen":
        rng = random.Random(spec["seed"])
        n = spec["n"]
        while acc.evaluations < n:
            msgs = G.random_stream(rng, big=rng.random() < 0.03)
            cfg = rng.choice(CONFIGS)
            follow = rng.random() < 0.5
            # unmutated sentence
            variants = [("sentence", msgs)]
            # a handful of single-token mutations of one message
            mi = rng.randrange(len(msgs))
            toks = msgs[mi]
            for _ in range(12):
                ti = rng.randrange(len(toks))
                muts = G.mutations_for(toks, ti)
                if not muts:
                    continue
                name, nt = rng.choice(muts)
                variants.append((name, msgs[:mi] + [nt] + msgs[mi + 1 :]))
            for name, ms in variants:
                data = b"".join(G.render(t) for t in ms)
                if follow:
                    data += G.FOLLOWUP
                lazy = rng.random() < 0.3
                expected, res, v = run_case(data, cfg, lazy)
                acc.count("schedule:lazy-worker" if lazy else "schedule:eager-worker")
                pos = "first" if mi == 0 else "later"
                lim = "tiny" if "max_request_header_size" in cfg or "max_request_body_size" in cfg else "default"
                dkey = "|".join((G.skeleton(ms[mi]), name, pos, lim))
                account(acc, v, expected, res, data, cfg, dkey, name, lazy)
                acc.count("mut:" + name.split(":")[0] + ":" + name.split(":")[1] if ":" in name else "mut:" + name)
                if follow:
                    served = any(c.environ.get("REQUEST_URI") == "/followup" for c in res.calls)
                    acc.count("followup_served" if served else "followup_not_served")
                if len(acc.samples) < 2 and name != "sentence":
                    acc.sample({"stream": b2s(data)[:300], "mutation": name, "config": cfg,
                                "expected": [o.brief() for o in expected],
                                "observed_calls": len(res.calls), "closed": res.closed})
    else:
        base = G.BASE_MESSAGES[spec["base"]]
        cases = []
        for off in range(len(base) + 1):
            for byte in range(256):
                cases.append(("ins", off, byte))
                if off < len(base):
                    cases.append(("rep", off, byte))
            if off < len(base):
                cases.append(("del", off, 0))
        mine = cases[spec["part"] :: spec["parts"]]
        cfg = {}
        for op, off, byte in mine:
            if op == "ins":
                data = base[:off] + bytes([byte]) + base[off:]
            elif op == "rep":
                if base[off] == byte:
                    continue
                data = base[:off] + bytes([byte]) + base[off + 1 :]
            else:
                data = base[:off] + base[off + 1 :]
            data += G.FOLLOWUP
            expected, res, v = run_case(data, cfg)
            bclass = byte_class(byte)
            dkey = f"neigh|{spec['base']}|{op}|{off}|{bclass}"
            account(acc, v, expected, res, data, cfg, dkey, f"{op}@{off}:{byte}")
            acc.count("neigh_cases")
            served = any(c.environ.get("REQUEST_URI") == "/followup" for c in res.calls)
            acc.count("followup_served" if served else "followup_not_served")
        acc.sample({"neighbourhood_of": b2s(base), "cases": len(mine)})
    return acc.out()


def byte_class(b):
    if b in (0x0D, 0x0A):
        return "crlf"
    if b in (0x20, 0x09):
        return "ws"
    if b < 0x20 or b == 0x7F:
        return "ctl"
    if b >= 0x80:
        return "high"
    if chr(b).isalnum():
        return "alnum"
    return "punct"


def finish(agg, tier, coverage):
    muts = [k for k in agg["counters"] if k.startswith("mut:")]
    coverage["distinct_mutators"] = len(muts)
    coverage["exhaustive"] = False
    coverage["exhaustive_note"] = (
        "the single-byte insert/replace/delete neighbourhoods of the 8 base messages are enumerated completely "
        f"({agg['counters'].get('neigh_cases', 0)} cases); generated streams are sampled"
    )
    if len(muts) < 60:
        coverage["inconclusive"].append(f"only {len(muts)} distinct mutators exercised")


def replay(case):
    data = s2b(case["stream"])
    expected, res, v = run_case(data, case.get("config", {}), case.get("lazy", False))
    return [{"key": k, "what": w, "case": case} for k, w in v.violations]


def explain(case):
    data = s2b(case["stream"])
    expected, res, v = run_case(data, case.get("config", {}))
    for o in expected:
        print("   EXPECT", o.brief())
    for c in res.calls:
        print("   CALL", c.environ.get("REQUEST_METHOD"), repr(c.environ.get("REQUEST_URI")), c.environ.get("SERVER_PROTOCOL"), "body", c.body[:50])
    print("   WIRE", res.wire[:300], "closed", res.closed, "exc", res.exceptions)
