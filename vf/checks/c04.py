"""C04 -- pipelined requests: in order, exactly once, never mixed, under every
schedule (Sim: real threaded server under a deterministic scheduler)."""

import random

from vf import core
from vf.core import Acc

ID = "C04"
LEVEL = "exploration"
RULE = (
    "scenarios = 1-3 connections x pipelines of 1-6 requests (bodies, chunked bodies, Expect, Connection: close, HEAD, "
    "HTTP/1.0 keep-alive) x payload sizes around SO_SNDBUF / send_bytes / 8192 / outbuf_overflow x client segmentation "
    "x per-send caps x lookahead {0,1,2} x 1-3 workers x select/poll; schedules = seeded random walk p in "
    "{.005,.02,.1,.3}, PCT d=3, and the complete single-pre-emption neighbourhood of pilot schedules (pre-emption at "
    "every lock operation, socket call and source line of channel/task/server/wasyncore/trigger/buffers). Every "
    "response payload is self-identifying (8-byte blocks naming connection, request, offset). distinct = trace hash "
    "of the run (context switches with their sites + socket events)"
)
ASSUMPTIONS = [
    "the Sim's lock/condition/select/poll/socket/pipe models are faithful (DESIGN.md 5)",
    "yield points = every shim operation and every source line of the six connection modules (sys.monitoring LINE) plus every bytecode of HTTPChannel.readable / writable / handle_write and BaseWSGIServer.maintenance / close_marked_channels (INSTRUCTION: lock-free reads of shared state)",
    "schedules explored: all <=1-pre-emption schedules of the enumerated scenarios, sampled beyond",
]

SHARD_TIMEOUT = {"quick": 600, "thorough": 3000}


def required_counters(tier):
    return [
        "runs:random", "runs:pct", "runs:forced",
        "overlap:io-trylock-failed-against-worker",
        "overlap:both-threads-flushed",
        "overlap:parsed-while-executing",
        "responses_checked", "executions_checked", "runs_with_preemption", "traces_validated_against_impl",
    ]


def gen_scenario(rng, small=False):
    nconn = rng.choice([1, 1, 1, 2, 2, 3])
    sndbuf = rng.choice([512, 2048, 4096])
    adj = {
        "threads": rng.choice([1, 2, 2, 3]),
        "channel_request_lookahead": rng.choice([0, 0, 1, 2]),
        "asyncore_use_poll": rng.random() < 0.4,
        "send_bytes": rng.choice([1, 1, 64, 18000]),
    }
    if rng.random() < 0.2:
        # whether socket errors are logged must not change what the server does about them
        adj["log_socket_errors"] = False
    if rng.random() < 0.3:
        adj["outbuf_overflow"] = rng.choice([1000, 5000])
    if rng.random() < 0.3:
        adj["outbuf_high_watermark"] = rng.choice([256, 4096])
        # send_bytes above the watermark stalls producers for good (finding
        # F-24, decided by C12/C05); keep C04's scenarios out of that corner
        adj["send_bytes"] = min(adj["send_bytes"], 64)
    if rng.random() < 0.3:
        adj["recv_bytes"] = rng.choice([64, 300])
    sizes = [0, 1, 7, 100, sndbuf - 1, sndbuf, sndbuf + 1, 2 * sndbuf + 3]
    if "outbuf_overflow" in adj:
        sizes += [adj["outbuf_overflow"] - 1, adj["outbuf_overflow"] + 1]
    if not small:
        sizes += [8191, 8193, 18001]
    conns = []
    budget = 30000 if not small else 9000  # total payload bytes per scenario (keeps runs short)
    for ci in range(nconn):
        nreq = rng.choice([1, 2, 3, 3, 4, 6]) if not small else rng.choice([2, 3])
        reqs = []
        for i in range(nreq):
            n = rng.choice(sizes)
            if n > budget:
                n = rng.choice([0, 7, 100])
            budget -= n
            r = {"n": n, "k": rng.choice(["cl", "cl", "chunks", "write", "gen", "fw"])}
            if r["k"] in ("chunks", "write", "gen"):
                r["w"] = rng.choice([1, 64, 1000]) if n <= 300 else rng.choice([max(64, n // 6), 4096, 8192])
            if r["k"] == "fw" and n == 0:
                r["k"] = "cl"
            if r["k"] == "fw" and rng.random() < 0.4:
                r["k"] = "fwoff"
            if rng.random() < 0.15:
                # stray empty lines between pipelined requests are ignored, they are not requests
                r["lead"] = rng.choice(["\r\n", "\r\n\r\n", "\r\n\r\n\r\n\r\n"])
            x = rng.random()
            if x < 0.25:
                r["m"] = "POST"
                r["body"] = rng.choice([1, 10, 300])
                if rng.random() < 0.4:
                    r["chunked_req"] = True
                if rng.random() < 0.3:
                    r["expect"] = True
            elif x < 0.32:
                r["m"] = "HEAD"
                r["k"] = "cl"
            if rng.random() < 0.1:
                r["v"] = "1.0"
                r["keepalive"] = rng.random() < 0.7
                r.pop("chunked_req", None)
                r.pop("expect", None)
            if rng.random() < 0.08:
                r["close"] = True
            if rng.random() < 0.05 and r.get("m") != "HEAD":
                r["k"] = rng.choice(["nocl", "short", "raise0", "raise1"])
                r["n"] = rng.choice([300, 1000])
                r["w"] = 64
            reqs.append(r)
        if rng.random() < 0.12:
            # an uploading client: every request of the connection has a body and expects 100 Continue
            for r in reqs:
                if r.get("m") != "HEAD" and r.get("v") != "1.0":
                    r["m"] = "POST"
                    r.setdefault("body", rng.choice([1, 10, 300]))
                    r["expect"] = True
        c = {"requests": reqs, "sndbuf": sndbuf}
        if rng.random() < 0.5:
            total = 150 * nreq
            c["pieces"] = sorted(rng.sample(range(1, total), rng.choice([1, 2, 5])))
        if any(r.get("expect") for r in reqs) and rng.random() < 0.4:
            # the client sends the body of an expecting request only after 100 Continue (or a final response)
            c["waiting"] = True
        elif rng.random() < 0.3:
            c["pingpong"] = True
        elif adj.get("channel_request_lookahead", 0) == 0 and rng.random() < 0.25:
            # a client that half-closes after its pipeline still gets every response (without
            # look-ahead the server does not look at the socket while work or output is pending)
            c["half_close"] = True
        if rng.random() < 0.4:
            c["send_caps"] = rng.choice([[400, 0], [100], [0, -1], [3000, 50, 0]])
        conns.append(c)
    return {"adj": adj, "sndbuf": sndbuf, "conns": conns}


DIRECTED = [
    # the worker's end-of-service send_continue against the I/O thread's flush (finding F-23): a response
    # larger than the send buffer, then a pipelined expecting request that is still being received
    # (per-send caps leave output pending while the socket stays writable, so the window is one pre-emption away)
    {"adj": {"threads": 1, "channel_request_lookahead": 2, "send_bytes": 1, "recv_bytes": 64}, "sndbuf": 65536,
     "conns": [{"requests": [{"n": 2500, "k": "cl"}, {"m": "POST", "body": 300, "expect": True, "n": 1, "k": "cl"}, {"n": 5, "k": "cl"}],
                "sndbuf": 65536, "send_caps": [300, 300, 0]}]},
    # a large response drained slowly, then an expecting request (no look-ahead: its head is read only after
    # the first request has left the queue -- the I/O thread then finds no request queued while the worker is
    # still at the end of service())
    {"adj": {"threads": 1, "channel_request_lookahead": 0, "asyncore_use_poll": False, "send_bytes": 1}, "sndbuf": 512,
     "conns": [{"requests": [{"n": 1500, "k": "chunks", "w": 300}, {"m": "POST", "body": 40, "expect": True, "n": 30, "k": "cl"},
                             {"n": 10, "k": "cl"}], "sndbuf": 512, "waiting": True}]},
    # scenario 0: two workers, lookahead 1, responses larger than the send buffer (both threads flush)
    {"adj": {"threads": 2, "channel_request_lookahead": 1, "send_bytes": 1}, "sndbuf": 512,
     "conns": [{"requests": [{"n": 1500, "k": "chunks", "w": 300}, {"n": 700, "k": "write", "w": 100}, {"n": 20, "k": "cl"}], "sndbuf": 512,
                "send_caps": [200]}]},
    # scenario 1: one worker, pipelined with body + Expect, small buffers, poll()
    {"adj": {"threads": 1, "channel_request_lookahead": 2, "asyncore_use_poll": True, "send_bytes": 64}, "sndbuf": 2048,
     "conns": [{"requests": [{"n": 3000, "k": "gen", "w": 512}, {"m": "POST", "body": 10, "expect": True, "n": 100, "k": "cl"},
                             {"n": 2049, "k": "fw"}], "sndbuf": 2048, "pieces": [60, 200]}]},
    # scenario 2: two connections sharing two workers
    {"adj": {"threads": 2, "channel_request_lookahead": 0, "send_bytes": 1}, "sndbuf": 4096,
     "conns": [{"requests": [{"n": 5000, "k": "write", "w": 1000}, {"n": 10, "k": "cl", "close": True}, {"n": 10, "k": "cl"}], "sndbuf": 4096},
               {"requests": [{"n": 4097, "k": "cl"}, {"n": 4096, "k": "chunks", "w": 4096}], "sndbuf": 4096, "send_caps": [1000, 0]}]},
]


def _closing_then_more():
    """look-ahead 1; a closing request and, in the next read (recv_bytes = its length), two more requests: the I/O
    thread is inside received() with them while the worker has not yet executed the closing one"""
    from vf.sim import scenario as SC

    first = {"n": 600, "k": "cl", "close": True}
    n0 = len(b"".join(SC.request_bytes(0, 0, first)))
    return {"adj": {"threads": 1, "channel_request_lookahead": 1, "asyncore_use_poll": False, "send_bytes": 1, "recv_bytes": n0}, "sndbuf": 4096,
            "conns": [{"requests": [first, {"n": 10, "k": "cl"}, {"n": 20, "k": "cl"}], "sndbuf": 4096}]}


DIRECTED.insert(2, _closing_then_more())


def plan(tier, seed):
    specs = []
    nshards = 32 if tier == "quick" else 96
    per = 150 if tier == "quick" else 2500
    for i in range(nshards):
        specs.append({"mode": "random", "seed": seed * 1009 + i, "n": per})
    # systematic single pre-emption: directed scenarios always, generated ones in addition
    nenum = 5 if tier == "quick" else 40
    parts = 16 if tier == "quick" else 8
    for s in range(min(nenum, len(DIRECTED))):
        for p in range(parts):
            specs.append({"mode": "enum", "scn": DIRECTED[s], "part": p, "parts": parts, "cap": 900 if tier == "quick" else None})
    for s in ([0] if tier == "quick" else [0, 1, 4]):
        for p in range(8):
            specs.append({"mode": "enum2", "scn": DIRECTED[s], "part": p, "parts": 8, "window": 25 if tier == "quick" else 80})
    for i in range(2 if tier == "quick" else 16):
        specs.append({"mode": "real", "seed": seed * 977 + i, "n": 12 if tier == "quick" else 40})
    for s in range(max(0, nenum - len(DIRECTED))):
        for p in range(parts):
            specs.append({"mode": "enum", "gen_seed": seed * 7 + s, "part": p, "parts": parts, "cap": 4000})
    return specs


def judge(scn, o):
    """-> list of (key, what)"""
    from vf import apps
    from vf.sim import scenario as SC
    from vf.ref import response as rs

    out = []
    if o.failed:
        return [("harness:" + o.failed, "run did not finish: " + o.failed)]
    w = o.world
    if not w.io_alive():
        out.append(("io-thread-died", "the I/O loop thread ended: " + getattr(w, "loop_error", "?")))
    for t in w.sched.threads:
        if t.exc is not None and t.role != "io":
            out.append(("thread-died:" + t.role, f"{t.name} raised {t.exc!r}"))
    by_conn = {}
    for step, cid, idx, what in o.log.events:
        by_conn.setdefault(cid, []).append((step, idx, what))
    for i, cs in enumerate(scn["conns"]):
        res = o.results[i]
        cid = res.get("cid")
        if cid is None:
            out.append(("harness:client-not-started", "client actor never connected"))
            continue
        reqs = cs["requests"]
        sent = res.get("sent", 0)
        expected = SC.expected_responses(reqs, sent if cs.get("pingpong") else None)
        evs = by_conn.get(cid, [])
        # ---- executions: one at a time, in order, each once
        depth = 0
        order = []
        for step, idx, what in evs:
            if what == "enter":
                depth += 1
                if depth > 1:
                    out.append(("overlapping-execution", f"conn {cid}: request {idx} entered while another was executing"))
                order.append(idx)
            elif what == "exit":
                depth -= 1
        if order != sorted(order) or len(set(order)) != len(order):
            dup = [x for x in set(order) if order.count(x) > 1]
            if dup:
                out.append(("executed-twice", f"conn {cid}: requests {dup} executed more than once; order {order}"))
            else:
                out.append(("executed-out-of-order", f"conn {cid}: execution order {order}"))
        if order and order != list(range(len(order))):
            out.append(("executed-out-of-order", f"conn {cid}: execution order {order}"))
        extra = [x for x in order if x not in expected]
        if extra:
            out.append(("executed-after-close", f"conn {cid}: requests {extra} executed after the closing request; expected {expected}"))
        if not res.get("done"):
            out.append(("undelivered-at-quiescence",
                        f"conn {cid}: client still waiting at quiescence ({len(res['client'].received)} bytes received, executed {order}, expected {expected})"))
        elif [x for x in expected if x not in order]:
            out.append(("not-executed", f"conn {cid}: requests {[x for x in expected if x not in order]} never executed"))
        # ---- the client's byte stream
        c = res["client"]
        methods = [r.get("m", "GET") for r in reqs]
        resps, werr, left = rs.parse_responses(c.received, methods, eof=c.eof())
        finals = [r for r in resps if not r["interim"]]
        if werr is not None and res.get("done"):
            last = reqs[expected[-1]] if expected else {}
            tolerated = last.get("k") in ("short", "raise1") and len(finals) >= len(expected)
            if not tolerated:
                out.append(("wire-unparseable", f"conn {cid}: {werr}"))
        # interim responses are bytes on the wire too: at most one, and only in front of
        # the final response of a 1.1 request that asked for it
        nint = 0
        j = 0
        for r in resps:
            if r["interim"]:
                nint += 1
                continue
            rq = reqs[expected[j]] if j < len(expected) else {}
            allowed = 1 if (rq.get("expect") and rq.get("v", "1.1") == "1.1") else 0
            if nint > allowed:
                out.append(("stray-interim-response", f"conn {cid}: {nint} interim response(s) in front of response {j}, at most {allowed} expected"))
            nint = 0
            j += 1
        for j, r in enumerate(finals):
            if j >= len(expected):
                out.append(("extra-response", f"conn {cid}: response {j} beyond the expected {len(expected)}"))
                break
            idx = expected[j]
            rq = reqs[idx]
            k = rq.get("k", "cl")
            if k == "raise0":
                if r["status"] != 500:
                    out.append(("response-order", f"conn {cid}: response {j} status {r['status']}, expected 500"))
                continue
            tag = [v for kk, v in r["headers"] if kk.lower() == b"x-req"]
            if tag != [b"%d-%d" % (cid, idx)]:
                out.append(("response-order", f"conn {cid}: response {j} is tagged {tag}, expected {cid}-{idx}"))
                continue
            if rq.get("m") == "HEAD":
                continue
            n = rq.get("n", 10)
            body = r["body"]
            if k == "short":
                n = max(0, n - 3)
            if k == "raise1":
                body = body[: rq.get("w", 64)]
                n = min(n, rq.get("w", 64))
                if len(r["body"]) > n:
                    out.append(("bytes-after-failure", f"conn {cid}: response {j} has {len(r['body'])} bytes after the app failed at {n}"))
            bad = apps.check_ident_payload(body, cid, idx)
            if bad or (r.get("complete") and len(body) != n and k not in ("raise1",)):
                out.append(("response-payload-corrupt",
                            f"conn {cid} response {j}: {bad or 'length %d != %d' % (len(body), n)}"))
        if res.get("done") and len(finals) < len(expected) and not any(k.startswith("wire") for k, _ in out):
            out.append(("response-missing", f"conn {cid}: {len(finals)} responses for {len(expected)} expected requests"))
    return out


def overlap_probe(acc, o, scn):
    """count interleavings of interest actually observed in this run"""
    c = o.counters
    for k in ("overlap:io-trylock-failed-against-worker",):
        if c.get(k):
            acc.count(k)
    # both threads flushed the same output: s-send events from io and from a worker on one connection
    ev = o.world.events
    if ev is not None:
        roles = {}
        for e in ev:
            if len(e) > 3 and e[2] == "s-send":
                roles.setdefault(e[3], set()).add("io" if e[1] == "io" else "worker")
        if any(len(v) == 2 for v in roles.values()):
            acc.count("overlap:both-threads-flushed")
        # a request parsed (s-recv on io) while a request of the same connection executes
        active = {}
        for step, cid, idx, what in o.log.events:
            pass
    # parsed while executing: recv event between enter and exit of the same connection
    if ev is not None:
        spans = {}
        for step, cid, idx, what in o.log.events:
            if what == "enter":
                spans.setdefault(cid, []).append([step, None])
            elif what == "exit" and spans.get(cid):
                spans[cid][-1][1] = step
        for e in ev:
            if len(e) > 3 and e[2] == "s-recv":
                for a, b in spans.get(e[3], []):
                    if b is not None and a < e[0] < b:
                        acc.count("overlap:parsed-while-executing")
                        return


def run_one(acc, scn, strat, label):
    from vf.sim import runner

    o = runner.run_scenario(scn, strat, trace=True, wall_timeout=120)
    try:
        vs = judge(scn, o)
        acc.evaluations += 1
        acc.count("runs:" + label)
        if o.preemptions:
            acc.count("runs_with_preemption")
        acc.distinct.add("%08x" % (o.trace_hash & 0xFFFFFFFF))
        acc.maxi("steps", o.steps)
        acc.maxi("switches", o.switches)
        acc.count("yield_points", o.steps)
        acc.count("context_switches", o.switches)
        overlap_probe(acc, o, scn)
        for i, cs in enumerate(scn["conns"]):
            acc.count("responses_checked", len([1 for _ in cs["requests"]]))
        acc.count("executions_checked", len([e for e in o.log.events if e[3] == "enter"]))
        for key, what in vs:
            if key.startswith("harness:"):
                acc.inconclusive.append(f"{key}: {what} [{strat}]")
                acc.count("inconclusive_runs")
                continue
            acc.violation(key, what, {"scn": scn, "strat": strat})
        return o, vs
    finally:
        leaked = runner.finish(o)
        if leaked:
            acc.count("leaked_threads", leaked)


def run_real_crosscheck(spec):
    """DESIGN.md 5 item 2: the same scenarios on the real kernel (real threads, real
    sockets on 127.0.0.1, seeded sleep(0) injection) and in the Sim must give the same
    boundary observations.  A disagreement is a defect of the harness: inconclusive."""
    from vf import real

    acc = Acc()
    rng = random.Random(spec["seed"])
    scns = []
    for _ in range(spec["n"]):
        scn = gen_scenario(rng, small=True)
        for c in scn["conns"]:
            c.pop("send_caps", None)
        scn["adj"].pop("recv_bytes", None)
        scns.append(scn)
    reals = []
    for k, scn in enumerate(scns):
        r = real.run_real(scn, perturb_seed=spec["seed"] * 100 + k if k % 2 else None)
        reals.append(real.boundary(scn, r["conns"], r["log"]))
        judge_boundary(acc, scn, reals[-1], "real")
        if r.get("error"):
            acc.violation("io-thread-died", "real-kernel run: " + r["error"], {"scn": scn, "where": "real"})
    # only now is the Sim loaded (it rebinds module globals of waitress)
    from vf.sim import runner

    for k, scn in enumerate(scns):
        o = runner.run_scenario(scn, {"kind": "np"}, wall_timeout=60)
        try:
            conns = [{"received": r["client"].received if r.get("client") else b"", "eof": r["client"].eof() if r.get("client") else False}
                     for r in o.results]
            sim_b = real.boundary(scn, conns, [(c, i, what) for _, c, i, what in o.log.events])
        finally:
            runner.finish(o)
        acc.evaluations += 1
        acc.distinct.add("real|%d|%d" % (spec["seed"], k))
        acc.count("traces_validated_against_impl")
        # a connection the real kernel reset under the client (data sent to a socket the server had
        # already closed) is not comparable: what the client got before the RST is up to the kernel
        rb = [dict(x) for x in reals[k]]
        sb = [dict(x) for x in sim_b]
        for x, y in zip(rb, sb):
            if x.pop("reset", False):
                acc.count("real:connection-reset-not-compared")
                x.clear()
                y.clear()
            y.pop("reset", None)
        if sb != rb:
            acc.inconclusive.append("sim-vs-real-kernel disagreement: scenario %s sim=%s real=%s" % (scn, sim_b, reals[k]))
            acc.count("sim_real_disagreements")
    acc.sample({"real_kernel_crosscheck": scns[0], "boundary": reals[0]})
    return acc.out()


def judge_boundary(acc, scn, b, where):
    """the C04 oracle on boundary observations of a real-kernel run"""
    from vf.sim import scenario as SC

    for i, cs in enumerate(scn["conns"]):
        reqs = cs["requests"]
        expected = SC.expected_responses(reqs)
        ob = b[i]
        if ob["executed"] != expected[: len(ob["executed"])] or len(set(ob["executed"])) != len(ob["executed"]):
            acc.violation("executed-out-of-order", f"{where}: conn {i} executed {ob['executed']}, expected {expected}", {"scn": scn, "where": where})
        for j, f in enumerate(ob["finals"]):
            status, tag, ok, ln, complete = f
            if j < len(expected) and tag is not None and tag != "%d-%d" % (i, expected[j]):
                acc.violation("response-order", f"{where}: conn {i} response {j} tagged {tag}", {"scn": scn, "where": where})
            if ok is False:
                acc.violation("response-payload-corrupt", f"{where}: conn {i} response {j} payload corrupt", {"scn": scn, "where": where})


def run_shard(spec):
    if spec["mode"] == "real":
        return run_real_crosscheck(spec)
    from vf.sim import runner

    acc = Acc()
    if spec["mode"] == "random":
        rng = random.Random(spec["seed"])
        for n in range(spec["n"]):
            scn = gen_scenario(rng, small=(n % 3 == 0))
            r = rng.random()
            if r < 0.7:
                strat = {"kind": "random", "seed": rng.randrange(1 << 30), "p": rng.choice([0.005, 0.02, 0.1, 0.3])}
                label = "random"
            else:
                strat = {"kind": "pct", "seed": rng.randrange(1 << 30), "d": 3, "len": rng.choice([1500, 4000, 10000])}
                label = "pct"
            o, vs = run_one(acc, scn, strat, label)
            if len(acc.samples) < 1:
                acc.sample({"scenario": scn, "strategy": strat, "steps": o.steps, "switches": o.switches,
                            "verdicts": [k for k, _ in vs]})
    elif spec["mode"] == "enum2":
        # two pre-emptions: the worker is interrupted around the end of a request (it has taken the
        # request off the queue, or is about to answer the expectation of the next one), another thread
        # runs, and the I/O thread is interrupted in the middle of flushing output -- back to the worker
        scn = spec["scn"]

        def first(site, cur):
            return isinstance(site, tuple) and site[0] in ("service", "send_continue", "finish", "close")

        def second(site):
            return isinstance(site, tuple) and site[0] in ("_flush_some", "_flush_some_if_lockable", "handle_write", "send", "get", "skip")

        k = 0
        for sw in runner.double_preemptions(scn, first, window=spec.get("window", 25), second="other", second_filter=second):
            k += 1
            if k % spec["parts"] != spec["part"]:
                continue
            run_one(acc, scn, {"kind": "forced", "switches": sw}, "forced")
        acc.count("enum2_schedules", k)
    else:
        if "scn" in spec:
            scn = spec["scn"]
        else:
            scn = gen_scenario(random.Random(spec["gen_seed"]), small=True)
        # pilot
        o = runner.run_scenario(scn, {"kind": "np"}, pilot=True)
        points = runner.single_preemptions(o.pilot)
        # kept whatever the cap: every pre-emption of a worker at the end of a request (between taking the
        # request off the queue and leaving service()), to whichever thread
        focus = set()
        for e in o.pilot:
            # ... and of the I/O thread inside received() (between its tests of the channel's state and its lock)
            if isinstance(e[2], tuple) and e[2][0] in ("service", "send_continue", "received"):
                focus.update((e[0], t) for t in e[1])
        runner.finish(o)
        if spec.get("cap") and len(points) > spec["cap"]:
            rng = random.Random(len(points))
            rest = [pt for pt in points if pt not in focus]
            points = sorted(set(rng.sample(rest, min(len(rest), spec["cap"]))) | (focus & set(points)))
            acc.count("enum_capped")
            acc.count("enum_focus_points", len(focus))
        mine = points[spec["part"] :: spec["parts"]]
        for step, tid in mine:
            run_one(acc, scn, {"kind": "forced", "switches": {str(step): tid}}, "forced")
        acc.count("enum_points", len(mine))
        acc.sample({"enumerated_scenario": scn, "pilot_yield_points": len(o.pilot), "single_preemptions": len(points)})
    return acc.out()


def finish(agg, tier, coverage):
    coverage["exhaustive"] = False
    coverage["exhaustive_note"] = (
        "for each enumerated scenario every (yield point, other runnable thread) single pre-emption of the "
        "non-pre-emptive pilot schedule is executed (capped by random sampling in the quick tier where marked "
        "enum_capped); random-walk and PCT schedules are sampled"
    )
    coverage["distinct_schedules"] = len(agg["distinct"])
    coverage["traces_validated_against_impl"] = agg["counters"].get("traces_validated_against_impl", 0)


def replay(case):
    acc = Acc()
    run_one(acc, case["scn"], case["strat"], "replay")
    return acc.violations
