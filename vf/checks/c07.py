"""C07 -- the WSGI environ is the exact PEP 3333 image of the request.

Generated, canonically well-formed request streams are run through the real
server/channel/parser/task code (SyncHarness); the environ and wsgi.input
bytes every application call saw are compared with vf.ref.environ's reference
image, which is built from the *bytes on the wire* (re-parsed by
vf.ref.request), not from the generator's model."""

import io
import random

from vf import core
from vf.core import Acc, b2s, s2b

ID = "C07"
LEVEL = "exploration"
RULE = (
    "streams = 1-3 pipelined, canonically well-formed requests (vf.ref.request delivers every one strictly: no grey "
    "zone, nothing the server may refuse) with random token field names (all 15 tchar punctuation marks, mixed case), "
    "dash/underscore aliases of one another, names that map onto CGI / wsgi.* variables, 1-4 repetitions interleaved "
    "with other fields, obs-text / inner-whitespace / empty values with leading and trailing OWS; origin, absolute, "
    "asterisk and authority targets with valid and invalid percent-escapes; no body / Content-Length (in memory, "
    "above inbuf_overflow, above the 8 KiB string buffer) / chunked with extensions and trailers; HTTP/1.0 and 1.1; "
    "x url_prefix {'', /p, /p/q} x url_scheme x server_name/ident x TCP peers (varied address) and the unix server x "
    "one-piece / 7-byte / byte-wise delivery x eager / lazy worker. Oracle: reference expected_environ(request, "
    "config, peer) from PEP 3333 + docs: exact HTTP_*/CONTENT_* key set and values, server-defined keys, request-line "
    "keys (own target splitter, percent-decoder, prefix rule), latin-1 strings, wsgi.input == framed body, "
    "len == CONTENT_LENGTH. distinct = (target form, body path, prefix relation, #fields class, version, config class, "
    "alias/shadow/repeat flags, delivery)"
)
ASSUMPTIONS = [
    "vf/ref/request.py decides which byte streams are well-formed and how they are framed; vf/ref/environ.py is the PEP 3333 / docs image",
    "servers are built with clear_untrusted_proxy_headers=False and no trusted_proxy, so no proxy-header middleware rewrites the environ (C16 owns that)",
    "leading slashes are collapsed after percent-decoding (PATH_INFO never starts with '//'); the url_prefix rule is applied to the decoded path",
    "unjudged, because neither PEP 3333 nor the docs define them: PATH_INFO for absolute-form with an empty path; PATH_INFO/QUERY_STRING for authority-form; SERVER_PORT and REMOTE_PORT of the unix-socket server (still required to be latin-1 str and not client-controlled)",
    "REQUEST_URI (a waitress extension, not in PEP 3333) is compared with the raw request-target",
    "SyncHarness: fake socket + deferred dispatcher is one legal schedule of the real server",
]

MH, MB = 262144, 1073741824  # the server's default limits, given to the reference parser

PREFIXES = ["", "/p", "/p/q"]
SCHEMES = ["http", "https"]
NAMES = [("waitress.invalid", None), ("srv.example", "vf-srv/1")]
TCP_IPS = ["127.0.0.1", "10.1.2.3", "192.0.2.77", "::1", "2001:db8::1"]


def required_counters(tier):
    return [
        "alias-collisions", "cgi-shadow-attempts", "repeated-fields",
        "body:none", "body:cl-bytes", "body:cl-tempfile", "body:chunked", "body:migrated-bytesio-to-tempfile",
        "target:origin", "target:absolute", "target:asterisk", "target:authority",
        "escape:valid", "escape:invalid",
        "prefix:exact", "prefix:under", "prefix:outside",
        "peer:tcp", "peer:unix", "calls_compared", "odd-version-requests", "directed:fragment-targets",
        "directed:underscore-field-with-continuation",
    ]


def plan(tier, seed):
    if tier == "quick":
        shards, per = 32, 3125
    else:
        shards, per = 64, 12500
    return [{"seed": seed * 1000003 + i * 7919 + 17, "shard": i, "n": per} for i in range(shards)]


# ------------------------------------------------------------------ harness

_harnesses = {}


def harness(cfg, unix):
    from vf.sync import SyncHarness

    key = (bool(unix), tuple(sorted(cfg.items())))
    h = _harnesses.get(key)
    if h is None:
        h = SyncHarness(unix=bool(unix), clear_untrusted_proxy_headers=False, **cfg)
        _harnesses[key] = h
    return h


def shard_configs(shard):
    """The 24 (prefix x scheme x name x peer kind) combinations; which of them
    get a tiny inbuf_overflow / recv_bytes rotates with the shard index."""
    out = []
    i = 0
    for unix in (False, True):
        for prefix in PREFIXES:
            for scheme in SCHEMES:
                for name, ident in NAMES:
                    cfg = {"url_prefix": prefix, "url_scheme": scheme, "server_name": name}
                    if ident:
                        cfg["ident"] = ident
                    if (i + shard) % 2 == 0:
                        cfg["inbuf_overflow"] = 16
                    elif (i + shard) % 6 == 1:
                        # a body that first lives in a BytesIO buffer and then crosses the
                        # threshold in a later read migrates BytesIO -> temp file (needs a
                        # threshold above the 8 KiB string stage and a body arriving in
                        # several reads)
                        cfg["inbuf_overflow"] = 20000
                    if (i + shard) % 5 == 0:
                        cfg["recv_bytes"] = 7
                    out.append((cfg, unix))
                    i += 1
    return out


def segment_by(data, how):
    if how == "one":
        return [data]
    if how == "bytes":
        return [data[i : i + 1] for i in range(len(data))]
    return [data[i : i + how] for i in range(0, len(data), int(how))]


# ---------------------------------------------------------------- generator

ALNUM = b"abcdefghijklmnopqrstuvwxyzABCDEFGHIJKLMNOPQRSTUVWXYZ0123456789"
PUNCT = b"!#$%&'*+-.^_`|~"
RESERVED = {b"host", b"content-length", b"content-type", b"transfer-encoding", b"connection", b"expect"}
COMMON = [b"User-Agent", b"Accept", b"Cookie", b"Accept-Language", b"X-Forwarded-For", b"Forwarded",
          b"X-Forwarded-Proto", b"X-Forwarded-Host", b"Via", b"A", b"X-Bar-Baz", b"Cache-Control", b"If-None-Match",
          b"Te", b"Referer", b"Authorization",
          # Content-* fields other than the two CGI ones keep their HTTP_ prefix
          b"Content-Encoding", b"Content-Range", b"Content-Disposition", b"Content-MD5", b"Content-Language",
          b"Content-Location", b"Content-Typex", b"Content-Lengths", b"Content", b"Content-"]
SHADOW = [
    (b"Server-Name", b"evil.example"), (b"Server-Port", b"31337"), (b"Remote-Addr", b"6.6.6.6"),
    (b"Remote-Host", b"evil.example"), (b"Remote-Port", b"31337"), (b"Script-Name", b"/evil"),
    (b"Path-Info", b"/evil"), (b"Query-String", b"evil=1"), (b"Request-Method", b"DELETE"),
    (b"Request-Uri", b"/evil"), (b"Server-Protocol", b"HTTP/9.9"), (b"Server-Software", b"evil/1"),
    (b"Wsgi.Url-Scheme", b"evil"), (b"wsgi.url-scheme", b"evil"), (b"Wsgi.Input", b"evil"),
    (b"wsgi.input", b"evil"), (b"wsgi.version", b"9"), (b"wsgi.errors", b"evil"), (b"wsgi.multithread", b"0"),
    (b"wsgi.multiprocess", b"1"), (b"wsgi.run-once", b"1"), (b"wsgi.file-wrapper", b"evil"),
    (b"wsgi.input-terminated", b"0"), (b"Waitress.Client-Disconnected", b"evil"), (b"Http-Host", b"evil.example"),
    (b"Https", b"on"),
    # underscore spellings: dropped by the underscore rule *and* must not land on the variable
    (b"Server_Name", b"evil.example"), (b"REMOTE_ADDR", b"6.6.6.6"), (b"SCRIPT_NAME", b"/evil"),
    (b"PATH_INFO", b"/evil"), (b"wsgi.url_scheme", b"evil"), (b"HTTP_HOST", b"evil.example"),
    (b"Content_Length", b"9999"), (b"CONTENT_LENGTH", b"7"), (b"Transfer_Encoding", b"chunked"),
    (b"Content_Type", b"evil/evil"), (b"REQUEST_METHOD", b"DELETE"), (b"SERVER_PORT", b"31337"),
]
ALIAS_BASES = [b"X-Foo", b"Foo-Bar", b"A-B-C", b"X-Api-Key", b"Accept-Charset", b"X-Real-Ip", b"Auth-User"]


def mixcase(rng, s):
    r = rng.random()
    if r < 0.5:
        return s
    if r < 0.65:
        return s.lower()
    if r < 0.8:
        return s.upper()
    return bytes((c ^ 0x20) if (65 <= c <= 90 or 97 <= c <= 122) and rng.random() < 0.5 else c for c in s)


def rand_token(rng):
    while True:
        n = rng.choice([1, 2, 3, 4, 6, 8, 12])
        t = bytearray()
        for _ in range(n):
            if rng.random() < 0.3:
                t.append(rng.choice(PUNCT))
            else:
                t.append(rng.choice(ALNUM))
        t = bytes(t)
        if t.lower() not in RESERVED:
            return t


def alias_variant(rng, base):
    r = rng.random()
    if r < 0.35:
        v = base
    elif r < 0.65:
        v = base.replace(b"-", b"_")
    elif r < 0.8:
        # only one of the dashes
        i = base.find(b"-")
        v = base[:i] + b"_" + base[i + 1 :]
    else:
        v = base
    return mixcase(rng, v)


EDGE_OBS = [b"\x85", b"\xa0", b"\xff", b"\x80"]
WORD_COMMON = b"abcXYZ019=;/.\"(),:-_%*"


def rand_word(rng):
    n = rng.choice([1, 1, 2, 3, 5, 8])
    cs = bytearray()
    for _ in range(n):
        r = rng.random()
        if r < 0.7:
            cs.append(rng.choice(WORD_COMMON))
        elif r < 0.85:
            cs.append(rng.randrange(0x21, 0x7F))
        else:
            cs.append(rng.randrange(0x80, 0x100))
    return bytes(cs)


def rand_value(rng):
    """raw bytes after the colon: OWS value OWS"""
    if rng.random() < 0.08:
        core = b""
    else:
        k = rng.choice([1, 1, 1, 2, 2, 3])
        core = rand_word(rng)
        for _ in range(k - 1):
            core += rng.choice([b" ", b" ", b"\t", b"  ", b" \t ", b", ", b","]) + rand_word(rng)
        if rng.random() < 0.12:
            core = rng.choice(EDGE_OBS) + core
        if rng.random() < 0.12:
            core = core + rng.choice(EDGE_OBS)
    lead = rng.choice([b"", b" ", b" ", b" ", b"\t", b"  ", b" \t"])
    trail = rng.choice([b"", b"", b"", b" ", b"\t", b" \t ", b"   "])
    return lead + core + trail


SEG_CHARS = b"abcdefghijklmnopqrstuvwxyzABCDEFGHIJKLMNOPQRSTUVWXYZ0123456789-._~!$&'()*+,;=:@"
VALID_ESC = [b"%41", b"%2f", b"%2F", b"%20", b"%00", b"%ff", b"%C3%A9", b"%7e", b"%25", b"%3f", b"%23", b"%0a", b"%e9"]
INVALID_ESC = [b"%zz", b"%4", b"%", b"%g1", b"%%", b"%4g", b"%-1", b"%.", b"%%41"]


def rand_segment(rng, esc=0.2):
    n = rng.choice([0, 1, 1, 2, 3, 5])
    s = bytearray()
    for _ in range(n):
        r = rng.random()
        if r < esc / 2:
            s += rng.choice(VALID_ESC)
        elif r < esc:
            s += rng.choice(INVALID_ESC)
        else:
            s.append(rng.choice(SEG_CHARS))
    return bytes(s)


def esc_some(rng, raw):
    """re-spell some characters of a path as (valid) escapes"""
    out = bytearray()
    for c in raw:
        if rng.random() < 0.25:
            out += (b"%%%02x" if rng.random() < 0.5 else b"%%%02X") % c
        else:
            out.append(c)
    return bytes(out)


def rand_path(rng, prefix):
    """absolute-path: 1*( "/" segment ); biased towards the configured prefix"""
    pb = prefix.encode()
    r = rng.random()
    if pb and r < 0.5:
        start = pb
        if rng.random() < 0.25:
            start = pb[:1] + esc_some(rng, pb[1:])  # the first "/" is what makes it origin-form
        if rng.random() < 0.15:
            start = b"/" * rng.choice([1, 2]) + start
        k = rng.random()
        if k < 0.3:
            return start  # exact
        if k < 0.75:
            tail = b"/" + b"/".join(rand_segment(rng) for _ in range(rng.choice([1, 1, 2, 3])))
            if rng.random() < 0.1:
                tail = b"%2f" + tail[1:]
            return start + tail  # under
        # looks like the prefix but is not under it
        return start + rng.choice([b"q", b"2/x", b".", b"%", b"-/", b"%2", rand_segment(rng) or b"x"])
    path = b"/" + b"/".join(rand_segment(rng) for _ in range(rng.choice([1, 1, 2, 3, 4])))
    if rng.random() < 0.15:
        path = b"/" * rng.choice([1, 2, 3]) + path
    if rng.random() < 0.05:
        path = b"/%2f" + path
    return path


QCHARS = b"abcxyz019=&/?:@-._~!$'()*+,;"


def rand_query(rng):
    r = rng.random()
    if r < 0.55:
        return b""
    n = rng.choice([0, 1, 3, 6, 10])
    q = bytearray()
    for _ in range(n):
        x = rng.random()
        if x < 0.1:
            q += rng.choice(VALID_ESC)
        elif x < 0.2:
            q += rng.choice(INVALID_ESC)
        else:
            q.append(rng.choice(QCHARS))
    return b"?" + bytes(q)


HOSTS = [b"example.com", b"h", b"127.0.0.1", b"a-b.example", b"EXAMPLE.com"]
METHODS = [b"GET", b"GET", b"GET", b"POST", b"POST", b"PUT", b"DELETE", b"PATCH", b"HEAD", b"OPTIONS", b"M-SEARCH",
           b"X!", b"PROPFIND", b"G3T", b"$", b"A.B~"]


def rand_target(rng, prefix):
    """(method-or-None, target)"""
    r = rng.random()
    if r < 0.06:
        return b"OPTIONS", b"*"
    if r < 0.12:
        return b"CONNECT", rng.choice(HOSTS) + b":" + rng.choice([b"443", b"80", b"8443", b"65535"])
    if r < 0.30:
        scheme = rng.choice([b"http", b"http", b"https", b"HTTP"])
        host = rng.choice(HOSTS)
        if rng.random() < 0.4:
            host += b":" + rng.choice([b"80", b"8080", b"443", b"1"])
        if rng.random() < 0.12:
            path = b""
        else:
            path = rand_path(rng, prefix)
        return None, scheme + b"://" + host + path + rand_query(rng)
    return None, rand_path(rng, prefix) + rand_query(rng)


def rand_body(rng, overflow, allow_big):
    r = rng.random()
    if r < 0.30:
        n = rng.randrange(1, 16)
    elif r < 0.45:
        n = rng.choice([15, 16, 17])
    elif r < 0.85:
        n = rng.randrange(17, 200)
    elif r < 0.97 or not allow_big:
        n = rng.randrange(200, 2000)
    else:
        n = rng.choice([8191, 8192, 8193, 9000, 20000])
        if overflow == 20000:
            n = rng.choice([19999, 20001, 24000, 30000, 41000])
    r = rng.random()
    if r < 0.2:
        base = b"GET /smuggled HTTP/1.1\r\nHost: x\r\n\r\n0\r\n\r\n"
        return (base * (n // len(base) + 1))[:n]
    if r < 0.4:
        return bytes(rng.choice(b"abc \r\n0123;=") for _ in range(n)) if n < 300 else rng.randbytes(n)
    return rng.randbytes(n)


CHUNK_EXTS = [b"", b"", b"", b";a", b";a=b", b';n="q s"', b";x;y=1", b';q="a\\"b"', b";" + PUNCT.replace(b"_", b"") + b"=1"]
TRAILERS = [b"X-T: v", b"Checksum: abc", b"A_B: c", b"Content-Length: 3", b"X-Empty:", b"Host: t.example"]


def encode_chunked(rng, body):
    out = bytearray()
    pos = 0
    n = len(body)
    if n:
        k = min(n, rng.choice([1, 1, 2, 3, 4, 7]))
        cuts = sorted(rng.sample(range(1, n), k - 1)) if k > 1 else []
        cuts = [0] + cuts + [n]
        for a, b in zip(cuts, cuts[1:]):
            size = b - a
            fmt = rng.choice([b"%x", b"%x", b"%X", b"0%x", b"000%X"])
            out += fmt % size + rng.choice(CHUNK_EXTS) + b"\r\n" + body[a:b] + b"\r\n"
    out += rng.choice([b"0", b"0", b"00", b"0000"]) + rng.choice(CHUNK_EXTS) + b"\r\n"
    for _ in range(rng.choice([0, 0, 0, 1, 2])):
        out += rng.choice(TRAILERS) + b"\r\n"
    out += b"\r\n"
    return bytes(out)


def gen_request(rng, prefix, overflow, is_last, allow_big):
    """One canonically well-formed request as bytes plus the generator's own
    idea of its body (cross-checked against the reference parser)."""
    m, target = rand_target(rng, prefix)
    method = m or rng.choice(METHODS)
    version = b"1.1" if rng.random() < 0.8 else b"1.0"

    # --- body
    r = rng.random()
    if method == b"CONNECT" and r < 0.8:
        r = 0.0
    body = b""
    framing = "none"
    if r < 0.35:
        pass
    elif r < 0.70 or version == b"1.0":
        framing = "cl"
        body = rand_body(rng, overflow, allow_big)
    else:
        framing = "chunked"
        body = rand_body(rng, overflow, allow_big) if rng.random() < 0.9 else b""

    fields = []
    ngroups = rng.choice([0, 1, 2, 2, 3, 3, 4, 5, 6, 8])
    for _ in range(ngroups):
        r = rng.random()
        if r < 0.25:
            base = rng.choice(ALIAS_BASES)
            for _ in range(rng.choice([1, 2, 2, 3, 4])):
                fields.append((alias_variant(rng, base), rand_value(rng)))
        elif r < 0.45:
            name, val = rng.choice(SHADOW)
            for _ in range(rng.choice([1, 1, 2])):
                fields.append((name if rng.random() < 0.7 else mixcase(rng, name),
                               b" " + val if rng.random() < 0.8 else rand_value(rng)))
        elif r < 0.75:
            name = rand_token(rng)
            for _ in range(rng.choice([1, 1, 1, 2, 2, 3, 4])):
                nm = name if rng.random() < 0.6 else mixcase(rng, name)
                fields.append((nm, rand_value(rng)))
        else:
            name = rng.choice(COMMON)
            for _ in range(rng.choice([1, 1, 2, 3])):
                fields.append((mixcase(rng, name), rand_value(rng)))
    rng.shuffle(fields)

    special = []
    if version == b"1.1" or rng.random() < 0.5:
        host = rng.choice(HOSTS) + (b":8080" if rng.random() < 0.3 else b"")
        special.append((mixcase(rng, b"Host"), rng.choice([b" ", b"", b"\t"]) + host + rng.choice([b"", b" "])))
    if rng.random() < 0.35:
        special.append((mixcase(rng, b"Content-Type"),
                        b" " + rng.choice([b"text/plain", b"application/x-www-form-urlencoded; charset=utf-8",
                                           b"multipart/form-data; boundary=\"a b\"", b"x/\xe9"])))
    if framing == "cl":
        digits = b"%d" % len(body)
        if rng.random() < 0.15:
            digits = b"0" * rng.choice([1, 2, 5]) + digits
        special.append((mixcase(rng, b"Content-Length"), rng.choice([b" ", b"", b"  ", b"\t"]) + digits + rng.choice([b"", b" ", b"\t"])))
    elif framing == "chunked":
        special.append((mixcase(rng, b"Transfer-Encoding"),
                        rng.choice([b" chunked", b"chunked", b" Chunked", b" CHUNKED ", b"\tchunked\t"])))
        if is_last and rng.random() < 0.25:
            # a Content-Length beside the transfer coding (the connection closes after such a message): if
            # the message is delivered, CONTENT_LENGTH is still the length of the decoded body
            special.append((mixcase(rng, b"Content-Length"),
                            b" " + rng.choice([b"5", b"0", b"4000", b"%d" % len(body), b"%d" % (len(body) + 17), b"1"])))
    elif rng.random() < 0.25:
        special.append((mixcase(rng, b"Content-Length"), rng.choice([b" 0", b"0", b" 00 ", b" 0\t"])))
    # persistence: every request but the last must leave the connection open
    if version == b"1.0":
        if not is_last or rng.random() < 0.4:
            special.append((mixcase(rng, b"Connection"), b" " + rng.choice([b"keep-alive", b"Keep-Alive", b"KEEP-ALIVE"])))
    else:
        x = rng.random()
        if is_last and x < 0.3:
            special.append((mixcase(rng, b"Connection"), b" " + rng.choice([b"close", b"Close"])))
        elif x < 0.45:
            special.append((mixcase(rng, b"Connection"), b" keep-alive"))
    for f in special:
        fields.insert(rng.randrange(len(fields) + 1), f)

    head = method + b" " + target + b" HTTP/" + version + b"\r\n"
    for name, raw in fields:
        head += name + b":" + raw + b"\r\n"
    head += b"\r\n"
    if framing == "chunked":
        wire = encode_chunked(rng, body)
    else:
        wire = body
    return head + wire, body, framing


def gen_stream(rng, prefix, overflow):
    n = rng.choice([1, 1, 2, 2, 3])
    allow_big = rng.random() < 0.5
    parts = []
    for i in range(n):
        parts.append(gen_request(rng, prefix, overflow, i == n - 1, allow_big))
    return parts


# ------------------------------------------------------------------- oracle

_MISSING = object()
_LOOSE_DROP = set(" \t\n\r\x0b\x0c\x1c\x1d\x1e\x1f\x85\xa0")


def _loose(s):
    return "".join(ch for ch in s if ch not in _LOOSE_DROP)


def _in_order(hay, needles):
    pos = 0
    for nd in needles:
        i = hay.find(nd, pos)
        if i < 0:
            return False
        pos = i + len(nd)
    return True


def canonical(outs, nreq=None):
    """every message strictly delivered: no grey zone, no permitted refusal,
    HTTP/1.0 or 1.1, a target of one of the four forms inside the alphabet"""
    from vf.ref import environ as E

    if nreq is not None and len(outs) != nreq:
        return False
    for o in outs:
        if o.kind == "deliver" and set(o.zones) == {"cl+te"} and o is outs[-1]:
            # a Content-Length beside 'chunked' on the last message: may be refused with 400; if it is
            # delivered its environ is judged like any other (run_stream)
            pass
        elif o.kind != "deliver" or o.may_refuse or o.zones:
            return False
        if o.version not in ("1.0", "1.1"):
            return False
        if any(c not in E.TARGET_ALPHABET for c in o.target):
            return False
        form = E.split_target(o.target)["form"]
        if form == "other":
            return False
        if form == "authority" and o.method != b"CONNECT":
            return False
        if form == "asterisk" and o.method != b"OPTIONS":
            return False
    return True


def judge_call(o, call, refcfg, peer):
    """Compare one application call with the reference image.
    Returns ([(key, what)], exp, unjudged, meta)."""
    from vf.ref import environ as E
    from vf.ref import request as rq

    env = call.environ
    exp, unjudged, meta = E.expected_environ(o, refcfg, peer)
    out = []
    seen = set()

    def bad(key, what):
        if key not in seen:
            seen.add(key)
            out.append((key, what))

    # the two reference modules must agree on the header image
    alt = rq.field_image(o)
    alt = {(k if k in E.UNPREFIXED else "HTTP_" + k): v for k, v in alt.items()}
    mine = {k: v for k, v in exp.items() if k.startswith("HTTP_") or k in E.UNPREFIXED}
    if alt != mine:
        meta["ref_disagree"] = (alt, mine)

    # -- every string is a latin-1 native string
    for k, v in env.items():
        if not isinstance(k, str):
            bad("non-latin1-value", f"environ key {k!r} is {type(k).__name__}, not str")
            continue
        if isinstance(v, str):
            try:
                v.encode("latin-1")
            except UnicodeEncodeError:
                bad("non-latin1-value", f"environ[{k!r}] = {v!r} is not encodable as latin-1")
        elif not (k.startswith("wsgi.") or k.startswith("waitress.")):
            bad("non-latin1-value", f"CGI-style variable environ[{k!r}] is {type(v).__name__}, not str")

    # -- request line
    for k, key in (("REQUEST_METHOD", "request-method"), ("SERVER_PROTOCOL", "server-protocol"),
                   ("PATH_INFO", "path-info"), ("QUERY_STRING", "query-string"), ("REQUEST_URI", "request-uri")):
        if k in exp:
            got = env.get(k, _MISSING)
            if got != exp[k]:
                bad(key, f"{k} = {'<missing>' if got is _MISSING else repr(got)}, expected {exp[k]!r} "
                         f"for {o.method!r} {o.target!r} HTTP/{o.version} (url_prefix={refcfg.get('url_prefix')!r})")

    # -- the server's own variables
    attempts = {}
    for name, value in o.fields:
        attempts.setdefault(E.cgi_name(name), []).append(value.decode("latin-1"))
    for k in list(attempts):
        attempts[k].append(", ".join(attempts[k]))
    for k in E.SERVER_KEYS:
        got = env.get(k, _MISSING)
        tried = attempts.get(k.upper(), [])
        if k in exp:
            want = exp[k]
            if got is _MISSING or got != want or type(got) is not type(want):
                if isinstance(got, str) and got in tried:
                    bad("server-variable-overridden:" + k,
                        f"{k} = {got!r} is the value of a client header field; the server's value is {want!r}")
                elif k == "SCRIPT_NAME":
                    bad("script-name", f"SCRIPT_NAME = {got!r}, expected url_prefix {want!r}")
                else:
                    bad("server-variable-differs:" + k,
                        f"{k} = {'<missing>' if got is _MISSING else repr(got)}, expected {want!r}")
        elif isinstance(got, str) and got in tried:
            bad("server-variable-overridden:" + k, f"{k} = {got!r} is the value of a client header field")
    for k in E.OBJECT_KEYS:
        got = env.get(k, _MISSING)
        if isinstance(got, (str, bytes)):
            bad("server-variable-overridden:" + k, f"{k} = {got!r} is a string (client header value?)")
    if not hasattr(env.get("wsgi.input"), "read"):
        bad("server-variable-differs:wsgi.input", "wsgi.input has no read()")
    if not hasattr(env.get("wsgi.errors"), "write"):
        bad("server-variable-differs:wsgi.errors", "wsgi.errors has no write()")

    # -- header image: exactly the expected HTTP_* / CONTENT_* keys and values
    got_img = {k: v for k, v in env.items() if isinstance(k, str) and (k.startswith("HTTP_") or k in E.UNPREFIXED)}
    dropped = meta["dropped"]
    parts = meta["parts"]
    for k in sorted(set(got_img) | set(mine)):
        bare = k if k in E.UNPREFIXED else k[5:]
        g = got_img.get(k, _MISSING)
        w = mine.get(k, _MISSING)
        if g is not _MISSING and w is not _MISSING and g == w:
            continue
        dvals = [v for c, v, _n in dropped if c == bare]
        if w is _MISSING:
            if k == "HTTP_TRANSFER_ENCODING" and o.framing == "chunked":
                bad("transfer-encoding-leaked", f"chunked request delivered with HTTP_TRANSFER_ENCODING = {g!r}")
            elif dvals:
                names = [n for c, _v, n in dropped if c == bare]
                bad("underscore-name-leaked", f"{k} = {g!r} created from field(s) {names!r} whose name contains an underscore")
            else:
                bad("header-image-differs", f"unexpected key {k} = {g!r}: no such field in the request")
            continue
        if g is _MISSING:
            if k == "CONTENT_LENGTH":
                bad("content-length-mismatch", f"CONTENT_LENGTH missing, expected {w!r}")
            else:
                bad("header-image-differs", f"{k} missing, expected {w!r}")
            continue
        if not isinstance(g, str):
            bad("header-image-differs", f"{k} = {g!r}, expected {w!r}")
            continue
        allvals = [v.decode("latin-1") for n, v in o.fields if E.cgi_name(n) == bare]
        vals = parts.get(k, [])
        if dvals and g == ", ".join(allvals):
            bad("underscore-name-leaked",
                f"{k} = {g!r} joins in the value of an underscore-named alias; expected {w!r}")
        elif k == "CONTENT_LENGTH":
            if g in dvals:
                bad("underscore-name-leaked", f"CONTENT_LENGTH = {g!r} is the value of an underscore-named alias; expected {w!r}")
            else:
                bad("content-length-mismatch", f"CONTENT_LENGTH = {g!r}, expected {w!r} ({o.framing} framing, body of {len(o.body)} bytes)")
        elif len(vals) > 1 and ((_in_order(g, vals) and len(g) <= len(w) + 2 * len(vals)) or g in vals
                                or g == ", ".join(reversed(vals))):
            bad("duplicate-join", f"{k} = {g!r}; the field values {vals!r} must be joined with ', ' in arrival order: {w!r}")
        elif _loose(g) == _loose(w):
            bad("value-stripping", f"{k} = {g!r}, expected {w!r}: only SP / HTAB around the value may be removed")
        elif dvals and (g in dvals or any(d and d in g and d not in w for d in dvals)):
            bad("underscore-name-leaked",
                f"{k} = {g!r} contains the value of an underscore-named alias; expected {w!r}")
        else:
            bad("header-image-differs", f"{k} = {g!r}, expected {w!r}")

    # -- a client field must not surface under an unprefixed key either
    known = set(E.SERVER_KEYS) | set(E.REQUEST_LINE_KEYS) | set(E.OBJECT_KEYS) | set(E.UNPREFIXED)
    raw_names = set()
    for name, _v in o.fields:
        nm = name.decode("latin-1")
        raw_names.update((nm, nm.upper(), nm.replace("-", "_"), nm.upper().replace("-", "_"), nm.lower()))
    ext = 0
    for k in env:
        if not isinstance(k, str) or k in known or k.startswith("HTTP_"):
            continue
        if k in raw_names:
            bad("header-image-differs", f"client field surfaced under the unprefixed key {k!r} = {env[k]!r}")
        else:
            ext += 1
    meta["extension_keys"] = ext

    # -- body
    if call.body != o.body:
        d = 0
        while d < min(len(call.body), len(o.body)) and call.body[d] == o.body[d]:
            d += 1
        bad("body-differs", f"wsgi.input yielded {len(call.body)} bytes, the framed body ({o.framing}) has {len(o.body)}; "
                            f"first difference at offset {d}: got {call.body[d:d+20]!r}, expected {o.body[d:d+20]!r}")
    cl = env.get("CONTENT_LENGTH", _MISSING)
    if o.framing in ("cl", "chunked"):
        if not (isinstance(cl, str) and cl.isdigit() and cl.isascii() and int(cl) == len(call.body)):
            bad("content-length-mismatch",
                f"CONTENT_LENGTH = {'<missing>' if cl is _MISSING else repr(cl)} but wsgi.input.read() returned {len(call.body)} bytes ({o.framing})")
    else:
        if cl is not _MISSING and not (isinstance(cl, str) and cl.isdigit() and cl.isascii() and int(cl) == len(call.body)):
            bad("content-length-mismatch", f"CONTENT_LENGTH = {cl!r} on a request without body; wsgi.input gave {len(call.body)} bytes")
    return out, exp, unjudged, meta


SHADOW_TARGETS = None


def shadow_targets():
    global SHADOW_TARGETS
    if SHADOW_TARGETS is None:
        from vf.ref import environ as E

        SHADOW_TARGETS = {k.upper() for k in E.SERVER_KEYS + E.REQUEST_LINE_KEYS + E.OBJECT_KEYS} | {"HTTP_HOST", "HTTPS"}
    return SHADOW_TARGETS


def run_stream(acc, data, cfg, unix, addr, how, lazy, nreq=None, sample=False):
    """Run one stream and judge every call.  Returns False if skipped."""
    from vf.ref import environ as E
    from vf.ref import request as rq

    outs = rq.parse_stream(data, MH, MB)
    if not canonical(outs, nreq):
        acc.count("skipped:not-canonical")
        return False
    h = harness(cfg, unix)
    res = h.run_recorded(segment_by(data, how), addr=tuple(addr), lazy=lazy)
    case = {"stream": b2s(data), "config": cfg, "unix": bool(unix), "addr": list(addr), "how": how, "lazy": bool(lazy)}
    refcfg = dict(cfg, unix=bool(unix), listen_port="8080")
    acc.count("streams")
    acc.count("schedule:lazy-worker" if lazy else "schedule:eager-worker")
    acc.count("delivery:%s" % how)
    if res.exceptions:
        e = res.exceptions[0]
        acc.violation("exception:" + e["type"], f"exception escaped while serving a well-formed request: {e}", case)
    if res.hung:
        acc.violation("hang", f"no quiescence within {res.steps} steps", case)
    calls = res.calls
    for i, o in enumerate(outs):
        if i >= len(calls) and "cl+te" in o.zones:
            acc.evaluations += 1
            acc.count("cl+te:refused")
            break
        if "cl+te" in o.zones:
            acc.count("cl+te:delivered")
        if i >= len(calls):
            acc.evaluations += 1
            acc.violation("not-delivered",
                          f"well-formed request #{i} ({o.brief()}) was not delivered: {len(calls)} call(s), "
                          f"wire {res.wire[:160]!r}", case)
            break
        call = calls[i]
        vs, exp, unjudged, meta = judge_call(o, call, refcfg, addr)
        acc.evaluations += 1
        acc.count("calls_compared")
        for key, what in vs:
            acc.violation(key, f"request #{i}: {what}", case)
        if "ref_disagree" in meta:
            acc.count("reference-disagreement")
            if len(acc.inconclusive) < 3:
                acc.inconclusive.append(f"vf.ref.request.field_image and vf.ref.environ.header_image disagree: {meta['ref_disagree']}")
        # ---- coverage
        form = meta["form"]
        acc.count("target:" + form)
        if meta["valid_escapes"]:
            acc.count("escape:valid")
        if meta["invalid_escapes"]:
            acc.count("escape:invalid")
        rel = meta["relation"]
        acc.count("prefix:" + rel)
        acc.count("peer:unix" if unix else "peer:tcp")
        acc.count("version:" + o.version)
        for u in unjudged:
            acc.count("unjudged:" + u + (":unix" if u in ("REMOTE_PORT", "SERVER_PORT") else ":" + form))
        inmem = isinstance(call.environ.get("wsgi.input"), io.BytesIO)
        if o.framing == "none":
            bpath = "none"
            acc.count("body:none")
            if "CONTENT_LENGTH" in exp:
                acc.count("body:none-with-cl0")
        elif o.framing == "cl":
            bpath = "cl-bytes" if inmem else "cl-tempfile"
            if not inmem and 8192 < cfg.get("inbuf_overflow", 524288) <= len(o.body):
                acc.count("body:migrated-bytesio-to-tempfile")
            acc.count("body:" + bpath)
            if len(o.body) >= 8192:
                acc.count("body:cl-over-strbuf")
        else:
            bpath = "chunked" if inmem else "chunked-tempfile"
            acc.count("body:chunked")
            if not inmem:
                acc.count("body:chunked-tempfile")
            if not o.body:
                acc.count("body:chunked-empty")
        acc.maxi("max_body", len(o.body))
        parts, dropped = meta["parts"], meta["dropped"]
        bare_keys = {(k if k in E.UNPREFIXED else k[5:]) for k in parts}
        alias = any(c in bare_keys for c, _v, _n in dropped)
        st = shadow_targets()
        shadow = any(E.cgi_name(n) in st for n, _v in o.fields)
        rep = any(len(v) > 1 for v in parts.values())
        if alias:
            acc.count("alias-collisions")
        if dropped:
            acc.count("underscore-fields")
        if shadow:
            acc.count("cgi-shadow-attempts")
        if rep:
            acc.count("repeated-fields")
        if any(any(ord(ch) >= 0x80 for ch in v) for vs_ in parts.values() for v in vs_):
            acc.count("value:obs-text")
        if any(v == "" for vs_ in parts.values() for v in vs_):
            acc.count("value:empty")
        if any(any(c in PUNCT for c in n) for n, _v in o.fields):
            acc.count("names:with-punct")
        if i > 0:
            acc.count("pipelined-later-request")
        acc.maxi("max_fields", len(o.fields))
        nf = len(o.fields)
        nfc = "0-2" if nf <= 2 else "3-6" if nf <= 6 else "7-12" if nf <= 12 else "13+"
        cfgc = "%s|%s|%s" % (cfg.get("url_prefix", ""), cfg.get("url_scheme"), "unix" if unix else "tcp")
        acc.distinct.add("|".join((form, bpath, rel, nfc, o.version, cfgc,
                                   "A" if alias else "-", "S" if shadow else "-", "R" if rep else "-", str(how))))
        if sample and not vs and (alias or shadow) and len(acc.samples) < 3:
            keys = ["REQUEST_METHOD", "SERVER_PROTOCOL", "SCRIPT_NAME", "PATH_INFO", "QUERY_STRING", "SERVER_NAME",
                    "SERVER_PORT", "REMOTE_ADDR", "REMOTE_PORT", "wsgi.url_scheme", "CONTENT_LENGTH", "CONTENT_TYPE"]
            excerpt = {k: exp[k] for k in keys if k in exp}
            excerpt.update({k: v for k, v in exp.items() if k.startswith("HTTP_")})
            acc.sample({"request": b2s(data[o.start : o.end])[:500], "config": cfg, "unix": bool(unix),
                        "peer": ["localhost", None] if unix else list(addr), "expected_environ": excerpt, "unjudged": sorted(unjudged),
                        "body_len": len(o.body), "agreed": True})
    if len(calls) > len(outs):
        acc.violation("unexpected-call", f"{len(calls)} application calls for {len(outs)} requests", case)
    return True


ODD_VERSIONS = [b"", b" HTTP/0.9", b" HTTP/1.2", b" HTTP/2.0", b" HTTP/9.9", b" HTTP/0.0", b" HTTP/1.0", b" HTTP/1.1"]


def run_odd_version(acc, rng, cfg, unix):
    """Request lines without a version or with a version other than 1.0 / 1.1 (accepted and served as
    HTTP/1.0): SERVER_PROTOCOL is a well-formed protocol string -- the client's version or the one the
    server falls back to -- and the rest of the request-line image is unaffected."""
    for ver in ODD_VERSIONS:
        seg = rng.choice([b"a", b"x%20y", b"p/q", b""])
        q = rng.choice([b"", b"?k=v", b"?"])
        method = rng.choice([b"GET", b"POST", b"DELETE"])
        data = method + b" /" + seg + q + ver + b"\r\nHost: o.example\r\nX-Odd: 1\r\n\r\n"
        check_odd_version(acc, data, cfg, unix, method, q, ver)


def check_odd_version(acc, data, cfg, unix, method, q, ver):
    import re as _re

    if True:
        h = harness(cfg, unix)
        res = h.run_recorded([data], addr=("127.0.0.1", 50000))
        case = {"stream": b2s(data), "config": cfg, "unix": bool(unix), "addr": ["127.0.0.1", 50000], "how": "one", "lazy": False,
                "odd_version": [b2s(method), b2s(q), b2s(ver)]}
        acc.evaluations += 1
        acc.count("odd-version-requests")
        if res.exceptions:
            acc.violation("exception:" + res.exceptions[0]["type"], f"exception escaped: {res.exceptions[0]}", case)
            return
        if not res.calls:
            # refusing such a request line outright is acceptable
            acc.count("odd-version-refused")
            return
        env = res.calls[0].environ
        sp = env.get("SERVER_PROTOCOL")
        allowed = {"HTTP/1.0"}
        if ver:
            allowed.add(ver.strip().decode())
        else:
            allowed.add("HTTP/0.9")
        if not isinstance(sp, str) or not _re.fullmatch(r"HTTP/[0-9]\.[0-9]", sp) or sp not in allowed:
            acc.violation("server-protocol", f"SERVER_PROTOCOL = {sp!r} for request line {data.split(b'\r\n')[0]!r}; acceptable {sorted(allowed)}", case)
        if env.get("REQUEST_METHOD") != method.decode():
            acc.violation("request-method", f"REQUEST_METHOD = {env.get('REQUEST_METHOD')!r} for {data.split(b'\r\n')[0]!r}", case)
        if env.get("QUERY_STRING") != q[1:].decode():
            acc.violation("query-string", f"QUERY_STRING = {env.get('QUERY_STRING')!r} for {data.split(b'\r\n')[0]!r}", case)
        if env.get("HTTP_X_ODD") != "1":
            acc.violation("header-missing", f"HTTP_X_ODD = {env.get('HTTP_X_ODD')!r}", case)


def run_directed(acc, cfg, unix):
    """(a) a target with a fragment and / or several leading slashes gives the same PATH_INFO and
    QUERY_STRING as its single-slash form; (b) a field whose name contains an underscore is dropped
    together with its folded continuation lines: they do not migrate into the field before it."""
    h = harness(cfg, unix)
    prefix = cfg.get("url_prefix") or ""
    groups = {}
    for tail in ("a/b#sec", "a/b#sec?x=1", "files/r#p=2?d=1", "a/b?x=1#frag", "a#", "a?#", "a/b", "a%23b#c", "#x", "?q#f"):
        for slashes in ("/", "//", "///"):
            data = b"GET " + (slashes + tail).encode() + b" HTTP/1.1\r\nHost: d.example\r\n\r\n"
            res = h.run_recorded([data], addr=("127.0.0.1", 50000))
            acc.evaluations += 1
            acc.count("directed:fragment-targets")
            case = {"stream": b2s(data), "config": cfg, "unix": bool(unix), "directed": "fragment"}
            if res.exceptions:
                acc.violation("exception:" + res.exceptions[0]["type"], f"exception escaped: {res.exceptions[0]}", case)
                continue
            got = None
            if res.calls:
                env = res.calls[0].environ
                got = (env.get("PATH_INFO"), env.get("QUERY_STRING"), env.get("SCRIPT_NAME"))
            groups.setdefault(tail, []).append((slashes, got, case))
    if not prefix:
        for tail, obs in groups.items():
            ref = obs[0][1]
            for slashes, got, case in obs[1:]:
                if got != ref:
                    acc.violation("path-info:leading-slashes-change-the-split",
                                  f"target {slashes + tail!r} gives (PATH_INFO, QUERY_STRING, SCRIPT_NAME) = {got}, its single-slash form gives {ref}", case)
    for name in (b"X_Auth_User", b"X_Auth-User", b"x-auth_user"):
        for cont in (b"\t(admin)", b" (admin)", b" a\r\n\tb"):
            data = b"GET /u HTTP/1.1\r\nHost: d.example\r\nX-Auth-User: alice\r\n" + name + b": mallory\r\n" + cont + b"\r\nX-After: z\r\n\r\n"
            res = h.run_recorded([data], addr=("127.0.0.1", 50000))
            acc.evaluations += 1
            acc.count("directed:underscore-field-with-continuation")
            case = {"stream": b2s(data), "config": cfg, "unix": bool(unix), "directed": "underscore-fold"}
            if res.exceptions:
                acc.violation("exception:" + res.exceptions[0]["type"], f"exception escaped: {res.exceptions[0]}", case)
                continue
            if not res.calls:
                continue  # refusing the message is acceptable
            env = res.calls[0].environ
            v = env.get("HTTP_X_AUTH_USER")
            if v is not None and v.strip() != "alice":
                acc.violation("header-image-differs:continuation-of-a-dropped-field",
                              f"HTTP_X_AUTH_USER = {v!r}: the continuation of the dropped underscore field joined the field before it", case)
            if env.get("HTTP_X_AFTER") != "z":
                acc.violation("header-image-differs", f"HTTP_X_AFTER = {env.get('HTTP_X_AFTER')!r}", case)


def run_shard(spec):
    acc = Acc()
    rng = random.Random(spec["seed"])
    cfgs = shard_configs(spec.get("shard", 0))
    for cfg, unix in cfgs[spec.get("shard", 0) % 6::12]:
        run_directed(acc, cfg, unix)
    n = spec["n"]
    guard = 0
    for cfg, unix in cfgs[spec.get("shard", 0) % 4::8]:
        run_odd_version(acc, rng, cfg, unix)
    while acc.evaluations < n and guard < n * 4:
        guard += 1
        cfg, unix = rng.choice(cfgs)
        overflow = cfg.get("inbuf_overflow", 524288)
        parts = gen_stream(rng, cfg["url_prefix"], overflow)
        data = b"".join(p[0] for p in parts)
        if unix:
            addr = ("127.0.0.1", 50000)  # replaced by the unix server's fix_addr()
        else:
            addr = (rng.choice(TCP_IPS), rng.randrange(1024, 65536))
        r = rng.random()
        how = "one" if r < 0.7 or len(data) > 6000 else (7 if r < 0.9 or len(data) > 1500 else "bytes")
        lazy = rng.random() < 0.25
        from vf.ref import request as rq

        # generator self-check: the reference must frame the stream the way
        # the generator meant it
        outs = rq.parse_stream(data, MH, MB)
        if len(outs) == len(parts):
            for o, (_b, body, framing) in zip(outs, parts):
                if o.kind == "deliver" and (o.body != body or o.framing != framing) and not (framing == "cl" and not body):
                    acc.count("generator-reference-mismatch")
        run_stream(acc, data, cfg, unix, addr, how, lazy, nreq=len(parts), sample=True)
    if acc.counters.get("generator-reference-mismatch"):
        acc.inconclusive.append("generator and reference parser disagree on the framing of generated requests")
    return acc.out()


def finish(agg, tier, coverage):
    coverage["exhaustive"] = False
    coverage["exhaustive_note"] = "requests, configurations, peers and deliveries are sampled"
    c = agg["counters"]
    skipped = c.get("skipped:not-canonical", 0)
    if skipped > 0.02 * max(1, c.get("streams", 0)):
        coverage["inconclusive"].append(
            f"{skipped} generated streams were not canonical according to the reference parser (generator drift)")
    coverage["unjudged"] = {k: v for k, v in c.items() if k.startswith("unjudged:")}


def replay(case):
    acc = Acc()
    if case.get("directed"):
        run_directed(acc, case["config"], case.get("unix", False))
        return [v for v in acc.violations]
    if case.get("odd_version"):
        m, q, v = (s2b(x) for x in case["odd_version"])
        check_odd_version(acc, s2b(case["stream"]), case["config"], case.get("unix", False), m, q, v)
        return acc.violations
    how = case.get("how", "one")
    run_stream(acc, s2b(case["stream"]), case["config"], case.get("unix", False),
               tuple(case.get("addr") or ("127.0.0.1", 50000)), how, case.get("lazy", False))
    if acc.counters.get("skipped:not-canonical"):
        return []
    return acc.violations


def explain(case):
    from vf.ref import request as rq

    data = s2b(case["stream"])
    outs = rq.parse_stream(data, MH, MB)
    for o in outs:
        print("   EXPECT", o.brief())
    h = harness(case["config"], case.get("unix", False))
    res = h.run_recorded(segment_by(data, case.get("how", "one")), addr=tuple(case.get("addr") or ("127.0.0.1", 50000)),
                         lazy=case.get("lazy", False))
    for c in res.calls:
        env = {k: v for k, v in c.environ.items() if isinstance(v, (str, bool, tuple))}
        print("   CALL", env, "body", c.body[:60], len(c.body))
    print("   WIRE", res.wire[:300], "closed", res.closed, "exc", res.exceptions)
