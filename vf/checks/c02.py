"""C02 -- what the server does with a stream does not depend on how the bytes
were split into reads (metamorphic: every segmentation vs one-piece)."""

import random

from vf import core
from vf.core import Acc, b2s, s2b

ID = "C02"
LEVEL = "exploration"
RULE = (
    "streams from the C01 grammar (valid, single-token-mutated, oversize under tiny limits, pipelined) and streams with "
    "one long element (chunk extension, chunk size, trailer, header value, target, chunk data of 300..4100 bytes) x "
    "segmentations {byte-wise, every single cut, every pair of cuts (<=64 bytes), structural boundaries +-1 (pairs), "
    "random k-cuts, ALL 2^(n-1) segmentations of short streams / of short chunked bodies behind a one-piece head}; the "
    "observation tuple (application calls with content, final statuses, refusal, closed) must equal the one-piece "
    "delivery. distinct = (stream class, kind of segmentation, carry-over states hit)"
)
ASSUMPTIONS = [
    "one recv() of the fake socket returns exactly one prescribed segment (capped by recv_bytes)",
    "an optional 100 Continue is not part of the observation (C19 judges interim responses)",
    "400 vs 413 for a body that is both malformed and over the limit is not distinguished (both allowed by the reference; DESIGN.md 6 O-6)",
]

CONFIGS = [
    {},
    {},
    {"max_request_header_size": 96, "max_request_body_size": 24},
    {"max_request_header_size": 256, "max_request_body_size": 64},
    {"inbuf_overflow": 16},
    {"channel_request_lookahead": 2},
]

SHORT_STREAMS = [
    b"GET /\r\n\r\n",
    b"GET / HTTP/1.1\r\n\r\n",
    b"\r\nGET /a HTTP/1.0\r\n\r\n",
    b"GET / HTTP/1.1\r\n\n",
    b"A /\r\nB:c\r\n\r\n",
    b"G /\r\n\r\nH /\r\n\r\n",
    b"GET /\r\nA: b\r\n c\r\n\r\n",
]
HEAD_CHUNKED = b"POST /p HTTP/1.1\r\nTransfer-Encoding: chunked\r\n\r\n"
HEAD_CL = b"POST /p HTTP/1.1\r\nContent-Length: %d\r\n\r\n"
SHORT_BODIES = [
    b"3\r\nabc\r\n0\r\n\r\n",
    b"1\r\na\r\n1\r\nb\r\n0\r\n\r\n",
    b"2;a\r\nab\r\n0\r\nT: v\r\n\r\n",
    b"2\r\nab\r\n0\r\nT: v\nx\r\n\r\n",
    b"2\r\nabX\r\n0\r\n\r\n",
    b"2\r\nabX\n0\r\n\r\n",
    b"1\r\na\n\n0\r\n\r\n",
    b"1\r\na\r\r\n0\r\n\r\n",
    b"1\r\na\x00\n0\r\n\r\n",
    b"2\n\r\nab\r\n0\r\n\r\n",
    b"0\r\n\r\nGET /\r\n\r\n",
    b"a\r\n0123456789\r\n0\r\n\r\n",
    b"1;a=\"q\"\r\nZ\r\n00\r\n\r\n",
]


def long_streams():
    """streams with one long element (carry-over buffers that grow over many reads)"""
    from vf.gen import requests as G

    for L in (300, 1030, 1100, 2050, 4100):
        ext = b";x=" + b"a" * L
        yield "chunk-ext", L, HEAD_CHUNKED + b"4" + ext + b"\r\ntest\r\n0\r\n\r\n" + G.FOLLOWUP
        yield "last-chunk-ext", L, HEAD_CHUNKED + b"4\r\ntest\r\n0" + ext + b"\r\n\r\n" + G.FOLLOWUP
        yield "chunk-size-zeros", L, HEAD_CHUNKED + b"0" * L + b"4\r\ntest\r\n0\r\n\r\n" + G.FOLLOWUP
        yield "trailer", L, HEAD_CHUNKED + b"4\r\ntest\r\n0\r\nX-T: " + b"v" * L + b"\r\n\r\n" + G.FOLLOWUP
        yield "trailers", L, HEAD_CHUNKED + b"4\r\ntest\r\n0\r\n" + b"".join(b"T%d: v\r\n" % i for i in range(L // 9)) + b"\r\n" + G.FOLLOWUP
        yield "header-lines", L, b"GET /a HTTP/1.1\r\nHost: h\r\n" + b"".join(b"H%d: v\r\n" % i for i in range(L // 9)) + b"\r\n" + G.FOLLOWUP
        yield "empty-chunks", L, HEAD_CHUNKED + b"".join(b"1\r\n%c\r\n" % (97 + i % 26) for i in range(L // 9)) + b"0\r\n\r\n" + G.FOLLOWUP
        yield "header-value", L, b"GET /a HTTP/1.1\r\nHost: h\r\nX-L: " + b"v" * L + b"\r\n\r\n" + G.FOLLOWUP
        yield "target", L, b"GET /" + b"t" * L + b" HTTP/1.1\r\nHost: h\r\n\r\n" + G.FOLLOWUP
        yield "chunk-data", L, HEAD_CHUNKED + b"%x\r\n" % L + b"d" * L + b"\r\n0\r\n\r\n" + G.FOLLOWUP
        yield "cl-body", L, HEAD_CL % L + b"d" * L + G.FOLLOWUP


def required_counters(tier):
    return [
        "long-element-streams",
        "carry:head",
        "carry:control_line",
        "carry:chunk_end",
        "carry:trailer",
        "carry:chunk_remainder",
        "carry:remain",
        "seg:bytewise",
        "seg:single",
        "seg:pair",
        "seg:structural",
        "seg:random",
        "seg:all",
        "obs:calls",
        "obs:refusals",
    ]


def plan(tier, seed):
    specs = []
    nstreams = 1600 if tier == "quick" else 16000
    shards = 32 if tier == "quick" else 96
    per = nstreams // shards
    for i in range(shards):
        specs.append({"mode": "gen", "seed": seed * 7919 + i, "n": per, "nrand": 20 if tier == "quick" else 200})
    # exhaustive families
    maxn = 14 if tier == "quick" else 18
    for si, s in enumerate(SHORT_STREAMS):
        if len(s) <= maxn:
            total = 1 << (len(s) - 1)
            parts = max(1, total // 4096)
            parts = min(parts, 32)
            for p in range(parts):
                specs.append({"mode": "all", "stream": b2s(s), "lo": 0, "part": p, "parts": parts})
    maxb = 14 if tier == "quick" else 21
    for b in SHORT_BODIES:
        if len(b) <= maxb:
            data = HEAD_CHUNKED + b
            total = 1 << (len(b) - 1)
            parts = min(max(1, total // 8192), 64)
            for p in range(parts):
                specs.append({"mode": "all", "stream": b2s(data), "lo": len(HEAD_CHUNKED), "part": p, "parts": parts})
    cl = HEAD_CL % 7 + b"abcdefgGET /\r\n\r\n"
    head_len = len(HEAD_CL % 7)
    if tier != "quick" or True:
        body = cl[head_len:]
        total = 1 << (len(body) - 1)
        parts = min(max(1, total // 8192), 16)
        for p in range(parts):
            specs.append({"mode": "all", "stream": b2s(cl), "lo": head_len, "part": p, "parts": parts})
    nl = len(list(long_streams()))
    for i in range(nl):
        specs.append({"mode": "long", "index": i, "stride": 11 if tier == "quick" else 1})
    return specs


_harnesses = {}


def harness(cfg):
    from vf.sync import SyncHarness

    key = tuple(sorted(cfg.items()))
    h = _harnesses.get(key)
    if h is None:
        h = SyncHarness(clear_untrusted_proxy_headers=False, **cfg)
        _harnesses[key] = h
    return h


def carry_probe(acc_counts):
    from waitress.receiver import ChunkedReceiver, FixedStreamReceiver

    def on_step(ch, conn):
        req = ch.request
        if req is None:
            return
        br = req.body_rcv
        if br is None:
            if req.header_plus:
                acc_counts.add("head")
        elif isinstance(br, ChunkedReceiver):
            if br.control_line:
                acc_counts.add("control_line")
            if br.chunk_end:
                acc_counts.add("chunk_end")
            if br.trailer:
                acc_counts.add("trailer")
            if br.chunk_remainder > 0:
                acc_counts.add("chunk_remainder")
        elif isinstance(br, FixedStreamReceiver):
            if br.remain > 0:
                acc_counts.add("remain")

    return on_step


def allowed_error_statuses(data, cfg):
    from vf.ref import request as rq

    mh = cfg.get("max_request_header_size", 262144)
    mb = cfg.get("max_request_body_size", 1073741824)
    allowed = set()
    for o in rq.parse_stream(data, mh, mb):
        allowed |= set(o.statuses) | set(o.may_refuse)
    return allowed


def normalise(obs, allowed):
    calls, finals, closed, werr, excs, hung = obs
    if len(allowed) > 1:
        finals = tuple("ERR" if s in allowed and s != 200 else s for s in finals)
    return (calls, finals, closed, werr, excs, hung)


def describe_diff(a, b):
    names = ["calls", "statuses", "closed", "wire-unparseable", "exceptions", "hung"]
    for i, n in enumerate(names):
        if a[i] != b[i]:
            if n == "calls":
                if len(a[0]) != len(b[0]):
                    return "calls", f"{len(a[0])} application call(s) one-piece vs {len(b[0])} segmented"
                for x, y in zip(a[0], b[0]):
                    if x != y:
                        for j, part in enumerate(("method", "target", "protocol", "fields", "body")):
                            if x[j] != y[j]:
                                return "calls:" + part, f"{part}: {x[j]!r} vs {y[j]!r}"[:400]
            return n, f"{n}: {a[i]!r} vs {b[i]!r}"[:400]
    return "none", ""


class Runner:
    def __init__(self, acc):
        self.acc = acc

    def baseline(self, data, cfg):
        from vf import oracle

        h = harness(cfg)
        res = h.run_recorded([data])
        self.allowed = allowed_error_statuses(data, cfg)
        self.base = normalise(oracle.observation(res), self.allowed)
        self.acc.count("obs:calls", len(res.calls))
        if any(s != 200 for s in self.base[1]):
            self.acc.count("obs:refusals")
        return self.base

    def check(self, data, cfg, cuts, kind, sclass):
        from vf import oracle
        from vf.gen import segment as S

        acc = self.acc
        h = harness(cfg)
        hits = set()
        segs = S.apply(data, cuts)
        res = h.run_recorded(segs, on_step=carry_probe(hits))
        obs = normalise(oracle.observation(res), self.allowed)
        acc.evaluations += 1
        acc.count("seg:" + kind)
        for c in hits:
            acc.count("carry:" + c)
        acc.distinct.add(sclass + "|" + kind + "|" + ",".join(sorted(hits)))
        if obs != self.base:
            part, what = describe_diff(self.base, obs)
            acc.violation(
                "segmentation-dependent:" + part,
                what + " [carry-over states hit: " + (",".join(sorted(hits)) or "none") + "]",
                {"stream": b2s(data), "config": cfg, "cuts": list(cuts)},
            )
            return False
        return True


def run_shard(spec):
    from vf.gen import requests as G
    from vf.gen import segment as S

    acc = Acc()
    R = Runner(acc)
    if spec["mode"] == "gen":
        rng = random.Random(spec["seed"])
        for _ in range(spec["n"]):
            msgs = G.random_stream(rng, nmsgs=rng.choice([1, 1, 2, 2, 3]))
            label = "valid"
            if rng.random() < 0.6:
                mi = rng.randrange(len(msgs))
                toks = msgs[mi]
                for _try in range(5):
                    muts = G.mutations_for(toks, rng.randrange(len(toks)))
                    if muts:
                        name, nt = rng.choice(muts)
                        if name.endswith("5000-digits"):
                            continue
                        msgs = msgs[:mi] + [nt] + msgs[mi + 1 :]
                        label = "mut:" + name.split(":")[0]
                        break
            data = b"".join(G.render(t) for t in msgs)
            if rng.random() < 0.4:
                data += G.FOLLOWUP
            cfg = rng.choice(CONFIGS)
            if cfg.get("max_request_header_size"):
                label += "/tiny"
            n = len(data)
            if n < 2:
                continue
            R.baseline(data, cfg)
            sclass = label + "/" + G.skeleton(msgs[0]).split("/")[0]
            R.check(data, cfg, S.bytewise(n), "bytewise", sclass)
            for cuts in S.single_cuts(n):
                R.check(data, cfg, cuts, "single", sclass)
            if n <= 64:
                for cuts in S.pair_cuts(n):
                    R.check(data, cfg, cuts, "pair", sclass)
            pts = S.structural(data)
            if len(pts) > 24:
                pts = rng.sample(pts, 24)
                pts.sort()
            for i in range(len(pts)):
                for j in range(i + 1, len(pts)):
                    R.check(data, cfg, (pts[i], pts[j]), "structural", sclass)
            for _k in range(spec["nrand"]):
                cuts = S.random_cuts(rng, n, rng.choice([2, 3, 4, 6, 10]))
                R.check(data, cfg, cuts, "random", sclass)
            if len(acc.samples) < 2:
                acc.sample({"stream": b2s(data)[:200], "config": cfg, "class": sclass,
                            "baseline_statuses": list(R.base[1]), "calls": len(R.base[0])})
    elif spec["mode"] == "long":
        name, L, data = list(long_streams())[spec["index"]]
        n = len(data)
        for cfg in ({}, {"max_request_header_size": 2000, "max_request_body_size": 2000}):
            R.baseline(data, cfg)
            sclass = "long:%s:%d%s" % (name, L, "/tiny" if cfg else "")
            for k in (1, 64, 100, 512, 1000, 1023, 1024, 1025, 2048, 4096):
                R.check(data, cfg, tuple(range(k, n, k)), "bytewise" if k == 1 else "random", sclass + "/fixed")
            near = set()
            for t in (255, 256, 511, 512, 1023, 1024, 1025, 2047, 2048, 2049, 4095, 4096, 4097):
                for base in S.structural(data)[:40]:
                    for d in (-1, 0, 1):
                        if 0 < base + t + d < n:
                            near.add(base + t + d)
            cuts = set(range(1 + spec["index"] % spec["stride"], n, spec["stride"])) | near
            for c in sorted(cuts):
                R.check(data, cfg, (c,), "single", sclass)
        acc.count("long-element-streams")
        acc.sample({"long_element_stream": name, "element_length": L, "stream_length": n})
    else:
        data = s2b(spec["stream"])
        lo = spec["lo"]
        n = len(data)
        total = 1 << (n - lo - 1)
        cfg = {}
        R.baseline(data, cfg)
        for mask in range(spec["part"], total, spec["parts"]):
            cuts = S.nth_segmentation(n, lo, mask)
            R.check(data, cfg, cuts, "all", "short")
        acc.count("exhaustive_streams")
        acc.sample({"stream": b2s(data), "all_segmentations_after_offset": lo, "count": total})
    return acc.out()


def finish(agg, tier, coverage):
    coverage["exhaustive"] = False
    coverage["exhaustive_note"] = (
        "every single cut (and every pair of cuts for streams <= 64 bytes) of each generated stream, and all 2^(n-1) "
        "segmentations of the short streams / short bodies listed in vf/checks/c02.py, are enumerated completely; "
        "random k-cuts are sampled"
    )


def replay(case):
    acc = Acc()
    R = Runner(acc)
    data = s2b(case["stream"])
    R.baseline(data, case["config"])
    R.check(data, case["config"], tuple(case["cuts"]), "replay", "replay")
    return acc.violations


def explain(case):
    from vf import oracle
    from vf.gen import segment as S

    data = s2b(case["stream"])
    h = harness(case["config"])
    a = oracle.observation(h.run_recorded([data]))
    b = oracle.observation(h.run_recorded(S.apply(data, tuple(case["cuts"]))))
    print("   ONE-PIECE ", [c[:3] + (c[4][:30],) for c in a[0]], a[1:])
    print("   SEGMENTED ", [c[:3] + (c[4][:30],) for c in b[0]], b[1:])
    print("   SEGMENTS  ", [x for x in S.apply(data, tuple(case["cuts"]))][:8])
