"""C19 -- Expect: 100-continue is answered correctly and the request is never lost."""

import random

from vf import core
from vf.core import Acc, b2s, s2b

ID = "C19"
LEVEL = "exploration"
RULE = (
    "input part (SyncHarness): pipelines of 1-4 requests mixing {plain, expecting with Content-Length body, expecting "
    "with chunked body, expecting without body, expecting with refused framing, expecting with too-large "
    "Content-Length, HTTP/1.0 with Expect, non-100 Expect values}, as WAITING clients (the body is sent only after a 100 "
    "Continue or a final response for that request was seen) and as non-waiting clients (everything at once), over "
    "one-piece / byte-wise / structural / random segmentations, lookahead {0,1}, eager and lazy worker. Schedule part "
    "(Sim): the worker finishing the preceding request races the I/O thread receiving the expecting head, under "
    "single-pre-emption enumeration, random walk and PCT. Oracle: wire parses; interim responses attributed by "
    "position; at most one per request, none unasked / for HTTP/1.0; never left waiting; every request executed or "
    "refused exactly once with its own fields (reference parser). distinct = (pipeline shape, client kind, segmentation "
    "kind, config) / trace hash"
)
ASSUMPTIONS = [
    "a waiting client is modelled by a pseudo-segment released when the server's output contains the awaited response",
    "vf/ref/request.py gives the per-request field image and refusal verdicts",
]
SHARD_TIMEOUT = {"quick": 600, "thorough": 3000}

KINDS = ["plain", "plain-body", "exp-cl", "exp-chunked", "exp-nobody", "exp-refused", "exp-toolarge", "exp-10", "exp-other", "exp-cl0"]


def required_counters(tier):
    return ["interim:io-thread-path", "interim:worker-path", "expecting:bodyless", "expecting:refused", "waiting-clients",
            "nonwaiting-clients", "calls_compared", "interims_checked", "sim:runs:forced", "sim:runs:forced2", "sim:runs:random", "sim:runs:pct",
            "seg:one", "seg:bytes", "seg:cuts"]


def build_request(kind, idx, rng):
    """-> (head bytes, body bytes, expects(bool: a compliant server owes 100 or final before the body))"""
    path = "/q%d" % idx
    body = bytes((97 + (idx + i) % 26) for i in range(rng.choice([1, 5, 40])))
    if kind == "plain":
        return ("GET %s HTTP/1.1\r\nHost: h\r\nX-I: %d\r\n\r\n" % (path, idx)).encode(), b"", False
    if kind == "plain-body":
        return ("POST %s HTTP/1.1\r\nHost: h\r\nContent-Length: %d\r\nX-I: %d\r\n\r\n" % (path, len(body), idx)).encode(), body, False
    # the expectation is case-insensitive (RFC 9110 10.1.1), and so is the field name
    exp = "%s: %s" % (rng.choice(["Expect", "Expect", "expect", "EXPECT"]), rng.choice(["100-continue", "100-continue", "100-Continue", "100-CONTINUE"]))
    if kind == "exp-cl":
        return ("POST %s HTTP/1.1\r\nHost: h\r\nContent-Length: %d\r\n%s\r\nX-I: %d\r\n\r\n" % (path, len(body), exp, idx)).encode(), body, True
    if kind == "exp-cl0":
        return ("POST %s HTTP/1.1\r\nHost: h\r\nContent-Length: 0\r\nExpect: 100-Continue\r\nX-I: %d\r\n\r\n" % (path, idx)).encode(), b"", False
    if kind == "exp-chunked":
        enc = b"%x\r\n" % len(body) + body + b"\r\n0\r\n\r\n"
        return ("POST %s HTTP/1.1\r\nHost: h\r\nTransfer-Encoding: chunked\r\n%s\r\nX-I: %d\r\n\r\n" % (path, exp, idx)).encode(), enc, True
    if kind == "exp-nobody":
        return ("GET %s HTTP/1.1\r\nHost: h\r\nExpect: 100-continue\r\nX-I: %d\r\n\r\n" % (path, idx)).encode(), b"", False
    if kind == "exp-refused":
        return ("POST %s HTTP/1.1\r\nHost: h\r\nContent-Length: x%d\r\nExpect: 100-continue\r\n\r\n" % (path, idx)).encode(), b"", False
    if kind == "exp-toolarge":
        return ("POST %s HTTP/1.1\r\nHost: h\r\nContent-Length: 999999\r\nExpect: 100-continue\r\n\r\n" % path).encode(), b"", False
    if kind == "exp-10":
        return ("POST %s HTTP/1.0\r\nHost: h\r\nContent-Length: %d\r\nExpect: 100-continue\r\nConnection: keep-alive\r\nX-I: %d\r\n\r\n" % (path, len(body), idx)).encode(), body, False
    if kind == "exp-other":
        return ("POST %s HTTP/1.1\r\nHost: h\r\nContent-Length: %d\r\nExpect: 200-ok\r\nX-I: %d\r\n\r\n" % (path, len(body), idx)).encode(), body, False
    raise ValueError(kind)


CONTINUE = b"HTTP/1.1 100 Continue\r\n\r\n"


def make_segments(parts, waiting, how, rng):
    """parts: [(head, body, expects)]; returns the list of segments (bytes / WaitFor)"""
    from vf.sync import WaitFor
    from vf.gen import segment as S
    from vf.ref import response as rs

    segs = []

    def cut(data):
        if how == "one" or len(data) < 2:
            return [data]
        if how == "bytes":
            return [data[i : i + 1] for i in range(len(data))]
        if how == "structural":
            pts = S.structural(data)
            if len(pts) > 6:
                pts = sorted(rng.sample(pts, 6))
            return S.apply(data, tuple(pts))
        return S.apply(data, S.random_cuts(rng, len(data), rng.choice([1, 2, 4])))

    if not waiting:
        data = b"".join(h + b for h, b, e in parts)
        return cut(data)
    pending = b""
    for i, (h, b, expects) in enumerate(parts):
        pending += h
        if expects and b:
            segs += cut(pending)
            pending = b""

            def pred(sent, i=i):
                # a 100 Continue (beyond those already consumed) or a final response for request i
                r, err, left = rs.parse_responses(sent, ["GET"] * 8, eof=False)
                finals = sum(1 for x in r if not x["interim"] and x.get("complete"))
                # interim responses seen after `i` finals
                seen_finals = 0
                for x in r:
                    if x["interim"]:
                        if seen_finals >= i:
                            return True
                    elif x.get("complete"):
                        seen_finals += 1
                return finals >= i + 1

            segs.append(WaitFor(pred, "request %d" % i))
        pending += b
    if pending:
        segs += cut(pending)
    return segs


def judge_sync(acc, kinds, parts, res, waiting, cfg, case):
    from vf import oracle
    from vf.ref import request as rq
    from vf.ref import response as rs

    def bad(key, what):
        acc.violation(key, what, case)

    full = b"".join(h + b for h, b, e in parts)
    if res.exceptions:
        bad(oracle.exc_key(res.exceptions[0]), f"exception escaped: {res.exceptions[0]}")
        return
    if res.hung:
        bad("hang", "no quiescence")
        return
    methods = [c.environ.get("REQUEST_METHOD") for c in res.calls] + [None, None]
    resps, werr, left = rs.parse_responses(res.wire, methods, eof=res.closed)
    if werr is not None:
        bad("wire-unparseable", f"the client cannot parse the response stream (an interim response inside another response?): {werr}")
        return
    # attribute interim responses by position
    per_req = {}
    nfinal = 0
    for r in resps:
        if r["interim"]:
            per_req[nfinal] = per_req.get(nfinal, 0) + 1
            acc.count("interims_checked")
        else:
            nfinal += 1
    for ri, n in per_req.items():
        kind = kinds[ri] if ri < len(kinds) else None
        if kind is None:
            bad("interim-after-last-request", f"100 Continue after the final response of the last request")
            continue
        if n > 1:
            bad("several-interim-responses", f"request {ri} ({kind}) got {n} interim responses")
        if kind in ("plain", "plain-body", "exp-other"):
            bad("interim-unasked", f"request {ri} ({kind}) did not ask for 100 Continue but got one")
        if kind == "exp-10":
            bad("interim-for-http10", f"HTTP/1.0 request {ri} got a 100 Continue")
    # (1) never left waiting
    if res.waiting_on is not None and not res.closed:
        bad("client-left-waiting", f"the client is still waiting for 100 Continue / a final response for {res.waiting_on}; "
                                    f"wire so far: {len(resps)} responses, closed={res.closed}")
        return
    # (4) every request executed or refused exactly once with its own fields
    expected = rq.parse_stream(full, cfg.get("max_request_header_size", 262144), cfg.get("max_request_body_size", 1073741824))
    v = oracle.judge(full, expected, res)
    acc.count("calls_compared", v.ncalls)
    for key, what in v.violations:
        bad("request-handling:" + key, what)


def run_sync(acc, rng, tier):
    from vf.sync import SyncHarness

    nreq = rng.choice([1, 2, 2, 3, 4])
    kinds = [rng.choice(KINDS) for _ in range(nreq)]
    parts = [build_request(k, i, rng) for i, k in enumerate(kinds)]
    waiting = rng.random() < 0.6
    how = rng.choice(["one", "one", "bytes", "structural", "random"])
    cfg = {"channel_request_lookahead": rng.choice([0, 0, 1]), "max_request_body_size": 5000}
    lazy = rng.random() < 0.4
    case = {"kinds": kinds, "waiting": waiting, "how": how, "cfg": cfg, "lazy": lazy, "seed": rng.random()}
    return kinds, parts, waiting, how, cfg, lazy


_hs = {}


def harness(cfg):
    from vf.sync import SyncHarness

    key = tuple(sorted(cfg.items()))
    if key not in _hs:
        _hs[key] = SyncHarness(clear_untrusted_proxy_headers=False, **cfg)
    return _hs[key]


def run_sync_case(acc, kinds, waiting, how, cfg, lazy, seed):
    rng = random.Random(seed)
    parts = [build_request(k, i, rng) for i, k in enumerate(kinds)]
    segs = make_segments(parts, waiting, how, rng)
    h = harness(cfg)
    res = h.run_recorded(segs, lazy=lazy)
    case = {"part": "sync", "kinds": kinds, "waiting": waiting, "how": how, "cfg": cfg, "lazy": lazy, "seed": seed}
    acc.evaluations += 1
    acc.distinct.add("sync|%s|%s|%s|%s|%s" % (",".join(kinds), waiting, how, cfg.get("channel_request_lookahead"), lazy))
    acc.count("waiting-clients" if waiting else "nonwaiting-clients")
    acc.count("seg:" + {"one": "one", "bytes": "bytes"}.get(how, "cuts"))
    if "exp-nobody" in kinds or "exp-cl0" in kinds:
        acc.count("expecting:bodyless")
    if "exp-refused" in kinds or "exp-toolarge" in kinds:
        acc.count("expecting:refused")
    judge_sync(acc, kinds, parts, res, waiting, cfg, case)
    return res


# ------------------------------------------------------------------ Sim part


def sim_scenarios():
    out = []
    for la in (0, 1):
        for poll in (False, True):
            # the preceding response is large: its worker is still busy when the expecting head arrives
            out.append({"adj": {"threads": 1, "channel_request_lookahead": la, "asyncore_use_poll": poll, "send_bytes": 1}, "sndbuf": 512,
                        "conns": [{"requests": [{"n": 1500, "k": "chunks", "w": 300},
                                                {"m": "POST", "body": 40, "expect": True, "n": 30, "k": "cl"},
                                                {"n": 10, "k": "cl"}], "sndbuf": 512, "waiting": True}]})
            out.append({"adj": {"threads": 2, "channel_request_lookahead": la, "asyncore_use_poll": poll, "send_bytes": 1}, "sndbuf": 2048,
                        "conns": [{"requests": [{"m": "POST", "body": 20, "expect": True, "n": 30, "k": "cl"},
                                                {"m": "POST", "body": 300, "expect": True, "chunked_req": True, "n": 700, "k": "write", "w": 100},
                                                {"n": 10, "k": "cl"}], "sndbuf": 2048, "waiting": True}]})
    return out


def sim_scenarios_small_reads():
    """the expecting head and a few eager body bytes are read in small pieces while the
    preceding request executes (for the two-pre-emption 'service-window' enumeration)"""
    out = []
    for la in (1, 2):
        out.append({"adj": {"threads": 1, "channel_request_lookahead": la, "send_bytes": 1, "recv_bytes": 32}, "sndbuf": 4096,
                    "conns": [{"requests": [{"n": 300, "k": "cl"},
                                            {"m": "POST", "body": 90, "expect": True, "eager": 70, "n": 30, "k": "cl"}],
                               "sndbuf": 4096, "waiting": True, "burst_first": True}]})
    return out


def gen_sim_scenario(rng):
    reqs = []
    for i in range(rng.choice([2, 3, 4])):
        r = {"n": rng.choice([10, 600, 1500]), "k": rng.choice(["cl", "chunks", "write"]), "w": 300}
        if rng.random() < 0.55:
            r["m"] = "POST"
            r["body"] = rng.choice([1, 40, 300])
            r["expect"] = True
            if rng.random() < 0.4:
                r["chunked_req"] = True
            elif rng.random() < 0.4:
                r["eager"] = rng.choice([1, 3, 10])
        reqs.append(r)
    sb = rng.choice([512, 2048])
    adj = {"threads": rng.choice([1, 2]), "channel_request_lookahead": rng.choice([0, 1]),
           "asyncore_use_poll": rng.random() < 0.5, "send_bytes": 1}
    if rng.random() < 0.3:
        adj["recv_bytes"] = rng.choice([16, 32, 64])
    return {"adj": adj, "sndbuf": sb,
            "conns": [{"requests": reqs, "sndbuf": sb, "waiting": rng.random() < 0.75, "pingpong": False}]}


_probe = False


def install_probe():
    global _probe
    if _probe:
        return
    from vf.sim import shim
    import waitress.channel as ch

    orig = ch.HTTPChannel.send_continue

    def send_continue(self, *a, **kw):
        w = shim.W()
        if w is not None:
            t = w.sched.me()
            w.count("interim:worker-path" if (t is not None and t.role == "worker") else "interim:io-thread-path")
        return orig(self, *a, **kw)

    ch.HTTPChannel.send_continue = send_continue
    _probe = True


def judge_sim(scn, o):
    from vf import apps
    from vf.checks import c04
    from vf.ref import response as rs

    out = []
    if o.failed:
        return [("harness:" + o.failed, "run did not finish")]
    res = o.results[0]
    cs = scn["conns"][0]
    reqs = cs["requests"]
    c = res.get("client")
    if c is None:
        return [("harness:client-not-started", "")]
    if "left_waiting" in res or (cs.get("waiting") and not res.get("done") and not c.eof()):
        out.append(("client-left-waiting", f"client waiting for 100 Continue of request {res.get('left_waiting')} at quiescence "
                                           f"({len(c.received)} bytes received)"))
    methods = [r.get("m", "GET") for r in reqs]
    resps, werr, left = rs.parse_responses(c.received, methods, eof=c.eof())
    if werr is not None:
        out.append(("wire-unparseable", f"{werr}"))
        return out
    nfinal = 0
    per = {}
    for r in resps:
        if r["interim"]:
            per[nfinal] = per.get(nfinal, 0) + 1
        else:
            nfinal += 1
    for ri, n in per.items():
        if ri >= len(reqs):
            out.append(("interim-after-last-request", "100 Continue after the last final response"))
        elif not reqs[ri].get("expect"):
            out.append(("interim-unasked", f"request {ri} did not ask for 100 Continue"))
        elif n > 1:
            out.append(("several-interim-responses", f"request {ri} got {n} interim responses"))
    # executions and payloads as in C04
    for k, wht in c04.judge(scn, o):
        if k in ("undelivered-at-quiescence",) and any(x[0] == "client-left-waiting" for x in out):
            continue
        out.append(("request-handling:" + k, wht))
    return out


def run_sim_one(acc, scn, strat, label):
    from vf.sim import runner

    o = runner.run_scenario(scn, strat, trace=True, wall_timeout=120)
    try:
        vs = judge_sim(scn, o)
        acc.evaluations += 1
        acc.count("sim:runs:" + label)
        acc.distinct.add("sim|%08x" % (o.trace_hash & 0xFFFFFFFF))
        for k in ("interim:worker-path", "interim:io-thread-path"):
            if o.counters.get(k):
                acc.count(k)
        acc.count("waiting-clients" if scn["conns"][0].get("waiting") else "nonwaiting-clients")
        for key, what in vs:
            if key.startswith("harness:"):
                acc.inconclusive.append(key)
                continue
            acc.violation(key, what, {"part": "sim", "scn": scn, "strat": strat})
    finally:
        leaked = runner.finish(o)
        if leaked:
            acc.count("leaked_threads", leaked)


def plan(tier, seed):
    specs = []
    for i in range(24 if tier == "quick" else 64):
        specs.append({"mode": "sync", "seed": seed * 1051 + i, "n": 2500 if tier == "quick" else 30000})
    scns = sim_scenarios()
    if tier == "quick":
        scns = [scns[0], scns[3], scns[5]]
    for s in scns:
        for p in range(4):
            specs.append({"mode": "sim-enum", "scn": s, "part": p, "parts": 4, "cap": 350 if tier == "quick" else None})
    for i in range(8 if tier == "quick" else 32):
        specs.append({"mode": "sim-random", "seed": seed * 1061 + i, "n": 120 if tier == "quick" else 1500})
    for s in sim_scenarios_small_reads()[: 1 if tier == "quick" else 2]:
        for p in range(8):
            specs.append({"mode": "sim-enum2", "scn": s, "part": p, "parts": 8, "window": 80 if tier == "quick" else 200})
    allscn = sim_scenarios()
    for s in ([allscn[0]] if tier == "quick" else [allscn[0], allscn[2], allscn[4]]):
        for p in range(8):
            specs.append({"mode": "sim-enum2", "shape": "flush", "scn": s, "part": p, "parts": 8, "window": 25 if tier == "quick" else 80})
    return specs


def run_shard(spec):
    from vf.sim import runner

    acc = Acc()
    if spec["mode"] == "sync":
        rng = random.Random(spec["seed"])
        for _ in range(spec["n"]):
            nreq = rng.choice([1, 2, 2, 3, 4])
            kinds = [rng.choice(KINDS) for _ in range(nreq)]
            waiting = rng.random() < 0.6
            how = rng.choice(["one", "one", "bytes", "structural", "random"])
            cfg = {"channel_request_lookahead": rng.choice([0, 0, 1]), "max_request_body_size": 5000}
            lazy = rng.random() < 0.4
            res = run_sync_case(acc, kinds, waiting, how, cfg, lazy, rng.randrange(1 << 30))
            if len(acc.samples) < 1 and waiting and "exp-cl" in kinds:
                acc.sample({"kinds": kinds, "waiting": waiting, "segmentation": how, "wire": b2s(res.wire)[:300]})
        # the I/O-thread path of send_continue is what the sync part exercises
        acc.count("interim:io-thread-path", acc.counters.get("interims_checked", 0))
    elif spec["mode"] == "sim-enum":
        install_probe()
        scn = spec["scn"]
        o = runner.run_scenario(scn, {"kind": "np"}, pilot=True)
        points = runner.single_preemptions(o.pilot)
        runner.finish(o)
        if spec.get("cap") and len(points) > spec["cap"] * spec["parts"]:
            rr = random.Random(len(points))
            points = sorted(rr.sample(points, spec["cap"] * spec["parts"]))
        for step, tid in points[spec["part"] :: spec["parts"]]:
            run_sim_one(acc, scn, {"kind": "forced", "switches": {str(step): tid}}, "forced")
        acc.sample({"enumerated_scenario": scn, "single_preemptions": len(points)})
    elif spec["mode"] == "sim-enum2":
        install_probe()
        scn = spec["scn"]

        def first(site, cur):
            return isinstance(site, tuple) and site[0] in ("recv", "handle_read", "received", "sock")

        def second(site):
            return isinstance(site, tuple) and site[0] in ("service", "send_continue")

        if spec.get("shape") == "flush":
            # the worker is about to finish the request in front of the expecting one when the I/O thread
            # takes over and is itself interrupted in the middle of flushing output (holding the output lock)
            def first(site, cur):  # noqa: F811
                return isinstance(site, tuple) and site[0] in ("service", "finish", "close")

            def second(site):  # noqa: F811
                return isinstance(site, tuple) and site[0] in ("_flush_some", "_flush_some_if_lockable", "handle_write", "send", "get")

        k = 0
        for sw in runner.double_preemptions(scn, first, window=spec.get("window", 80),
                                            second="other" if spec.get("shape") == "flush" else "target", second_filter=second):
            k += 1
            if k % spec["parts"] != spec["part"]:
                continue
            run_sim_one(acc, scn, {"kind": "forced", "switches": sw}, "forced2")
        acc.sample({"double_preemption_scenario": scn, "schedules": k})
    else:
        install_probe()
        rng = random.Random(spec["seed"])
        for _ in range(spec["n"]):
            scn = gen_sim_scenario(rng)
            if rng.random() < 0.65:
                strat = {"kind": "random", "seed": rng.randrange(1 << 30), "p": rng.choice([0.005, 0.02, 0.1, 0.3])}
                label = "random"
            else:
                strat = {"kind": "pct", "seed": rng.randrange(1 << 30), "d": 3, "len": rng.choice([1500, 4000])}
                label = "pct"
            run_sim_one(acc, scn, strat, label)
    return acc.out()


def finish(agg, tier, coverage):
    coverage["exhaustive"] = False


def replay(case):
    acc = Acc()
    if case.get("part") == "sim":
        install_probe()
        run_sim_one(acc, case["scn"], case["strat"], "replay")
    else:
        run_sync_case(acc, case["kinds"], case["waiting"], case["how"], case["cfg"], case["lazy"], case["seed"])
    return acc.violations
