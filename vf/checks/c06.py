"""C06 -- oversize and malformed input is refused totally: one well-formed
error response, close, no application call, no exception, bounded work."""

import random
import time

from vf import core
from vf.core import Acc, b2s, s2b

ID = "C06"
LEVEL = "exploration"
RULE = (
    "streams = (a) complete boundary sweep: heads of length L for every L in [limit-3, limit+3], limits 24..160, "
    "delivered one-piece / byte-wise / with every single cut; (b) Content-Length values and chunked bodies "
    "straddling max_request_body_size by -1/0/+1; (c) digit strings of 1..6000 digits as Content-Length and chunk "
    "size; (d) unterminated heads, control lines and trailers fed past the limits; (e) C01's mutated sentences under "
    "tiny limits; x recv_bytes in {1, 64, 8192}. Oracle: reference parser + refusal contract (no call, exactly one "
    "parseable 400/413/431/501 response with Connection: close, closed, no recv after the read in which the refusal "
    "became decidable, no exception, step budget) + CPU-scaling monitor (thread CPU time at n, 2n, 4n must not grow "
    "super-linearly); (f) the refusal contract under the threaded server (Sim): a refused message (400 / 413 / 431 / 501) "
    "behind 0-2 normal requests, with a bystander connection, under random-walk / PCT schedules and complete "
    "single-pre-emption neighbourhoods: exactly one complete error response with Connection: close, then EOF, no "
    "execution. distinct = (family, limit class, L-limit offset or mutation, delivery) / trace hash"
)
ASSUMPTIONS = [
    "vf/ref/request.py decides which messages must be refused and with which statuses",
    "channel_request_lookahead=0 (default) for the 'stops consuming' clause; with lookahead k the server may buffer k more requests (DESIGN.md 6 O-2)",
    "CPU-scaling verdicts use time.thread_time() ratios (min of 3 runs) with an absolute floor, never wall-clock deadlines",
]


def required_counters(tier):
    return [
        "status:400", "status:413", "status:431", "status:501",
        "boundary:-3", "boundary:-2", "boundary:-1", "boundary:0", "boundary:1", "boundary:2", "boundary:3",
        "body-boundary:-1", "body-boundary:0", "body-boundary:1",
        "digits:cl", "digits:chunk", "unterminated", "stops-consuming-checked", "probe:exception-monitor",
        "scaling:shapes", "sim:runs:random", "sim:runs:pct", "sim:runs:forced", "sim:status:400", "sim:status:413",
        "sim:status:431", "sim:status:501", "sim:refused-with-response-and-close",
    ]


def plan(tier, seed):
    specs = []
    limits = list(range(24, 161))
    parts = 16 if tier == "quick" else 32
    step = 4 if tier == "quick" else 1
    for p in range(parts):
        specs.append({"mode": "boundary", "limits": limits[p::parts][::step] if tier == "quick" else limits[p::parts]})
    for p in range(8):
        specs.append({"mode": "body", "part": p, "parts": 8})
    for p in range(8):
        specs.append({"mode": "digits", "part": p, "parts": 8, "step": 7 if tier == "quick" else 1})
    for p in range(4):
        specs.append({"mode": "unterminated", "part": p, "parts": 4})
    n = 48 if tier == "quick" else 128
    for i in range(n):
        specs.append({"mode": "gen", "seed": seed * 104729 + i, "n": 1500 if tier == "quick" else 8000})
    specs.append({"mode": "probe"})
    # the refusal contract under the threaded server: every schedule must still produce the error response
    for i in range(8 if tier == "quick" else 32):
        specs.append({"mode": "sim-random", "seed": seed * 7727 + i, "n": 100 if tier == "quick" else 1200})
    for i in range(len(sim_directed())):
        for p_ in range(4):
            specs.append({"mode": "sim-enum", "index": i, "part": p_, "parts": 4, "cap": 250 if tier == "quick" else 3000})
    for i in range(len(SCALING_SHAPES)):
        specs.append({"mode": "scaling", "shape": i})
    return specs


_harnesses = {}


def harness(cfg):
    from vf.sync import SyncHarness

    key = tuple(sorted(cfg.items()))
    h = _harnesses.get(key)
    if h is None:
        h = SyncHarness(clear_untrusted_proxy_headers=False, **cfg)
        _harnesses[key] = h
    return h


def segment_by(data, how):
    if how == "one":
        return [data]
    if how == "bytes":
        return [data[i : i + 1] for i in range(len(data))]
    if isinstance(how, int):
        return [data[i : i + how] for i in range(0, len(data), how)]
    if isinstance(how, (list, tuple)):
        from vf.gen import segment as S

        return S.apply(data, tuple(how))
    raise ValueError(how)


def run_case(acc, data, cfg, how, dkey, family, lazy=None):
    """Run one stream; apply C01's judge and the C06 refusal contract."""
    from vf import oracle
    from vf.ref import request as rq
    from vf.ref import response as rs

    mh = cfg.get("max_request_header_size", 262144)
    mb = cfg.get("max_request_body_size", 1073741824)
    h = harness(cfg)
    segs = segment_by(data, how)
    rb = cfg.get("recv_bytes", 8192)
    if lazy is None:
        lazy = acc.evaluations % 2 == 1
    res = h.run_recorded(segs, lazy=lazy)
    acc.count("schedule:lazy-worker" if lazy else "schedule:eager-worker")
    expected = rq.parse_stream(data, mh, mb)
    v = oracle.judge(data, expected, res)
    acc.evaluations += 1
    acc.distinct.add(dkey)
    case = {"stream": b2s(data) if len(data) < 3000 else None, "gen": family if len(data) >= 3000 else "",
            "config": cfg, "how": how if not isinstance(how, tuple) else list(how), "lazy": lazy}
    for key, what in v.violations:
        acc.violation(key, what, case)
    last = expected[-1] if expected else None
    refused = False
    methods = [c.environ.get("REQUEST_METHOD") for c in res.calls] + [None, None]
    resps, werr, _left = rs.parse_responses(res.wire, methods, eof=res.closed)
    if werr is not None:
        r2 = rs.parse_responses(res.wire, methods[:-2] + ["HEAD", None], eof=res.closed)
        if r2[1] is None:
            resps, werr, _left = r2
    errs = [r for r in resps if r["status"] in oracle.ERR_STATUSES]
    if errs:
        refused = True
        r = errs[-1]
        acc.count("status:%d" % r["status"])
        conn = [v_.lower() for k, v_ in r["headers"] if k.lower() == b"connection"]
        if conn != [b"close"]:
            acc.violation("error-response-without-connection-close", f"error response {r['status']} has Connection={conn}", case)
        if len(errs) > 1:
            acc.violation("several-error-responses", f"{len(errs)} error responses on one connection", case)
        if r is not resps[-1]:
            acc.violation("response-after-error", "a response follows the error response", case)
        if not res.closed:
            acc.violation("refusal-without-close", "error response but connection left open", case)
    # stops consuming: only for mandatory refusals under lookahead 0
    if (last is not None and last.kind == "refuse" and last.decided is not None and refused
            and not cfg.get("channel_request_lookahead")):
        # end of the recv() piece that contains byte decided-1
        pieces = []
        for s in segs:
            for i in range(0, len(s), rb):
                pieces.append(len(s[i : i + rb]))
        end = 0
        allowed = None
        for ln in pieces:
            end += ln
            if end >= last.decided:
                allowed = end
                break
        if allowed is not None:
            acc.count("stops-consuming-checked")
            if res.recv_bytes > allowed:
                acc.violation(
                    "keeps-reading-after-refusal",
                    f"server consumed {res.recv_bytes} bytes; refusal decidable at offset {last.decided}, "
                    f"read containing it ends at {allowed} ({last.reason})",
                    case,
                )
    return expected, res, v


# ------------------------------------------------------------------ families


def head_of_length(L, kind, rng):
    """A syntactically valid head (incl. terminator) of exactly L bytes, L >= 24."""
    base = b"GET / HTTP/1.1\r\n"
    if kind == "one-field":
        # GET / HTTP/1.1 CRLF X: <pad> CRLF CRLF
        fixed = len(base) + len(b"X: ") + 4
        if L < fixed:
            return None
        return base + b"X: " + b"a" * (L - fixed) + b"\r\n\r\n"
    if kind == "many-fields":
        out = base
        i = 0
        while len(out) + 8 + 2 <= L - 2:
            out += b"H%d: v\r\n" % (i % 10)
            i += 1
        rest = L - 2 - len(out)
        if rest < 0:
            return None
        if rest >= 5:
            out += b"Z: " + b"b" * (rest - 5) + b"\r\n"
        elif rest > 0:
            # lengthen the target instead
            out = b"GET /" + b"p" * rest + out[5:]
        return out + b"\r\n"
    if kind == "long-target":
        fixed = len(b"GET / HTTP/1.1\r\n\r\n")
        if L < fixed:
            return None
        return b"GET /" + b"t" * (L - fixed) + b" HTTP/1.1\r\n\r\n"
    raise ValueError(kind)


def run_boundary(acc, spec):
    rng = random.Random(1)
    for limit in spec["limits"]:
        for d in range(-3, 4):
            L = limit + d
            for kind in ("one-field", "many-fields", "long-target"):
                head = head_of_length(L, kind, rng)
                if head is None:
                    continue
                assert len(head) == L, (L, kind, len(head))
                for tail in (b"", b"GET /followup HTTP/1.1\r\n\r\n", b"X" * 40):
                    data = head + tail
                    for rb in (8192, 1, 64):
                        cfg = {"max_request_header_size": limit}
                        if rb != 8192:
                            cfg["recv_bytes"] = rb
                        hows = ["one"]
                        if rb == 8192:
                            hows += ["bytes"] + [(c,) for c in range(max(1, L - 6), min(len(data), L + 3))]
                            if limit % 16 == 0 and tail == b"":
                                hows += [(c,) for c in range(1, len(data))]
                        for how in hows:
                            lim_class = "small" if limit < 64 else "mid"
                            hk = how if isinstance(how, str) else "cut"
                            dkey = f"boundary|{kind}|{lim_class}|{d}|{bool(tail)}|{rb}|{hk}"
                            run_case(acc, data, cfg, how, dkey, "boundary")
                            acc.count("boundary:%d" % d)
        # head without terminator, fed past the limit
        for extra in (-1, 0, 1, 50):
            data = b"GET / HTTP/1.1\r\nX: " + b"a" * max(0, limit + extra - 19)
            for how in ("one", "bytes", 7):
                run_case(acc, data, {"max_request_header_size": limit}, how,
                         f"boundary-unterminated|{extra}|{how}", "boundary-unterminated")
                acc.count("unterminated")
    acc.sample({"family": "boundary", "limits": spec["limits"][:6], "offsets": [-3, 3]})


def run_body(acc, spec):
    cases = []
    for mb in (1, 2, 8, 24, 64, 100, 1000):
        for d in (-1, 0, 1):
            n = mb + d
            if n < 0:
                continue
            cases.append((mb, d, n))
    i = 0
    for mb, d, n in cases:
        i += 1
        if i % spec["parts"] != spec["part"]:
            continue
        body = bytes((65 + k % 26) for k in range(n))
        streams = []
        streams.append(("cl", b"POST /p HTTP/1.1\r\nContent-Length: %d\r\n\r\n" % n + body))
        streams.append(("cl-short", b"POST /p HTTP/1.1\r\nContent-Length: %d\r\n\r\n" % n + body[: n // 2]))
        # chunked: one chunk, many chunks, with extension
        streams.append(("chunk1", b"POST /p HTTP/1.1\r\nTransfer-Encoding: chunked\r\n\r\n%x\r\n" % n + body + b"\r\n0\r\n\r\n" if n else
                        b"POST /p HTTP/1.1\r\nTransfer-Encoding: chunked\r\n\r\n0\r\n\r\n"))
        enc = b"".join(b"1\r\n" + body[k : k + 1] + b"\r\n" for k in range(n)) + b"0\r\n\r\n"
        streams.append(("chunkN", b"POST /p HTTP/1.1\r\nTransfer-Encoding: chunked\r\n\r\n" + enc))
        streams.append(("chunk-noend", b"POST /p HTTP/1.1\r\nTransfer-Encoding: chunked\r\n\r\n%x\r\n" % max(n, 1) + body))
        for name, data in streams:
            for tail in (b"", b"GET /followup HTTP/1.1\r\n\r\n"):
                for rb in (8192, 1, 64):
                    cfg = {"max_request_body_size": mb}
                    if rb != 8192:
                        cfg["recv_bytes"] = rb
                    for how in ("one", "bytes") if rb == 8192 else ("one",):
                        run_case(acc, data + tail, cfg, how, f"body|{name}|{mb}|{d}|{bool(tail)}|{rb}|{how}", "body")
                        acc.count("body-boundary:%d" % d)
    acc.sample({"family": "body", "limits": [1, 2, 8, 24, 64, 100, 1000], "offsets": [-1, 0, 1]})


def run_digits(acc, spec):
    lengths = list(range(1, 30)) + list(range(30, 6001, spec["step"] * 10)) + [4299, 4300, 4301, 5000, 6000]
    lengths = sorted(set(lengths))
    cfg = {"max_request_header_size": 20000, "max_request_body_size": 10**9}
    i = 0
    for n in lengths:
        i += 1
        if i % spec["parts"] != spec["part"]:
            continue
        for lead in (b"", b"0"):
            digs = (lead * (n - 1) + b"7") if lead else (b"1" + b"3" * (n - 1))
            digs = digs[:n] if len(digs) >= n else digs
            data = b"POST /p HTTP/1.1\r\nContent-Length: " + digs + b"\r\n\r\nabcdefg" + b"GET /followup HTTP/1.1\r\n\r\n"
            run_case(acc, data, cfg, "one", f"digits|cl|{min(n, 40)}|{bool(lead)}|{n > 4300}", f"digits-cl:{n}:{b2s(lead)}")
            acc.count("digits:cl")
            hexd = (lead * (n - 1) + b"7") if lead else (b"f" * n)
            data = b"POST /p HTTP/1.1\r\nTransfer-Encoding: chunked\r\n\r\n" + hexd + b"\r\nabcdefg\r\n0\r\n\r\n"
            run_case(acc, data, cfg, "one" if n % 2 else 64, f"digits|chunk|{min(n, 40)}|{bool(lead)}|{n > 4300}", f"digits-chunk:{n}:{b2s(lead)}")
            acc.count("digits:chunk")
    acc.sample({"family": "digits", "lengths": lengths[:10] + lengths[-5:]})


def run_unterminated(acc, spec):
    shapes = [
        ("control-line", b"POST /p HTTP/1.1\r\nTransfer-Encoding: chunked\r\n\r\n", b"f"),
        ("control-line-ext", b"POST /p HTTP/1.1\r\nTransfer-Encoding: chunked\r\n\r\n5;", b"a"),
        ("trailer", b"POST /p HTTP/1.1\r\nTransfer-Encoding: chunked\r\n\r\n0\r\nT: ", b"v"),
        ("trailer-lines", b"POST /p HTTP/1.1\r\nTransfer-Encoding: chunked\r\n\r\n0\r\n", b"T: v\r\n"),
        ("quoted-ext", b'POST /p HTTP/1.1\r\nTransfer-Encoding: chunked\r\n\r\n5;a="', b"\\q"),
        ("chunk-data", b"POST /p HTTP/1.1\r\nTransfer-Encoding: chunked\r\n\r\nffffff\r\n", b"d"),
        ("leading-crlf", b"", b"\r\n"),
    ]
    i = 0
    for name, head, unit in shapes:
        for mb in (16, 100, 1000):
            for over in (-5, 0, 1, 40):
                i += 1
                if i % spec["parts"] != spec["part"]:
                    continue
                total = mb + over
                data = head + unit * (max(0, total) // len(unit) + 1)
                for how in ("one", "bytes", 7):
                    cfg = {"max_request_body_size": mb, "max_request_header_size": 128 if name == "leading-crlf" else 4096}
                    exp, res, v = run_case(acc, data, cfg, how, f"unterminated|{name}|{mb}|{over}|{how}", "unterminated")
                    acc.count("unterminated")
                    # bounded consumption: once the encoded body is past the
                    # limit the server must have refused (it may not wait forever)
                    body_len = len(data) - len(head)
                    if name != "leading-crlf" and body_len >= mb + 32 and not res.wire:
                        acc.violation("unbounded-consumption",
                                      f"{body_len} body bytes consumed under max_request_body_size={mb} without refusal ({name})",
                                      {"stream": b2s(data), "config": cfg, "how": how})
    acc.sample({"family": "unterminated", "shapes": [s[0] for s in shapes]})


def run_gen(acc, spec):
    from vf.gen import requests as G

    rng = random.Random(spec["seed"])
    cfgs = [
        {"max_request_header_size": 96, "max_request_body_size": 24},
        {"max_request_header_size": 128, "max_request_body_size": 8, "recv_bytes": 1},
        {"max_request_header_size": 200, "max_request_body_size": 64, "recv_bytes": 64},
        {},
        {"recv_bytes": 64},
        {"channel_request_lookahead": 2, "max_request_body_size": 24},
    ]
    while acc.evaluations < spec["n"]:
        msgs = G.random_stream(rng)
        mi = rng.randrange(len(msgs))
        toks = msgs[mi]
        name = "sentence"
        for _ in range(4):
            muts = G.mutations_for(toks, rng.randrange(len(toks)))
            if muts:
                name, nt = rng.choice(muts)
                msgs = msgs[:mi] + [nt] + msgs[mi + 1 :]
                break
        data = b"".join(G.render(t) for t in msgs)
        if rng.random() < 0.5:
            data += G.FOLLOWUP
        cfg = rng.choice(cfgs)
        how = rng.choice(["one", "one", "bytes", 7])
        lim = "tiny" if "max_request_header_size" in cfg else "default"
        run_case(acc, data, cfg, how, f"gen|{G.skeleton(msgs[mi])}|{name}|{lim}|{how}", "gen")
    acc.sample({"family": "gen", "seed": spec["seed"]})


def run_probe(acc):
    """The exception monitor must see an exception raised inside received()."""
    from vf import sync
    from waitress.parser import HTTPRequestParser

    orig = HTTPRequestParser.received

    def boom(self, data):
        raise RuntimeError("vf-probe")

    HTTPRequestParser.received = boom
    try:
        h = harness({})
        res = h.run_recorded([b"GET / HTTP/1.1\r\n\r\n"])
    finally:
        HTTPRequestParser.received = orig
    acc.evaluations += 1
    acc.distinct.add("probe")
    if res.exceptions and res.exceptions[0]["type"] == "RuntimeError":
        acc.count("probe:exception-monitor")
    else:
        acc.inconclusive.append("exception monitor did not observe a planted exception")


# ------------------------------------------------------------- CPU scaling

SCALING_SHAPES = [
    ("header-sp-run", lambda n: b"GET / HTTP/1.1\r\nX:" + b" " * n + b"v\r\n\r\n"),
    ("header-tab-run-bad", lambda n: b"GET / HTTP/1.1\r\nX:" + b"\t" * n + b"\x01\r\n\r\n"),
    ("header-sp-vchar", lambda n: b"GET / HTTP/1.1\r\nX: " + b"a " * (n // 2) + b"\r\n\r\n"),
    ("header-trailing-sp", lambda n: b"GET / HTTP/1.1\r\nX: v" + b" " * n + b"\r\n\r\n"),
    ("header-name-long", lambda n: b"GET / HTTP/1.1\r\n" + b"N" * n + b": v\r\n\r\n"),
    ("many-fields", lambda n: b"GET / HTTP/1.1\r\n" + b"A: b\r\n" * (n // 6) + b"\r\n"),
    ("many-folds", lambda n: b"GET / HTTP/1.1\r\nA: b\r\n" + b" c\r\n" * (n // 4) + b"\r\n"),
    ("target-long", lambda n: b"GET /" + b"a" * n + b" HTTP/1.1\r\n\r\n"),
    ("target-colons", lambda n: b"GET " + b"a:" * (n // 2) + b" HTTP/1.1\r\n\r\n"),
    ("target-slashes", lambda n: b"GET //" + b"/" * n + b" HTTP/1.1\r\n\r\n"),
    ("te-commas", lambda n: b"POST / HTTP/1.1\r\nTransfer-Encoding: " + b"," * n + b"chunked\r\n\r\n0\r\n\r\n"),
    ("cl-digits", lambda n: b"POST / HTTP/1.1\r\nContent-Length: " + b"0" * n + b"3\r\n\r\nabc"),
    ("chunk-ext-long", lambda n: b"POST / HTTP/1.1\r\nTransfer-Encoding: chunked\r\n\r\n3" + b";a=b" * (n // 4) + b"\r\nabc\r\n0\r\n\r\n"),
    ("chunk-ext-quoted", lambda n: b'POST / HTTP/1.1\r\nTransfer-Encoding: chunked\r\n\r\n3;a="' + b"\\q" * (n // 2) + b'"\r\nabc\r\n0\r\n\r\n'),
    ("chunk-ext-quoted-bad", lambda n: b'POST / HTTP/1.1\r\nTransfer-Encoding: chunked\r\n\r\n3;a="' + b"q" * n + b"\r\nabc\r\n0\r\n\r\n"),
    ("chunk-size-zeros", lambda n: b"POST / HTTP/1.1\r\nTransfer-Encoding: chunked\r\n\r\n" + b"0" * n + b"3\r\nabc\r\n0\r\n\r\n"),
    ("trailer-long", lambda n: b"POST / HTTP/1.1\r\nTransfer-Encoding: chunked\r\n\r\n0\r\nT:" + b" " * n + b"v\r\n\r\n"),
    ("trailer-many", lambda n: b"POST / HTTP/1.1\r\nTransfer-Encoding: chunked\r\n\r\n0\r\n" + b"T: v\r\n" * (n // 6) + b"\r\n"),
    ("leading-crlf", lambda n: b"\r\n" * (n // 2) + b"GET / HTTP/1.1\r\n\r\n"),
    ("many-chunks", lambda n: b"POST / HTTP/1.1\r\nTransfer-Encoding: chunked\r\n\r\n" + b"1\r\na\r\n" * (n // 6) + b"0\r\n\r\n"),
    # long elements that do NOT match in the end (a regular expression that backtracks shows only on failure)
    ("rline-authority-bad-version", lambda n: b"GET a://" + b"b" * n + b" HTTP/1.1X\r\n\r\n"),
    ("rline-authority-digits-bad", lambda n: b"GET a://" + b"1" * n + b" x\r\n\r\n"),
    ("rline-authority-colons-bad", lambda n: b"GET a://" + b"b:1" * (n // 3) + b" HTTP/1.1 \r\n\r\n"),
    ("rline-path-bad-version", lambda n: b"GET /" + b"a" * n + b" HTTP/1.1X\r\n\r\n"),
    ("rline-schemes-bad", lambda n: b"GET " + b"a://" * (n // 4) + b" HTTP/1.\r\n\r\n"),
    ("rline-method-long-bad", lambda n: b"G" * n + b"\x01 / HTTP/1.1\r\n\r\n"),
    ("header-name-long-bad", lambda n: b"GET / HTTP/1.1\r\n" + b"N" * n + b"\x01: v\r\n\r\n"),
    ("header-value-bad-end", lambda n: b"GET / HTTP/1.1\r\nX: " + b"v" * n + b"\x00\r\n\r\n"),
    ("header-value-ws-bad-end", lambda n: b"GET / HTTP/1.1\r\nX: " + b"v \t" * (n // 3) + b"\x00\r\n\r\n"),
    ("chunk-size-hex-bad", lambda n: b"POST / HTTP/1.1\r\nTransfer-Encoding: chunked\r\n\r\n" + b"f" * n + b"g\r\nabc\r\n0\r\n\r\n"),
    ("chunk-ext-long-bad", lambda n: b"POST / HTTP/1.1\r\nTransfer-Encoding: chunked\r\n\r\n3" + b";a=b" * (n // 4) + b";=\r\nabc\r\n0\r\n\r\n"),
    ("cl-digits-bad", lambda n: b"POST / HTTP/1.1\r\nContent-Length: " + b"0" * n + b"x\r\n\r\nabc"),
    ("te-list-bad", lambda n: b"POST / HTTP/1.1\r\nTransfer-Encoding: " + b"a, " * (n // 3) + b"\x01\r\n\r\n"),
    ("trailer-long-bad", lambda n: b"POST / HTTP/1.1\r\nTransfer-Encoding: chunked\r\n\r\n0\r\nT:" + b" " * n + b"\x01\r\n\r\n"),
]


def run_scaling(acc, spec):
    name, make = SCALING_SHAPES[spec["shape"]]
    cfg = {"max_request_header_size": 10**7, "max_request_body_size": 10**8}
    h = harness(cfg)
    sizes = (8000, 32000)

    def cost(n):
        data = make(n)
        best = None
        for _ in range(3):
            t0 = time.thread_time()
            h.run_recorded([data])
            dt = time.thread_time() - t0
            best = dt if best is None else min(best, dt)
        return best

    # first a probe of the same shape at 200 and 1000 bytes in a child process with a CPU-time limit: a
    # parser that needs more than 60 s of CPU for 1 kB does not terminate in any useful sense (an
    # exponential regular expression); the limit is CPU seconds of the child, not wall-clock time
    import subprocess
    import sys as _sys

    code = ("import resource,sys; resource.setrlimit(resource.RLIMIT_CPU,(60,65)); "
            "from vf import core; core.use_waitress(); from vf.checks import c06; "
            "name, make = c06.SCALING_SHAPES[%d]; h = c06.harness(%r); "
            "[h.run_recorded([make(n)]) for n in (200, 1000)]; print('probe-ok')" % (spec["shape"], cfg))
    pr = subprocess.run([_sys.executable, "-c", code], cwd=core.ROOT, stdout=subprocess.PIPE, stderr=subprocess.PIPE,
                        env=dict(__import__("os").environ, PYTHONHASHSEED="0", PYTHONDONTWRITEBYTECODE="1"))
    acc.evaluations += 1
    if b"probe-ok" not in pr.stdout:
        if pr.returncode < 0:
            acc.violation("parsing-does-not-terminate:" + name,
                          f"parsing a {name} input of at most 1000 bytes used more than 60 s of CPU (child ended by signal {-pr.returncode})",
                          {"shape": name, "sizes": [200, 1000]})
        else:
            acc.inconclusive.append("harness: scaling probe child failed: " + pr.stderr.decode("utf-8", "replace")[-300:])
        return
    t1 = cost(sizes[0])
    t4 = cost(sizes[1])
    acc.evaluations += 2
    acc.distinct.add("scaling|" + name)
    acc.count("scaling:shapes")
    ratio = t4 / max(t1, 1e-6)
    acc.maxi("scaling_ratio_4x:" + name, round(ratio, 2))
    acc.maxi("scaling_cpu_s_32k:" + name, round(t4, 4))
    if t4 > 0.25 and ratio > 9.0:
        acc.violation(
            "superlinear-cpu:" + name,
            f"parsing cost grows super-linearly: {sizes[0]} bytes -> {t1:.3f}s CPU, {sizes[1]} bytes -> {t4:.3f}s CPU "
            f"(x{ratio:.1f} for x4 input) on the I/O thread",
            {"shape": name, "sizes": list(sizes)},
        )
    acc.sample({"family": "scaling", "shape": name, "cpu_s": [round(t1, 4), round(t4, 4)]})


# ---------------------------------------------------------------- refusal under the threaded server (Sim)

SIM_REFUSALS = {
    "400": ({}, "POST /bad HTTP/1.1\r\nHost: h\r\nContent-Length: x\r\n\r\n", (400,)),
    "431": ({"max_request_header_size": 200}, "GET /big HTTP/1.1\r\nHost: h\r\nX-Pad: " + "p" * 220 + "\r\n\r\n", (431,)),
    "413": ({"max_request_body_size": 50}, "POST /body HTTP/1.1\r\nHost: h\r\nContent-Length: 51\r\n\r\n" + "b" * 51, (413,)),
    "501": ({}, "POST /te HTTP/1.1\r\nHost: h\r\nTransfer-Encoding: gzip\r\n\r\n", (501,)),
}


def sim_scenario(kind, pre, lookahead, threads, poll, sndbuf, bystander, pieces=None):
    adj_extra, raw, statuses = SIM_REFUSALS[kind]
    adj = dict({"threads": threads, "channel_request_lookahead": lookahead, "asyncore_use_poll": poll, "send_bytes": 1}, **adj_extra)
    reqs = [dict(r) for r in pre] + [{"raw": raw, "refused": True}]
    c0 = {"requests": reqs, "sndbuf": sndbuf, "read_to_eof": True}
    if pieces:
        c0["pieces"] = pieces
    conns = [c0]
    if bystander:
        conns.append({"requests": [{"n": 30, "k": "cl"}, {"n": 700, "k": "write", "w": 100}], "sndbuf": sndbuf, "pingpong": True,
                      "delay": bystander})
    return {"adj": adj, "sndbuf": sndbuf, "conns": conns, "m_index": len(pre), "kind": kind}


def sim_gen(rng):
    kind = rng.choice(sorted(SIM_REFUSALS))
    sndbuf = rng.choice([512, 4096])
    pre = []
    for _ in range(rng.choice([0, 1, 1, 2])):
        pre.append({"n": rng.choice([5, 300, sndbuf + 200, 3 * sndbuf]), "k": rng.choice(["cl", "write", "gen"]), "w": 512})
    pieces = None
    if rng.random() < 0.3:
        pieces = sorted(rng.sample(range(1, 200), 2))
    return sim_scenario(kind, pre, rng.choice([0, 0, 1, 2]), rng.choice([1, 1, 2]), rng.random() < 0.4, sndbuf,
                        rng.choice([0, 0.001, 0.01, 0.2]), pieces)


def sim_directed():
    out = []
    for kind in ("400", "431", "413", "501"):
        out.append(sim_scenario(kind, [{"n": 1400, "k": "write", "w": 300}], 0, 1, False, 512, 0.001))
    out.append(sim_scenario("400", [], 0, 1, True, 512, 0.001))
    out.append(sim_scenario("431", [{"n": 40, "k": "cl"}], 1, 2, False, 4096, 0.001))
    return out


def sim_judge(scn, o):
    from vf.ref import response as rs

    out = []
    if o.failed:
        return [("harness:" + o.failed, "run did not finish: " + o.failed)]
    w = o.world
    if not w.io_alive():
        out.append(("io-thread-died", "the I/O loop thread ended: " + getattr(w, "loop_error", "?")))
    for t in w.sched.threads:
        if t.exc is not None and t.role in ("worker", "io"):
            out.append(("thread-raised:" + t.role, f"{t.name}: {t.exc!r}"))
    res = o.results[0]
    c = res.get("client")
    if c is None:
        return out + [("harness:client-not-started", "")]
    cid = res["cid"]
    m = scn["m_index"]
    kind = scn["kind"]
    allowed = SIM_REFUSALS[kind][2]
    reqs = scn["conns"][0]["requests"]
    entered = [idx for step, cc, idx, what in o.log.events if what == "enter" and cc == cid]
    if any(i >= m for i in entered):
        out.append(("refused-request-executed:" + kind, f"the refused message reached the application (executions {entered})"))
    resps, werr, left = rs.parse_responses(c.received, [r.get("m", "GET") for r in reqs], eof=c.eof())
    finals = [r for r in resps if not r["interim"]]
    if len(finals) <= m or not finals[m].get("complete"):
        how = "closed without a response" if c.eof() else "client left waiting"
        out.append(("refusal-without-response:" + kind,
                    f"no complete error response for the refused message ({how}; {len(finals)} response(s) on the wire, expected {m + 1}; {werr})"))
    else:
        r = finals[m]
        if r["status"] not in allowed:
            out.append(("refusal-wrong-status:" + kind, f"status {r['status']} for a message that must be refused with {allowed}"))
        if [v.lower() for k, v in r["headers"] if k.lower() == b"connection"] != [b"close"]:
            out.append(("refusal-without-connection-close:" + kind, f"error response headers {r['headers']}"))
        if len(finals) > m + 1 or (werr and left):
            out.append(("bytes-after-refusal:" + kind, f"{len(finals)} responses / stray bytes after the error response: {werr}"))
        if not c.eof():
            out.append(("not-closed-after-refusal:" + kind, "the connection stayed open after the error response"))
    # the bystander is served
    if len(scn["conns"]) > 1:
        rb = o.results[1]
        if not rb.get("done"):
            out.append(("bystander-disturbed", "the other connection did not get its responses"))
    return out


def sim_run_one(acc, scn, strat, label):
    from vf.sim import runner

    o = runner.run_scenario(scn, strat, trace=False, wall_timeout=120)
    try:
        vs = sim_judge(scn, o)
        acc.evaluations += 1
        acc.count("sim:runs:" + label)
        acc.count("sim:status:" + scn["kind"])
        acc.distinct.add("sim|%08x" % (o.trace_hash & 0xFFFFFFFF))
        if not vs:
            acc.count("sim:refused-with-response-and-close")
        for key, what in vs:
            if key.startswith("harness:"):
                acc.inconclusive.append(f"{key}: {what} [{strat}]")
                continue
            acc.violation(key, what, {"sim_scn": scn, "strat": strat})
    finally:
        leaked = runner.finish(o)
        if leaked:
            acc.count("leaked_threads", leaked)


def run_sim(acc, spec):
    from vf.sim import runner

    if spec["mode"] == "sim-random":
        rng = random.Random(spec["seed"])
        for _ in range(spec["n"]):
            scn = sim_gen(rng)
            if rng.random() < 0.6:
                strat = {"kind": "random", "seed": rng.randrange(1 << 30), "p": rng.choice([0.02, 0.1, 0.3])}
                label = "random"
            else:
                strat = {"kind": "pct", "seed": rng.randrange(1 << 30), "d": 3, "len": rng.choice([1500, 4000])}
                label = "pct"
            sim_run_one(acc, scn, strat, label)
        acc.sample({"family": "sim", "example": sim_gen(random.Random(spec["seed"]))})
    else:
        scn = sim_directed()[spec["index"]]
        o = runner.run_scenario(scn, {"kind": "np"}, pilot=True)
        points = runner.single_preemptions(o.pilot)
        runner.finish(o)
        if spec.get("cap") and len(points) > spec["cap"] * spec["parts"]:
            points = sorted(random.Random(len(points)).sample(points, spec["cap"] * spec["parts"]))
            acc.count("sim:enum_capped")
        for step, tid in points[spec["part"] :: spec["parts"]]:
            sim_run_one(acc, scn, {"kind": "forced", "switches": {str(step): tid}}, "forced")
        acc.sample({"family": "sim-enum", "scenario": scn, "single_preemptions": len(points)})


def run_shard(spec):
    acc = Acc()
    mode = spec["mode"]
    if mode.startswith("sim"):
        run_sim(acc, spec)
        return acc.out()
    if mode == "boundary":
        run_boundary(acc, spec)
    elif mode == "body":
        run_body(acc, spec)
    elif mode == "digits":
        run_digits(acc, spec)
    elif mode == "unterminated":
        run_unterminated(acc, spec)
    elif mode == "gen":
        run_gen(acc, spec)
    elif mode == "probe":
        run_probe(acc)
    elif mode == "scaling":
        run_scaling(acc, spec)
    return acc.out()


def finish(agg, tier, coverage):
    coverage["exhaustive"] = False
    coverage["exhaustive_note"] = (
        "the head-length boundary sweep (every L in [limit-3, limit+3] for the limits listed, three head shapes, three "
        "tails, one-piece / byte-wise / cuts around the boundary) is enumerated completely"
        + (" for every limit in 24..160" if tier == "thorough" else " for every 4th limit in 24..160")
        + "; generated streams are sampled"
    )


def replay(case):
    acc = Acc()
    if "shape" in case:
        idx = [i for i, s in enumerate(SCALING_SHAPES) if s[0] == case["shape"]][0]
        run_scaling(acc, {"shape": idx})
        return acc.violations
    if "sim_scn" in case:
        sim_run_one(acc, case["sim_scn"], case["strat"], "replay")
        return acc.violations
    if case.get("stream") is None:
        return []
    how = case["how"]
    if isinstance(how, list):
        how = tuple(how)
    run_case(acc, s2b(case["stream"]), case["config"], how, "replay", "replay", lazy=case.get("lazy", False))
    return acc.violations


def explain(case):
    from vf.checks import c01

    if case.get("stream"):
        c01.explain({"stream": case["stream"], "config": case["config"]})
