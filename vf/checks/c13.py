"""C13 -- client faults are contained; teardown happens once, on the I/O thread only."""

import errno
import random

from vf import core
from vf.core import Acc

ID = "C13"
LEVEL = "fault_enumeration"
RULE = (
    "base scenarios (2-3 connections, pipelined requests, a response larger than the send buffer, a file_wrapper "
    "response, an expecting request, a reader that silently stalls in mid-response, log_socket_errors off, an IPv6 "
    "listener, a bystander connection) are run fault-free to list every socket call; then EVERY "
    "placement of one fault from {ECONNRESET, EPIPE, ENOTCONN, EBADF, EINVAL, ETIMEDOUT, ENOBUFS, FIN, RST, full close, DEAD = "
    "this and every later call of the kind fails with ETIMEDOUT and the socket polls ready with the error pending} on "
    "every recv / send / accept and on the getsockopt / setsockopt / setblocking calls made while a connection is set up "
    "is executed, under the non-pre-emptive schedule plus random-walk schedules; pairs of faults are sampled. Monitors: "
    "thread of every socket close and socket-map mutation, close count per connection, listener still registered, "
    "thread liveness, probe connection served, bystander stream intact, buffers of closed channels closed. "
    "distinct = (scenario, fault placement(s), schedule)"
)
ASSUMPTIONS = [
    "the Sim's socket model decides which errno a real kernel would return only in the sense that every listed errno is tried at every call",
    "a fault on a set-up call may leave the accepted socket to the garbage collector (not judged as a leak)",
]
SHARD_TIMEOUT = {"quick": 600, "thorough": 3000}

ERRNOS = [errno.ECONNRESET, errno.EPIPE, errno.ENOTCONN, errno.EBADF, errno.EINVAL, errno.ETIMEDOUT, errno.ENOBUFS]
SPECIAL = ["FIN", "RST", "CLOSE"]


def required_counters(tier):
    need = ["faults-injected", "fault-surfaced-in:worker", "fault-surfaced-in:io", "probe-served", "bystander-intact",
            "placements:recv", "placements:send", "placements:accept", "placements:getsockopt", "placements:setsockopt",
            "placements:setblocking", "pairs", "closed-once", "urgent-data-runs"]
    return need


BASES = [
    {"adj": {"threads": 2, "channel_request_lookahead": 1, "send_bytes": 1}, "sndbuf": 1024,
     "conns": [
         {"requests": [{"n": 3000, "k": "write", "w": 700}, {"n": 1500, "k": "fw"}, {"n": 20, "k": "cl"}], "sndbuf": 1024},
         {"requests": [{"n": 30, "k": "cl"}, {"m": "POST", "body": 200, "expect": True, "n": 900, "k": "gen", "w": 300}], "sndbuf": 1024,
          "waiting": True},
         {"requests": [{"n": 100, "k": "cl"}, {"n": 700, "k": "gen", "w": 100}], "sndbuf": 1024, "delay": 0.5},
     ], "bystander": 2},
    {"adj": {"threads": 1, "channel_request_lookahead": 0, "send_bytes": 1, "asyncore_use_poll": True, "outbuf_high_watermark": 512}, "sndbuf": 512,
     "conns": [
         {"requests": [{"n": 2000, "k": "gen", "w": 400}, {"n": 10, "k": "cl", "close": True}], "sndbuf": 512},
         {"requests": [{"n": 50, "k": "cl"}], "sndbuf": 512, "delay": 0.2},
     ], "bystander": 1},
    # a file-backed output buffer above a small watermark, pipelined: between two requests the worker
    # tests the backlog without the lock (service loop) while the I/O thread may tear the channel down
    {"adj": {"threads": 1, "channel_request_lookahead": 0, "send_bytes": 1, "outbuf_high_watermark": 512}, "sndbuf": 512,
     "conns": [
         {"requests": [{"n": 1500, "k": "fw"}, {"n": 700, "k": "write", "w": 300}, {"n": 10, "k": "cl", "close": True}], "sndbuf": 512},
         {"requests": [{"n": 50, "k": "cl"}], "sndbuf": 512, "delay": 0.2},
     ], "bystander": 1},
    # a client that silently stops reading in mid-response (no FIN, no RST) while the only worker produces
    # more than the socket takes: the worker must come back for the other connection
    {"adj": {"threads": 1, "channel_request_lookahead": 0, "send_bytes": 1}, "sndbuf": 512,
     "conns": [
         {"requests": [{"n": 4000, "k": "write", "w": 1000}], "sndbuf": 512, "reader": {"mode": "stall", "after": 300, "resume": "never"}},
         {"requests": [{"n": 50, "k": "cl"}, {"n": 700, "k": "gen", "w": 100}], "sndbuf": 512, "delay": 0.2},
     ], "bystander": 1},
    # an expecting request on a quiet connection: its 100 Continue is written from received() on the I/O
    # thread itself (under requests_lock), so a failing send tears the channel down from in there
    {"adj": {"threads": 1, "channel_request_lookahead": 0, "send_bytes": 1}, "sndbuf": 1024,
     "conns": [
         {"requests": [{"m": "POST", "body": 200, "expect": True, "n": 100, "k": "cl"}, {"n": 10, "k": "cl", "close": True}], "sndbuf": 1024,
          "waiting": True},
         {"requests": [{"n": 50, "k": "cl"}, {"n": 300, "k": "gen", "w": 100}], "sndbuf": 1024, "delay": 0.2},
     ], "bystander": 1},
    # TCP urgent data: one out-of-band byte before, inside and after a request (nothing ever reads it)
    {"adj": {"threads": 1, "channel_request_lookahead": 0, "send_bytes": 1}, "sndbuf": 1024, "fault_free": True,
     "conns": [
         {"requests": [{"n": 100, "k": "cl"}, {"n": 10, "k": "cl"}], "sndbuf": 1024, "plan": [[0, "oob", 0]], "read_to_eof": True},
         {"requests": [{"n": 50, "k": "cl"}, {"n": 300, "k": "gen", "w": 100}], "sndbuf": 1024, "delay": 0.2},
     ], "bystander": 1},
    {"adj": {"threads": 1, "channel_request_lookahead": 0, "send_bytes": 1, "asyncore_use_poll": True}, "sndbuf": 1024, "fault_free": True,
     "conns": [
         {"requests": [{"n": 100, "k": "cl"}, {"n": 10, "k": "cl"}], "sndbuf": 1024, "plan": [[30, "oob", 0]], "read_to_eof": True},
         {"requests": [{"n": 50, "k": "cl"}], "sndbuf": 1024, "delay": 0.2},
     ], "bystander": 1},
    {"adj": {"threads": 1, "channel_request_lookahead": 0, "send_bytes": 1}, "sndbuf": 1024, "fault_free": True,
     "conns": [
         {"requests": [{"n": 100, "k": "cl"}], "sndbuf": 1024, "plan": [[10000, "oob", 0]], "read_to_eof": True},
         {"requests": [{"n": 50, "k": "cl"}], "sndbuf": 1024, "delay": 0.2},
     ], "bystander": 1},
    # urgent data and a FIN in the same poll round: the read pass tears the channel down, the
    # exceptional pass must cope with its descriptor having left the map
    {"adj": {"threads": 1, "channel_request_lookahead": 0, "send_bytes": 1}, "sndbuf": 1024, "fault_free": True,
     "conns": [
         {"requests": [], "sndbuf": 1024, "plan": [[0, "oob", 0]], "then_close": True},
         {"requests": [{"n": 50, "k": "cl"}], "sndbuf": 1024, "delay": 0.2},
     ], "bystander": 1},
    # errors are not to be logged (log_socket_errors off): containment must not depend on the logging switch
    {"adj": {"threads": 1, "channel_request_lookahead": 1, "send_bytes": 1, "log_socket_errors": False, "outbuf_high_watermark": 512}, "sndbuf": 512,
     "conns": [
         {"requests": [{"n": 1200, "k": "gen", "w": 400}, {"n": 10, "k": "cl", "close": True}], "sndbuf": 512, "pieces": [40, 90]},
         {"requests": [{"n": 50, "k": "cl"}], "sndbuf": 512, "delay": 0.2},
     ], "bystander": 1},
    # an IPv6 listener: accept() hands over 4-tuple peer addresses (set-up faults must be contained
    # whatever the shape of the address); only the set-up and accept placements are run for this one
    {"adj": {"threads": 1, "channel_request_lookahead": 0, "send_bytes": 1}, "sndbuf": 1024, "peer_family": "inet6", "setup_only": True,
     "conns": [
         {"requests": [{"n": 300, "k": "cl"}, {"n": 20, "k": "cl", "close": True}], "sndbuf": 1024},
         {"requests": [{"n": 50, "k": "cl"}], "sndbuf": 1024, "delay": 0.2},
     ], "bystander": 1},
]


class CallRecorder:
    def __init__(self):
        self.calls = []

    def on_sockcall(self, conn, op, n):
        self.calls.append((conn.cid, op, n))


def run(scn, strat, faults, record=False):
    from vf.sim import runner as R
    from vf.sim import scenario as SC

    scn = dict(scn)
    scn["faults"] = dict(faults)
    rec = CallRecorder()
    chans = []
    probe = {}

    def setup(w, results, log):
        if record:
            w.monitors.append(rec)

        class ChanTracker:
            def on_map_change(self, m, op, k, v):
                if op == "set" and type(v).__name__ == "HTTPChannel":
                    chans.append(v)

        w.monitors.append(ChanTracker())

        def prober():
            w.sleep(40.0)
            c = w.connect(sndbuf=4096)
            hd, body = SC.request_bytes(c.conn.cid, 0, {"n": 25, "k": "cl", "close": True})
            # the target carries the real cid so the payload can be checked
            c.send(hd + body)
            from vf.ref import response as rs

            c.wait(lambda cl: any(x.get("complete") and not x["interim"] for x in rs.parse_responses(cl.received, ["GET"], eof=False)[0]), timeout=20.0)
            probe["received"] = c.received
            probe["cid"] = c.conn.cid

        w.actor(prober, name="prober")

    o = R.run_scenario(scn, strat, setup=setup, infinite_poll=True, wall_timeout=120)
    o.rec = rec
    o.chans = chans
    o.probe = probe
    return o


def judge(scn, o, faults, acc):
    from vf import apps
    from vf.ref import response as rs

    out = []
    if o.failed:
        return [("harness:" + o.failed, "run did not finish")]
    w = o.world
    injected = sum(v for k, v in o.counters.items() if k.startswith("fault-injected:"))
    acc.count("faults-injected", injected)
    for k in ("fault-surfaced-in:worker", "fault-surfaced-in:io"):
        if o.counters.get(k):
            acc.count(k)
    # ---- the loop and the workers are alive, the listener is still there
    if not w.io_alive():
        out.append(("io-thread-died", "the I/O loop ended: " + getattr(w, "loop_error", "?")))
    if getattr(o, "reason", None) == "spinning" or o.counters.get("clock-advances-while-spinning"):
        out.append(("io-loop-spins", "the I/O loop turns without any event in the world (a busy loop: every pass finds the same "
                    "descriptor ready and nothing is done about it)"))
    dead = [t.name for t in w.worker_threads if t.state == "done"]
    if dead:
        out.append(("worker-died", f"worker thread(s) {dead} ended"))
    for t in w.sched.threads:
        if t.exc is not None and t.role in ("worker", "io"):
            out.append(("thread-raised:" + t.role, f"{t.name}: {t.exc!r}"))
    for l in w.net.listeners:
        if l.closed:
            out.append(("listener-closed", f"listening socket closed by {l.close_threads}"))
        elif l.fileno() not in w.map:
            out.append(("listener-unregistered", "listening socket no longer in the socket map"))
    pr = o.probe.get("received", b"")
    resps, err, _ = rs.parse_responses(pr, ["GET"], eof=True)
    if resps and resps[0]["status"] == 200 and not apps.check_ident_payload(resps[0]["body"], o.probe.get("cid", 0), 0) and len(resps[0]["body"]) == 25:
        acc.count("probe-served")
    else:
        out.append(("probe-not-served", f"a connection made after the fault was not served: {pr[:60]!r}"))
    # ---- who closes sockets and mutates the map
    for c in w.net.conns:
        bad = [r for r in c.close_threads if r != "io"]
        if bad:
            out.append(("socket-closed-by-" + bad[0].split(":")[0], f"conn {c.cid}: close() called from {c.close_threads}"))
        if c.server_close_calls > 1:
            out.append(("socket-closed-twice", f"conn {c.cid}: close() called {c.server_close_calls} times by {c.close_threads}"))
        if c.server_close_calls == 1:
            acc.count("closed-once")
    for op, k, typ, role in w.map_mutations:
        if role not in ("io", "controller"):
            out.append(("map-mutated-by-" + role.split(":")[0], f"socket map {op} of fd {k} ({typ}) by {role}"))
            break
    # ---- faulted connections are torn down, their buffers released
    targets = set(k[0] for k in faults if isinstance(k[0], int))
    for ch in o.chans:
        sock_conn = None
        for c in w.net.conns:
            if c.server_sock is not None and c.server_sock is getattr(ch, "_vf_sock", None):
                sock_conn = c
        closed = ch.socket is None
        if closed:
            for b in ch.outbufs:
                f = None
                inner = getattr(b, "buf", None)
                if inner is not None:
                    f = getattr(inner, "file", None)
                elif hasattr(b, "file"):
                    f = b.file
                if f is not None and hasattr(f, "closed") and not f.closed:
                    out.append(("buffer-not-released", "an output buffer of a closed channel is still open"))
                    break
    for ch in o.chans:
        if ch.socket is None and not ch.connected:
            # (bytes counted on a torn-down channel are not judged here: the worker's end-of-service
            # 100 Continue lands in the dead channel's in-memory buffer and is collected with it)
            for t in w.sched.threads:
                if t.role == "worker" and t.state == "blocked" and t.blocked_on and t.blocked_on[0] == "cond" \
                        and t.blocked_on[1] == id(ch.outbuf_lock):
                    out.append(("worker-lost-on-closed-channel", f"{t.name} still waits for buffer space of a channel that has been torn down"))
    for cid in targets:
        if cid >= len(w.net.conns):
            continue
        c = w.net.conns[cid]
        # a client that reset / closed the connection: the server side must be gone by the end
        gone = any(k[0] == cid and v in ("RST", "CLOSE") for k, v in faults.items())
        dead = any(k[0] == cid and isinstance(v, str) and v.startswith("DEAD:") for k, v in faults.items())
        if dead and injected and c.accepted and not c.server_closed and getattr(w.net, "faults_from", {}):
            out.append(("dead-connection-not-torn-down", f"conn {cid}: every {[k[1] for k in faults][0]}() fails ({faults}) but the server side is still open at the end"))
        if gone and injected and c.accepted and not c.server_closed and (c.client_rst or c.client_closed):
            out.append(("dead-connection-not-torn-down", f"conn {cid}: client gone ({faults}) but the server side is still open at quiescence"))
    # ---- bystander
    b = scn.get("bystander")
    if b is not None and b not in targets and not any(k[0] == ("L", 0) for k in faults):
        res = o.results[b]
        c = res.get("client")
        reqs = scn["conns"][b]["requests"]
        ok = bool(c) and res.get("done")
        if ok:
            rr, err, _ = rs.parse_responses(c.received, [r.get("m", "GET") for r in reqs], eof=c.eof())
            finals = [x for x in rr if not x["interim"]]
            ok = err is None and len(finals) == len(reqs) and all(
                apps.check_ident_payload(x["body"], res["cid"], i) is None and len(x["body"]) == reqs[i]["n"] for i, x in enumerate(finals))
        if ok:
            acc.count("bystander-intact")
        else:
            out.append(("bystander-disturbed", f"connection {b} (no fault) did not get its responses: done={res.get('done')}"))
    return out


def placements(calls, nconn_targets):
    """fault placements from the recorded fault-free calls"""
    out = []
    seen = set()
    for cid, op, n in calls:
        if (cid, op, n) in seen or cid not in nconn_targets:
            continue
        seen.add((cid, op, n))
        if op in ("recv", "send"):
            for e in ERRNOS:
                out.append(((cid, op, n), e))
            out.append(((cid, op, n), "RST"))
            out.append(((cid, op, n), "CLOSE"))
            # the peer vanished without FIN / RST: this call and every later one of its kind fail
            out.append(((cid, op, n), "DEAD:%d" % errno.ETIMEDOUT))
            if op == "recv":
                out.append(((cid, op, n), "FIN"))
        elif op in ("getsockopt", "setsockopt", "setblocking") and n == 0:
            for e in (errno.ECONNRESET, errno.EINVAL, errno.EBADF, errno.ENOTCONN):
                out.append(((cid, op, n), e))
    return out


def fkey(k):
    return "%s:%s:%s" % ("L%d" % k[0][1] if isinstance(k[0], tuple) else k[0], k[1], k[2])


def plan(tier, seed):
    specs = []
    parts = 16 if tier == "quick" else 32
    for b in range(len(BASES)):
        for p in range(parts):
            specs.append({"mode": "single", "base": b, "part": p, "parts": parts, "schedules": 2 if tier == "quick" else 4,
                          "stride": 1, "seed": seed})
    for p in range(8 if tier == "quick" else 32):
        specs.append({"mode": "pairs", "seed": seed * 1039 + p, "n": 200 if tier == "quick" else 1500})
    # single-pre-emption neighbourhood of schedules around a client disconnect
    nb = 16 if tier == "quick" else 64
    for p in range(nb):
        specs.append({"mode": "fault-enum", "part": p, "parts": nb, "cap": 60 if tier == "quick" else 400, "seed": seed})
    return specs


def run_one(acc, scn, strat, faults, dkey):
    o = run(scn, strat, {fkey(k): v for k, v in faults.items()})
    try:
        vs = judge(scn, o, faults, acc)
        acc.evaluations += 1
        acc.distinct.add(dkey)
        for key, what in vs:
            if key.startswith("harness:"):
                acc.inconclusive.append(key + " " + dkey)
                continue
            acc.violation(key, what, {"scn": scn, "strat": strat, "faults": [[list(k) if not isinstance(k[0], tuple) else [list(k[0]), k[1], k[2]], v] for k, v in faults.items()]})
        return o, vs
    finally:
        from vf.sim import runner as R

        leaked = R.finish(o)
        if leaked:
            acc.count("leaked_threads", leaked)


def run_shard(spec):
    from vf.sim import runner as R

    acc = Acc()
    if spec["mode"] == "single":
        scn = BASES[spec["base"]]
        o = run(scn, {"kind": "np"}, {}, record=True)
        calls = list(o.rec.calls)
        naccept = o.world.net.listeners[0].accept_calls
        R.finish(o)
        targets = [i for i in range(len(scn["conns"])) if i != scn.get("bystander")]
        pl = placements(calls, targets)
        for n in range(naccept):
            for e in (errno.ECONNABORTED, errno.EMFILE, errno.ENOTCONN, errno.EINVAL, errno.ECONNRESET):
                pl.append(((("L", 0), "accept", n), e))
        if scn.get("setup_only"):
            pl = [x for x in pl if x[0][1] in ("getsockopt", "setsockopt", "setblocking", "accept")]
        if scn.get("fault_free"):
            # the client behaviour itself is the hostile part: no injected fault, a handful of schedules
            if spec["part"] == 0:
                for sch in range(6):
                    strat = {"kind": "np"} if sch == 0 else {"kind": "random", "seed": 77 + sch, "p": [0.02, 0.1, 0.3][sch % 3]}
                    run_one(acc, scn, strat, {}, f"{spec['base']}|no-fault|{sch}")
                    acc.count("urgent-data-runs")
            pl = []
        rng = random.Random(spec["seed"] + spec["part"])
        mine = pl[spec["part"] :: spec["parts"]]
        for i, (k, v) in enumerate(mine):
            if spec["stride"] > 1 and k[1] in ("recv", "send") and isinstance(v, int) and (i + spec["seed"]) % spec["stride"]:
                continue
            for sch in range(spec["schedules"]):
                strat = {"kind": "np"} if sch == 0 else {"kind": "random", "seed": i * 13 + sch, "p": [0.02, 0.1, 0.3][sch % 3]}
                run_one(acc, scn, strat, {k: v}, f"{spec['base']}|{fkey(k)}|{v}|{sch}")
                acc.count("placements:" + k[1])
        acc.sample({"base": spec["base"], "fault_free_socket_calls": len(calls), "placements": len(pl)})
    elif spec["mode"] == "fault-enum":
        # for each client-disconnect placement on a send of the watermark scenario: the pilot
        # schedule with that fault, then every single pre-emption of it (capped)
        k = 0
        todo = []
        for scn in (BASES[1], BASES[2]):
            o = run(scn, {"kind": "np"}, {}, record=True)
            todo += [(scn,) + c for c in o.rec.calls if c[0] == 0 and c[1] == "send"]
            R.finish(o)
        for scn, cid, op, n in todo:
            for kind in ("CLOSE", "RST", errno.ETIMEDOUT):
                k += 1
                if k % spec["parts"] != spec["part"]:
                    continue
                faults = {(cid, op, n): kind}
                o = R.run_scenario(dict(scn, faults={fkey(kk): v for kk, v in faults.items()}), {"kind": "np"}, pilot=True)
                points = R.single_preemptions(o.pilot)
                workers = {t.tid for t in o.world.sched.threads if t.role == "worker"}
                # every pre-emption of a worker inside the channel's service loop / its blocking flush
                # (where it tests the channel's state before taking the lock), the rest sampled
                focus = set()
                for step, tids, site, cur in o.pilot:
                    name = str(site[0]) if site else ""
                    if cur in workers and name in ("service", "_flush_outbufs_below_high_watermark"):
                        focus.update((step, t) for t in tids)
                    # ... and of the I/O thread inside the teardown (a producer it has just woken may run
                    # before the teardown is complete)
                    if cur not in workers and name in ("handle_close", "close", "del_channel"):
                        focus.update((step, t) for t in tids if t in workers)
                R.finish(o)
                acc.count("fault-enum-focus-points", len(focus))
                rng = random.Random(spec["seed"] * 31 + k)
                rest = [pt for pt in points if pt not in focus]
                if len(rest) > spec["cap"]:
                    rest = rng.sample(rest, spec["cap"])
                points = sorted(focus | set(rest))
                for step, tid in points:
                    run_one(acc, scn, {"kind": "forced", "switches": {str(step): tid}}, faults, f"fe|{BASES.index(scn)}|{fkey((cid, op, n))}|{kind}|{step}|{tid}")
                    acc.count("fault-enum-runs")
    else:
        rng = random.Random(spec["seed"])
        for _ in range(spec["n"]):
            b = rng.choice([0, 1, 2, 3, 4, 9])  # (the urgent-data and set-up-only bases are not used for fault pairs)
            scn = BASES[b]
            targets = [i for i in range(len(scn["conns"])) if i != scn.get("bystander")]
            faults = {}
            for _k in range(2):
                cid = rng.choice(targets)
                op = rng.choice(["recv", "send", "send", "send"])
                faults[(cid, op, rng.randrange(0, 6))] = rng.choice(ERRNOS + ["RST", "CLOSE"])
            strat = {"kind": "random", "seed": rng.randrange(1 << 30), "p": rng.choice([0.02, 0.1])}
            run_one(acc, scn, strat, faults, f"pair|{b}|{sorted((fkey(k), str(v)) for k, v in faults.items())}|{strat['seed']}")
            acc.count("pairs")
    return acc.out()


def finish(agg, tier, coverage):
    coverage["exhaustive"] = tier == "thorough"
    coverage["exhaustive_note"] = (
        "every single-fault placement over the socket calls of the base scenarios is executed in the thorough tier (4 "
        "schedules each); the quick tier executes every placement of the special faults and set-up faults and every 2nd errno placement"
    )


def replay(case):
    acc = Acc()
    faults = {}
    for k, v in case["faults"]:
        k0 = tuple(k[0]) if isinstance(k[0], list) else k[0]
        faults[(k0, k[1], k[2])] = v
    run_one(acc, case["scn"], case["strat"], faults, "replay")
    return acc.violations
