"""C14 -- worker pool: every task runs exactly once or is cancelled exactly once."""

import random

from vf import core
from vf.core import Acc

ID = "C14"
LEVEL = "exploration"
RULE = (
    "the real ThreadedTaskDispatcher with scheduler-aware threads: m in 1..3 submitter actors each submitting 1..5 "
    "uniquely numbered tasks (plain, follow-up submitting, blocking on a scenario event, raising Exception / "
    "BaseException), n in 1..3 workers, 0..3 set_thread_count calls up and down, shutdown(cancel_pending in "
    "{True,False}) at a random point with its 5 s timeout on the virtual clock; schedules: random walk, PCT and complete "
    "single-pre-emption neighbourhoods. Checked on the recorded history: conservation (serviced once / cancelled once / "
    "still queued, never two), FIFO hand-over (pop order == append order), no task queued next to an idle worker whenever "
    "the virtual clock has to advance, worker count after resize / shutdown. "
    "distinct = trace hash"
)
ASSUMPTIONS = [
    "the dispatcher's deque is replaced by a recording subclass so pops are logged under the dispatcher's own lock",
    "tasks submitted after shutdown() was called are only required not to be duplicated",
]
SHARD_TIMEOUT = {"quick": 600, "thorough": 3000}


def required_counters(tier):
    return ["runs:random", "runs:pct", "runs:forced", "pop-raced-stop", "shutdown-found-queued", "followup-during-shutdown",
            "tasks:serviced", "tasks:cancelled", "tasks:still-queued", "resize-up", "resize-down", "cancel_pending:true",
            "cancel_pending:false", "task-raised", "fifo-checked", "flood-tasks", "late-resize-runs"]


def gen_scenario(rng):
    subs = []
    tid = 0
    for s in range(rng.choice([1, 2, 3])):
        tasks = []
        for _ in range(rng.choice([1, 2, 3, 5])):
            kind = rng.choice(["plain", "plain", "plain", "spawn", "block", "raise", "raise-base"])
            tasks.append({"id": tid, "kind": kind})
            tid += 1
        subs.append({"tasks": tasks, "delay": rng.choice([0, 0, 0.01, 1.0]), "gap": rng.choice([0, 0, 0.5])})
    resizes = []
    for _ in range(rng.choice([0, 0, 1, 2, 3])):
        resizes.append({"at": rng.choice([0, 0.005, 0.5, 1.5, 3.0]), "n": rng.choice([0, 1, 2, 3, 4])})
    scn = {
        "workers": rng.choice([1, 2, 3]),
        "submitters": subs,
        "resizes": resizes,
        "shutdown": {"at": rng.choice([0, 0.004, 0.7, 2.0, 6.0]), "cancel_pending": rng.random() < 0.5} if rng.random() < 0.8 else None,
        "release_at": rng.choice([0.3, 4.0, 20.0]),
    }
    return scn


DIRECTED = [
    {"workers": 2, "submitters": [{"tasks": [{"id": 0, "kind": "plain"}, {"id": 1, "kind": "spawn"}, {"id": 2, "kind": "plain"}], "delay": 0, "gap": 0},
                                  {"tasks": [{"id": 3, "kind": "block"}, {"id": 4, "kind": "plain"}], "delay": 0, "gap": 0}],
     "resizes": [{"at": 0, "n": 1}], "shutdown": {"at": 0, "cancel_pending": True}, "release_at": 0.3},
    {"workers": 1, "submitters": [{"tasks": [{"id": 0, "kind": "spawn"}, {"id": 1, "kind": "raise-base"}, {"id": 2, "kind": "plain"}, {"id": 3, "kind": "plain"}], "delay": 0, "gap": 0}],
     "resizes": [{"at": 0, "n": 3}, {"at": 0, "n": 0}], "shutdown": {"at": 0.5, "cancel_pending": False}, "release_at": 0.3},
]


class Hist:
    def __init__(self):
        self.ev = []

    def add(self, *e):
        self.ev.append(e)


def run_scenario(scn, strat):
    """-> (hist, world, info)"""
    from collections import deque

    from vf.sim import runner as R
    from vf.sim import shim
    from vf.sim.world import World
    from waitress.task import ThreadedTaskDispatcher

    hist = Hist()
    w = World(None, strategy=R.make_strategy(strat), start_server=False, infinite_poll=False, step_limit=200000)
    s = w.sched

    class RecDeque(deque):
        def append(self, x):
            hist.add("append", s.steps, getattr(x, "id", None))
            deque.append(self, x)

        def popleft(self):
            x = deque.popleft(self)
            hist.add("pop", s.steps, getattr(x, "id", None), w.thread_role())
            return x

    disp = ThreadedTaskDispatcher()
    # a recording subclass of the dispatcher's own deque, with the same bound (if any)
    disp.queue = RecDeque(disp.queue, getattr(disp.queue, "maxlen", None))
    events = {}
    next_id = [1000]
    info = {"shutdown_called_step": None, "shutdown_returned": None, "last_resize": scn["workers"], "shutdown_result": None}

    class Task:
        def __init__(self, tid, kind):
            self.id = tid
            self.kind = kind

        def service(self):
            hist.add("service", s.steps, self.id, w.thread_role())
            if self.kind == "spawn":
                nid = next_id[0]
                next_id[0] += 1
                t = Task(nid, "plain")
                hist.add("submit", s.steps, nid, "followup", info["shutdown_called_step"] is not None)
                disp.add_task(t)
                hist.add("submitted", s.steps, nid)
            elif self.kind == "block":
                ev = events.setdefault(self.id, shim.Event())
                ev.wait()
            elif self.kind == "raise":
                raise RuntimeError("task %d" % self.id)
            elif self.kind == "raise-base":
                raise KeyboardInterrupt("task %d" % self.id)
            hist.add("service-done", s.steps, self.id)

        def cancel(self):
            hist.add("cancel", s.steps, self.id, w.thread_role())

    def submitter(spec):
        if spec["delay"]:
            w.sleep(spec["delay"])
        for t in spec["tasks"]:
            hist.add("submit", s.steps, t["id"], "actor", info["shutdown_called_step"] is not None)
            if t["kind"] == "block":
                events.setdefault(t["id"], shim.Event())
            disp.add_task(Task(t["id"], t["kind"]))
            hist.add("submitted", s.steps, t["id"])
            if spec["gap"]:
                w.sleep(spec["gap"])
            else:
                s.yield_point(("actor", "submit"))

    def resizer():
        for r in sorted(scn["resizes"], key=lambda r: r["at"]):
            if r["at"] > s.now - 1000000.0:
                w.sleep(max(0, r["at"] - (s.now - 1000000.0)))
            if info["shutdown_called_step"] is not None and not r.get("after_shutdown"):
                return
            if r.get("after_shutdown"):
                # a resize of a pool whose shutdown() has returned (timed out or not): wait for that
                w.wait_until(lambda: info["shutdown_returned"] is not None, timeout=30.0)
            disp.set_thread_count(r["n"])
            hist.add("resize", s.steps, r["n"])
            if r.get("after_shutdown"):
                hist.add("resize-after-shutdown", s.steps, r["n"])
            info["last_resize"] = r["n"]

    def shutter():
        sd = scn["shutdown"]
        if sd["at"]:
            w.sleep(sd["at"])
        info["shutdown_called_step"] = s.steps
        hist.add("shutdown-call", s.steps, sd["cancel_pending"], len(disp.queue))
        t_call = s.now
        r = disp.shutdown(cancel_pending=sd["cancel_pending"], timeout=5)
        info["shutdown_returned"] = s.steps
        info["shutdown_result"] = r
        # shutdown() may return with workers still running only after its full timeout
        info["shutdown_elapsed"] = s.now - t_call
        info["threads_at_shutdown_return"] = sorted(disp.threads)
        hist.add("shutdown-return", s.steps, r)

    def releaser():
        w.sleep(scn["release_at"])
        for ev in list(events.values()):
            ev.set()
        # late blockers
        w.sleep(30.0)
        for ev in list(events.values()):
            ev.set()

    def idle_probe(sched):
        # every thread is blocked and only a timer can wake one: a task still queued next to a worker
        # that waits for work (no stop pending, no shutdown) was not handed over
        if info["shutdown_called_step"] is not None or disp.stop_count or not disp.queue:
            return
        idle = [t.name for t in sched.threads if t.role == "worker" and t.state == "blocked" and t.blocked_on
                and t.blocked_on[0] == "cond" and t.blocked_on[1] == id(disp.queue_cv)]
        if idle:
            hist.add("starved", sched.steps, [getattr(t, "id", None) for t in disp.queue], idle)

    s.on_clock_advance = idle_probe
    # as create_server does: the pool is sized before anything is submitted
    disp.set_thread_count(scn["workers"])
    for i, sp in enumerate(scn["submitters"]):
        w.actor(submitter, sp, name="submitter%d" % i)
    if scn["resizes"]:
        w.actor(resizer, name="resizer")
    if scn.get("shutdown"):
        w.actor(shutter, name="shutdown")
    w.actor(releaser, name="releaser")
    reason = w.run(60)
    info["reason"] = reason
    info["disp"] = disp
    return hist, w, info


def judge(scn, hist, w, info):
    out = []
    if w.failed:
        return [("harness:" + w.failed, "run did not finish")]
    disp = info["disp"]
    submitted = {}
    sd_step0 = info["shutdown_called_step"]
    order_append = []
    order_pop = []
    serviced = {}
    cancelled = {}
    for e in hist.ev:
        if e[0] == "submit":
            submitted[e[2]] = {"by": e[3], "after_shutdown_call": True}
        elif e[0] == "submitted":
            # "submitted before shutdown" = add_task() had returned before shutdown() was called
            if e[2] in submitted:
                submitted[e[2]]["after_shutdown_call"] = sd_step0 is not None and e[1] >= sd_step0
        elif e[0] == "append":
            order_append.append(e[2])
        elif e[0] == "pop":
            order_pop.append(e[2])
        elif e[0] == "service":
            serviced[e[2]] = serviced.get(e[2], 0) + 1
        elif e[0] == "cancel":
            cancelled[e[2]] = cancelled.get(e[2], 0) + 1
    queued = [getattr(t, "id", None) for t in disp.queue]
    sd = scn.get("shutdown")
    sd_step = info["shutdown_called_step"]
    resized_during_shutdown = sd_step is not None and any(e[0] == "resize" and e[1] >= sd_step for e in hist.ev)
    if info["shutdown_returned"] is not None and any(e[0] == "resize-after-shutdown" for e in hist.ev):
        # the pool was given a size again after shutdown() had returned: it must converge to that size
        alive_now = [t for t in w.sched.threads if t.role == "worker" and t.state != "done"]
        want = info["last_resize"]
        if len(alive_now) != want:
            out.append(("resize-after-shutdown-did-not-converge",
                        f"{len(alive_now)} handler threads alive at quiescence, {want} requested after shutdown() had returned "
                        f"(threads={disp.threads}, stop_count={disp.stop_count})"))
    if resized_during_shutdown:
        # set_thread_count() racing with / after shutdown() legitimately restarts
        # workers: the post-shutdown clauses are not judged for such histories
        sd = None
    for tid, meta in submitted.items():
        ns, nc, nq = serviced.get(tid, 0), cancelled.get(tid, 0), queued.count(tid)
        if ns > 1:
            out.append(("task-serviced-twice", f"task {tid} serviced {ns} times"))
        if nc > 1:
            out.append(("task-cancelled-twice", f"task {tid} cancelled {nc} times"))
        if ns and nc:
            out.append(("task-run-and-cancelled", f"task {tid} both serviced and cancelled"))
        if (ns or nc) and nq:
            out.append(("task-finished-but-still-queued", f"task {tid}"))
        if tid not in order_append:
            # add_task did not return (blocked forever?) -- only if the submitter is stuck
            continue
        if ns + nc + nq == 0:
            out.append(("task-lost", f"task {tid} (submitted by {meta['by']}) neither serviced, cancelled nor queued at the end"))
        if nq and not (ns or nc):
            if sd and sd["cancel_pending"] and not meta["after_shutdown_call"] and info["shutdown_returned"] is not None:
                out.append(("task-left-queued-after-cancelling-shutdown", f"task {tid} still queued although shutdown(cancel_pending=True) returned"))
            elif not scn.get("shutdown") and info["last_resize"] > 0:
                out.append(("task-never-handed-over", f"task {tid} still queued at quiescence with {info['last_resize']} workers requested"))
    for e in hist.ev:
        if e[0] == "starved":
            out.append(("task-queued-next-to-idle-worker",
                        f"tasks {e[2]} stayed queued while worker(s) {e[3]} waited for work (nothing but a timer could change that)"))
            break
    if sd and info["shutdown_returned"] is not None and info.get("threads_at_shutdown_return") and info.get("shutdown_elapsed", 9) < 4.9:
        out.append(("shutdown-returned-before-workers-stopped",
                    f"shutdown() returned after {info['shutdown_elapsed']:.2f}s of its 5s timeout with worker(s) {info['threads_at_shutdown_return']} still registered"))
    # FIFO hand-over
    if order_pop != order_append[: len(order_pop)]:
        out.append(("handover-not-fifo", f"pop order {order_pop} vs append order {order_append}"))
    # worker count
    alive = [t for t in w.sched.threads if t.role == "worker" and t.state != "done"]
    if sd and info["shutdown_returned"] is not None:
        if alive:
            out.append(("worker-alive-after-shutdown", f"{len(alive)} handler thread(s) alive at quiescence after shutdown: {[t.name for t in alive]}"))
        if disp.threads:
            out.append(("thread-set-not-empty-after-shutdown", f"threads={disp.threads} stop_count={disp.stop_count}"))
    elif not scn.get("shutdown"):
        want = info["last_resize"]
        if len(alive) != want:
            out.append(("resize-did-not-converge", f"{len(alive)} handler threads alive, {want} requested (threads={disp.threads}, stop_count={disp.stop_count})"))
        if len(disp.threads) - disp.stop_count != want:
            out.append(("resize-accounting", f"len(threads)-stop_count = {len(disp.threads) - disp.stop_count} != {want}"))
    for t in w.sched.threads:
        if t.exc is not None:
            out.append(("thread-died:" + t.role, f"{t.name} raised {t.exc!r}"))
    return out


def run_one(acc, scn, strat, label):
    hist, w, info = run_scenario(scn, strat)
    try:
        vs = judge(scn, hist, w, info)
        acc.evaluations += 1
        acc.count("runs:" + label)
        acc.distinct.add("%08x" % (w.sched.trace_hash & 0xFFFFFFFF))
        ev = hist.ev
        ns = sum(1 for e in ev if e[0] == "service")
        nc = sum(1 for e in ev if e[0] == "cancel")
        acc.count("tasks:serviced", ns)
        acc.count("tasks:cancelled", nc)
        acc.count("tasks:still-queued", len(info["disp"].queue))
        acc.count("fifo-checked", sum(1 for e in ev if e[0] == "pop"))
        if any(e[0] == "service" and False for e in ev):
            pass
        if any(e[0] == "submit" and e[3] == "followup" and e[4] for e in ev):
            acc.count("followup-during-shutdown")
        for e in ev:
            if e[0] == "shutdown-call":
                acc.count("cancel_pending:" + ("true" if e[2] else "false"))
                if e[3] > 0:
                    acc.count("shutdown-found-queued")
            if e[0] == "resize":
                acc.count("resize-up" if e[2] >= scn["workers"] else "resize-down")
        if any(e[0] == "service" for e in ev) and any(k.startswith("contended:task.py") for k in w.counters):
            if info["shutdown_called_step"] is not None or scn["resizes"]:
                acc.count("pop-raced-stop")
        if sum(1 for e in ev if e[0] == "service") > sum(1 for e in ev if e[0] == "service-done"):
            acc.count("task-raised")
        for key, what in vs:
            if key.startswith("harness:"):
                acc.inconclusive.append(f"{key} [{strat}]")
                continue
            acc.violation(key, what, {"scn": scn, "strat": strat})
        return hist, w, info, vs
    finally:
        leaked = w.close()
        if leaked:
            acc.count("leaked_threads", leaked)


LATE_RESIZE = [
    # two task bodies outlast shutdown()'s timeout; the pool is then sized again; then the bodies end
    {"workers": 2, "submitters": [{"tasks": [{"id": 0, "kind": "block"}, {"id": 1, "kind": "block"}, {"id": 2, "kind": "plain"}], "delay": 0, "gap": 0}],
     "resizes": [{"at": 7.0, "n": 2, "after_shutdown": True}], "shutdown": {"at": 0.5, "cancel_pending": False}, "release_at": 20.0},
    {"workers": 3, "submitters": [{"tasks": [{"id": 0, "kind": "block"}, {"id": 1, "kind": "plain"}], "delay": 0, "gap": 0}],
     "resizes": [{"at": 7.0, "n": 1, "after_shutdown": True}], "shutdown": {"at": 0.2, "cancel_pending": True}, "release_at": 20.0},
    {"workers": 1, "submitters": [{"tasks": [{"id": 0, "kind": "block"}], "delay": 0, "gap": 0}],
     "resizes": [{"at": 7.0, "n": 3, "after_shutdown": True}], "shutdown": {"at": 0.2, "cancel_pending": False}, "release_at": 20.0},
]


def flood_scenario(n=1100):
    """one worker held by a blocking task while n plain tasks queue up behind it (a bounded queue that
    silently drops entries would lose some)"""
    tasks = [{"id": 0, "kind": "block"}] + [{"id": i, "kind": "plain"} for i in range(1, n + 1)]
    return {"workers": 1, "submitters": [{"tasks": tasks, "delay": 0, "gap": 0}], "resizes": [], "shutdown": None, "release_at": 4.0}


def plan(tier, seed):
    specs = []
    nshards = 24 if tier == "quick" else 64
    per = 600 if tier == "quick" else 6000
    for i in range(nshards):
        specs.append({"mode": "random", "seed": seed * 1031 + i, "n": per})
    for d in DIRECTED:
        for p in range(4):
            specs.append({"mode": "enum", "scn": d, "part": p, "parts": 4, "cap": 600 if tier == "quick" else None})
    if tier != "quick":
        for g in range(20):
            for p in range(2):
                specs.append({"mode": "enum", "gen_seed": seed * 13 + g, "part": p, "parts": 2, "cap": 3000})
    specs.append({"mode": "flood", "seed": seed, "schedules": 2 if tier == "quick" else 6})
    return specs


def run_shard(spec):
    from vf.sim import runner as R

    acc = Acc()
    if spec["mode"] == "random":
        rng = random.Random(spec["seed"])
        for n in range(spec["n"]):
            scn = gen_scenario(rng)
            if rng.random() < 0.6:
                strat = {"kind": "random", "seed": rng.randrange(1 << 30), "p": rng.choice([0.02, 0.1, 0.3])}
                label = "random"
            else:
                strat = {"kind": "pct", "seed": rng.randrange(1 << 30), "d": 3, "len": rng.choice([300, 1000])}
                label = "pct"
            hist, w, info, vs = run_one(acc, scn, strat, label)
            if len(acc.samples) < 1:
                acc.sample({"scenario": scn, "strategy": strat, "history": [list(e) for e in hist.ev[:40]]})
    elif spec["mode"] == "flood":
        scn = flood_scenario()
        for sch in range(spec["schedules"]):
            strat = {"kind": "np"} if sch == 0 else {"kind": "random", "seed": spec["seed"] * 7 + sch, "p": 0.02}
            run_one(acc, scn, strat, "flood")
        acc.count("flood-tasks", len(scn["submitters"][0]["tasks"]))
        for lr in LATE_RESIZE:
            for sch in range(spec["schedules"]):
                strat = {"kind": "np"} if sch == 0 else {"kind": "random", "seed": spec["seed"] * 11 + sch, "p": 0.05}
                run_one(acc, lr, strat, "late-resize")
                acc.count("late-resize-runs")
        acc.sample({"flood": "1 blocked worker, %d tasks queued behind it" % (len(scn["submitters"][0]["tasks"]) - 1)})
    else:
        scn = spec.get("scn") or gen_scenario(random.Random(spec["gen_seed"]))
        from vf.sim.world import World  # noqa

        # pilot
        import vf.sim.sched as S

        hist, w, info = run_scenario_pilot(scn)
        points = R.single_preemptions(w.sched.pilot)
        w.close()
        if spec.get("cap") and len(points) > spec["cap"] * spec["parts"]:
            rng = random.Random(len(points))
            points = sorted(rng.sample(points, spec["cap"] * spec["parts"]))
            acc.count("enum_capped")
        for step, tid in points[spec["part"] :: spec["parts"]]:
            run_one(acc, scn, {"kind": "forced", "switches": {str(step): tid}}, "forced")
        acc.sample({"enumerated_scenario": scn, "single_preemptions": len(points)})
    return acc.out()


def run_scenario_pilot(scn):
    """non-pre-emptive pilot with yield-point recording"""
    import vf.sim.world as VW

    orig = VW.Scheduler

    class PilotScheduler(orig):
        def __init__(self, *a, **kw):
            kw["record_pilot"] = True
            super().__init__(*a, **kw)

    VW.Scheduler = PilotScheduler
    try:
        return run_scenario(scn, {"kind": "np"})
    finally:
        VW.Scheduler = orig


def finish(agg, tier, coverage):
    coverage["exhaustive"] = False
    coverage["distinct_schedules"] = len(agg["distinct"])


def replay(case):
    acc = Acc()
    run_one(acc, case["scn"], case["strat"], "replay")
    return acc.violations
