"""C12 -- output buffering is bounded; producers are paused and always released."""

import errno
import random

from vf import core
from vf.core import Acc

ID = "C12"
LEVEL = "exploration"
RULE = (
    "one producing worker + the draining I/O thread; write sizes {1, mark-1, mark, mark+1, 3*mark} and mixes x "
    "outbuf_high_watermark {0,1,64,4096} x send_bytes {1,64,18000} x SO_SNDBUF x drain patterns {always reading, reads "
    "k bytes then stalls then resumes, never reads, FIN / RST / half-close after k bytes for k swept over the response} "
    "x list / generator / write() bodies x select/poll; schedules: single-pre-emption enumeration, random walk, PCT. "
    "Monitors: pending output sampled at every write_soon return against watermark + that write (+25 per interim 100 "
    "Continue); at quiescence no producer asleep while the client reads or after it disconnected; client stream equals "
    "the self-identifying payload (prefix after a disconnect). distinct = trace hash"
)
ASSUMPTIONS = [
    "pending output only grows inside write_soon / send_continue, so sampling at their return observes the maximum",
    "a client that stopped reading for good may legitimately keep a producer paused (no timers in this check)",
    "the Sim's socket model: send after RST -> ECONNRESET, after the peer's full close -> EPIPE",
]
SHARD_TIMEOUT = {"quick": 600, "thorough": 3000}


def required_counters(tier):
    return [
        "producer-waited", "notify:with-waiter", "notify:no-waiter", "disconnect-raced-wait",
        "write_soon_sampled", "drain:always", "drain:stall-resume", "drain:never", "drain:disconnect:close",
        "drain:disconnect:reset", "drain:disconnect:shutdown_wr", "released-after-disconnect", "runs:forced",
        "runs:random", "runs:pct", "mark:0", "mark:1", "mark:64", "mark:4096", "send-fault-runs", "send-fault-hit-paused-producer",
    ]


def gen_scenario(rng):
    mark = rng.choice([0, 1, 64, 4096])
    sndbuf = rng.choice([256, 512, 2048])
    adj = {"threads": 1, "outbuf_high_watermark": mark, "send_bytes": rng.choice([1, 1, 64, 18000]),
           "asyncore_use_poll": rng.random() < 0.5, "channel_request_lookahead": rng.choice([0, 0, 1])}
    if rng.random() < 0.2:
        # whether socket errors are logged must not change what the server does about them
        adj["log_socket_errors"] = False
    base = max(mark, 8)
    wsizes = [1, max(1, base - 1), base, base + 1, 3 * base]
    nwrites = rng.choice([2, 3, 5, 8])
    w = rng.choice(wsizes)
    n = min(w * nwrites, 14000)
    kind = rng.choice(["gen", "write", "chunks"])
    reqs = [{"n": n, "k": kind, "w": w}]
    if rng.random() < 0.4:
        n2 = rng.choice([10, base + 1, 2 * sndbuf])
        # (a wsgi.file_wrapper body is one write of the file's size: it must wait for room like any other)
        reqs.append({"n": n2, "k": rng.choice(["cl", "write", "fw", "fw"]), "w": max(base, n2 // 8)})
    if rng.random() < 0.15:
        reqs.insert(0, {"n": 20, "k": "cl"})
        reqs[1]["m"] = "POST"
        reqs[1]["body"] = 30
        reqs[1]["expect"] = True
    total = n + 200
    mode = rng.choice(["always", "always", "stall-resume", "never", "disconnect", "disconnect", "disconnect"])
    if mode == "always":
        reader = {"mode": "always"}
    elif mode == "stall-resume":
        reader = {"mode": "stall", "after": rng.randrange(0, total), "resume": 5.0}
    elif mode == "never":
        reader = {"mode": "stall", "after": rng.choice([0, 0, 100]), "resume": "never"}
    else:
        reader = {"mode": "disconnect", "after": rng.randrange(0, total), "how": rng.choice(["close", "reset", "shutdown_wr"])}
    c = {"requests": reqs, "sndbuf": sndbuf, "reader": reader, "pingpong": rng.random() < 0.3}
    if rng.random() < 0.3:
        c["send_caps"] = rng.choice([[100, 0], [37], [0, -1]])
    scn = {"adj": adj, "sndbuf": sndbuf, "conns": [c]}
    if mode in ("always", "stall-resume") and rng.random() < 0.35:
        # the connection dies under the server instead: one send() fails with an errno that is not
        # a plain disconnect (the channel is then closed through will_close / handle_close)
        scn["faults"] = {"0:send:%d" % rng.randrange(1, 14): rng.choice([errno.ETIMEDOUT, errno.EHOSTUNREACH, errno.ENOBUFS, errno.ECONNRESET])}
    return scn


def directed():
    out = []
    for mark in (0, 1, 64):
        base = max(mark, 8)
        for reader in ({"mode": "always"}, {"mode": "disconnect", "after": 300, "how": "reset"},
                       {"mode": "disconnect", "after": 300, "how": "close"}, {"mode": "stall", "after": 300, "resume": 5.0}):
            out.append({"adj": {"threads": 1, "outbuf_high_watermark": mark, "send_bytes": 1}, "sndbuf": 256,
                        "conns": [{"requests": [{"n": 900, "k": "gen", "w": base + 1}, {"n": 10, "k": "cl"}], "sndbuf": 256, "reader": reader}]})
    # a file_wrapper response queued behind a backlog that is above the mark (reader slow / stalled for a while)
    for mark in (64, 1):
        out.append({"adj": {"threads": 1, "outbuf_high_watermark": mark, "send_bytes": 1, "channel_request_lookahead": 0}, "sndbuf": 256,
                    "conns": [{"requests": [{"n": 700, "k": "write", "w": mark + 200}, {"n": 900, "k": "fw"}], "sndbuf": 256,
                               "reader": {"mode": "stall", "after": 100, "resume": 5.0}}]})
    # look-ahead: input still being read (64 bytes at a time) while the worker ends a response above the mark and,
    # with more requests queued, waits at the end of service()
    out.append({"adj": {"threads": 1, "outbuf_high_watermark": 256, "send_bytes": 1, "channel_request_lookahead": 2, "recv_bytes": 64}, "sndbuf": 512,
                "conns": [{"requests": [{"n": 1500, "k": "cl"}, {"n": 10, "k": "cl"}, {"n": 20, "k": "cl"}], "sndbuf": 512,
                           "reader": {"mode": "always"}}]})
    # a send() that fails right after the send that brought the backlog back under the mark
    for mark, sndbuf, k in ((64, 256, 3), (64, 256, 4), (4096, 2048, 3), (4096, 2048, 4)):
        out.append({"adj": {"threads": 1, "outbuf_high_watermark": mark, "send_bytes": 1}, "sndbuf": sndbuf,
                    "conns": [{"requests": [{"n": 3 * mark + 700, "k": "write", "w": mark + 300}, {"n": 10, "k": "cl"}], "sndbuf": sndbuf,
                               "reader": {"mode": "always"}}],
                    "faults": {"0:send:%d" % k: errno.ETIMEDOUT}})
    return out


def plan(tier, seed):
    specs = []
    nshards = 24 if tier == "quick" else 64
    per = 130 if tier == "quick" else 2000
    for i in range(nshards):
        specs.append({"mode": "random", "seed": seed * 1019 + i, "n": per})
    ds = directed()
    if tier == "quick":
        ds = [ds[0], ds[1], ds[6], ds[11], ds[12], ds[13], ds[14], ds[15], ds[17]]
    parts = 4
    for scn in ds:
        for p in range(parts):
            specs.append({"mode": "enum", "scn": scn, "part": p, "parts": parts, "cap": 500 if tier == "quick" else None})
    return specs


_probe = False


def install_probe():
    global _probe
    if _probe:
        return
    from vf.sim import shim
    import waitress.channel as ch

    orig_write_soon = ch.HTTPChannel.write_soon
    orig_send_continue = ch.HTTPChannel.send_continue

    def write_soon(self, data):
        w = shim.W()
        if w is not None and data:
            w.__dict__.setdefault("c12_channels", {})[id(self)] = self
        # the size of this write as handed over (a file_wrapper buffer shrinks as it is sent)
        size0 = len(data) if data else 0
        n = orig_write_soon(self, data)
        if w is not None and size0:
            st = w.__dict__.setdefault("c12", {"interims": 0, "max_pending": 0, "max_write": 0, "viol": None, "samples": 0})
            size = size0
            pending = self.total_outbufs_len
            st["samples"] += 1
            st["max_pending"] = max(st["max_pending"], pending)
            st["max_write"] = max(st["max_write"], size)
            bound = self.adj.outbuf_high_watermark + size + 25 * st["interims"]
            if pending > bound and st["viol"] is None:
                st["viol"] = (pending, bound, size)
            st.setdefault("channels", {})[id(self)] = self
        return n

    def send_continue(self):
        w = shim.W()
        if w is not None:
            st = w.__dict__.setdefault("c12", {"interims": 0, "max_pending": 0, "max_write": 0, "viol": None, "samples": 0})
            st["interims"] += 1
        return orig_send_continue(self)

    ch.HTTPChannel.write_soon = write_soon
    ch.HTTPChannel.send_continue = send_continue
    _probe = True


def judge(scn, o, acc):
    from vf import apps
    from vf.checks import c05
    from vf.ref import response as rs

    out = []
    if o.failed:
        return [("harness:" + o.failed, "run did not finish: " + o.failed)]
    w = o.world
    st = getattr(w, "c12", None) or {"interims": 0, "max_pending": 0, "max_write": 0, "viol": None, "samples": 0}
    acc.count("write_soon_sampled", st["samples"])
    acc.maxi("max_pending_output", st["max_pending"])
    mark = scn["adj"]["outbuf_high_watermark"]
    acc.maxi("max_pending_minus_mark_minus_write", st["max_pending"] - mark - st["max_write"])
    if st["viol"]:
        p, b, s = st["viol"]
        out.append(("pending-exceeds-bound", f"pending output {p} > watermark {mark} + write {s} (+interims) = {b}"))
    for chn in st.get("channels", {}).values():
        # handle_close() zeroes the pending count under the output lock; anything counted on a closed
        # channel afterwards was accepted after the close (the request was not aborted)
        if not chn.connected and chn.socket is None and chn.total_outbufs_len > 0:
            out.append(("write-accepted-after-disconnect",
                        f"{chn.total_outbufs_len} bytes were accepted by write_soon after the channel had been closed"))
    if not w.io_alive():
        out.append(("io-thread-died", "the I/O loop thread ended: " + getattr(w, "loop_error", "?")))
    for t in w.sched.threads:
        if t.exc is not None and t.role == "worker":
            out.append(("worker-died", f"{t.name} raised {t.exc!r}"))
    cs = scn["conns"][0]
    res = o.results[0]
    reader = cs.get("reader", {"mode": "always"})
    c = res.get("client")
    if c is None:
        return out + [("harness:client-not-started", "")]
    cid = res["cid"]
    producer_asleep = False
    for t in w.sched.threads:
        if t.role == "worker" and t.state == "blocked" and t.blocked_on and t.blocked_on[0] == "cond":
            for cnd in w.conditions:
                if id(cnd) == t.blocked_on[1] and cnd.label.startswith("channel.py"):
                    producer_asleep = True
    if producer_asleep:
        # whoever closes the channel (client disconnect or a failing send) must release the producer
        for chn in getattr(w, "c12_channels", {}).values():
            if not chn.connected:
                out.append(("producer-asleep-on-closed-channel",
                            "producer still paused at quiescence although its channel has been closed "
                            f"(pending {chn.total_outbufs_len}, faults {scn.get('faults')})"))
    mode = reader.get("mode")
    disconnected = res.get("disconnected")
    stalled_forever = res.get("stalled")
    if disconnected in ("close", "reset"):
        if producer_asleep:
            out.append(("producer-asleep-after-disconnect", f"client {disconnected} after {res.get('limited_at')} bytes; producer still paused at quiescence"))
        else:
            acc.count("released-after-disconnect")
        # the request must have been aborted: the app's generator closed, the worker idle
        entered = [e for e in o.log.events if e[3] == "enter"]
        exited = [e for e in o.log.events if e[3] == "exit"]
        if len(entered) != len(exited) and not producer_asleep:
            out.append(("worker-not-released", f"{len(entered)} executions entered, {len(exited)} left at quiescence"))
    elif stalled_forever:
        pass  # paused producer is legitimate
    else:
        # the client kept (or resumed) reading: everything must arrive
        vs = c05.judge(scn, o)
        for k, what in vs:
            out.append((k, what))
        if producer_asleep and not vs:
            out.append(("producer-asleep-while-client-reads", "producer paused at quiescence although the client drained everything"))
    # the byte stream is always a correct prefix
    reqs = cs["requests"]
    methods = [r.get("m", "GET") for r in reqs]
    resps, werr, left = rs.parse_responses(c.received, methods, eof=c.eof())
    finals = [r for r in resps if not r["interim"]]
    for j, r in enumerate(finals):
        if j >= len(reqs):
            break
        bad = apps.check_ident_payload(r["body"], cid, j)
        if bad:
            out.append(("output-corrupt", f"response {j}: {bad}"))
        if r.get("complete") and len(r["body"]) != reqs[j]["n"]:
            out.append(("output-corrupt", f"response {j}: length {len(r['body'])} != {reqs[j]['n']}"))
    if werr and not (disconnected or stalled_forever or not res.get("done") or scn.get("faults")):
        out.append(("wire-unparseable", werr))
    return out


def run_one(acc, scn, strat, label):
    from vf.sim import runner

    o = runner.run_scenario(scn, strat, trace=False, wall_timeout=120)
    try:
        vs = judge(scn, o, acc)
        acc.evaluations += 1
        acc.count("runs:" + label)
        acc.count("end:" + str(o.reason))
        acc.distinct.add("%08x" % (o.trace_hash & 0xFFFFFFFF))
        acc.count("mark:%d" % scn["adj"]["outbuf_high_watermark"])
        rd = scn["conns"][0].get("reader", {"mode": "always"})
        if rd["mode"] == "always":
            acc.count("drain:always")
        elif rd["mode"] == "stall":
            acc.count("drain:never" if rd.get("resume") == "never" else "drain:stall-resume")
        else:
            acc.count("drain:disconnect:" + rd["how"])
        c = o.counters
        if scn.get("faults"):
            acc.count("send-fault-runs")
            if c.get("cond-wait:channel.py:__init__") and any(k.startswith("fault-injected:") for k in c):
                acc.count("send-fault-hit-paused-producer")
        if c.get("cond-wait:channel.py:__init__"):
            acc.count("producer-waited")
            if o.results[0].get("disconnected"):
                acc.count("disconnect-raced-wait")
        if c.get("cond-notify:channel.py:__init__:with-waiter"):
            acc.count("notify:with-waiter")
        if c.get("cond-notify:channel.py:__init__:no-waiter"):
            acc.count("notify:no-waiter")
        for key, what in vs:
            if key.startswith("harness:"):
                acc.inconclusive.append(f"{key}: {what} [{strat}]")
                continue
            acc.violation(key, what, {"scn": scn, "strat": strat})
        return o, vs
    finally:
        leaked = runner.finish(o)
        if leaked:
            acc.count("leaked_threads", leaked)


def run_shard(spec):
    from vf.sim import runner

    install_probe()
    acc = Acc()
    if spec["mode"] == "random":
        rng = random.Random(spec["seed"])
        for n in range(spec["n"]):
            scn = gen_scenario(rng)
            if rng.random() < 0.65:
                strat = {"kind": "random", "seed": rng.randrange(1 << 30), "p": rng.choice([0.005, 0.02, 0.1, 0.3])}
                label = "random"
            else:
                strat = {"kind": "pct", "seed": rng.randrange(1 << 30), "d": 3, "len": rng.choice([1500, 4000])}
                label = "pct"
            o, vs = run_one(acc, scn, strat, label)
            if len(acc.samples) < 1:
                acc.sample({"scenario": scn, "strategy": strat, "end": o.reason, "max_pending": getattr(o.world, "c12", {}).get("max_pending")})
    else:
        scn = spec["scn"]
        o = runner.run_scenario(scn, {"kind": "np"}, pilot=True)
        points = runner.single_preemptions(o.pilot)
        runner.finish(o)
        if spec.get("cap") and len(points) > spec["cap"] * spec["parts"]:
            rng = random.Random(len(points))
            points = sorted(rng.sample(points, spec["cap"] * spec["parts"]))
            acc.count("enum_capped")
        for step, tid in points[spec["part"] :: spec["parts"]]:
            run_one(acc, scn, {"kind": "forced", "switches": {str(step): tid}}, "forced")
        acc.sample({"enumerated_scenario": scn, "single_preemptions": len(points)})
    return acc.out()


def finish(agg, tier, coverage):
    coverage["exhaustive"] = False
    coverage["distinct_schedules"] = len(agg["distinct"])
    coverage["max_pending_output"] = agg["maxima"].get("max_pending_output")


def replay(case):
    install_probe()
    acc = Acc()
    run_one(acc, case["scn"], case["strat"], "replay")
    return acc.violations
