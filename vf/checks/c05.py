"""C05 -- no lost wake-up: with the poll timeout taken as infinite, quiescence
implies that every complete request of a still-open connection has its whole
response at the (always reading) client."""

import random

from vf import core
from vf.core import Acc

ID = "C05"
LEVEL = "exploration"
RULE = (
    "scenarios = 1-2 connections, burst and ping-pong clients that always keep reading, response sizes swept across "
    "SO_SNDBUF (-1/0/+1, multiples), send_bytes {1,64,18000}, outbuf_high_watermark {0,1,256,default}, list / "
    "generator / write() / file_wrapper bodies, requests ending in a close decision, error responses, select and poll; "
    "the poll timeout is infinite, so the run ends only at quiescence (no thread runnable, no timer) or at a spinning "
    "fixpoint. Schedules: complete single-pre-emption neighbourhoods of pilot schedules (workhorse), random walk, PCT. "
    "Oracle at quiescence: every client finished (all expected responses complete) or its connection is closed. "
    "distinct = trace hash"
)
ASSUMPTIONS = [
    "liveness restated as bounded progress: quiescence with the poll timeout removed implies delivery (DESIGN.md 1, 9)",
    "the Sim's readiness model (level-triggered select/poll, self-pipe) is faithful",
    "clients never stop reading in this check",
]
SHARD_TIMEOUT = {"quick": 600, "thorough": 3000}


def required_counters(tier):
    return [
        "quiescent_states_inspected", "trigger_pulls_observed",
        "overlap:trigger-pulled-while-io-parked-in-poll:select", "overlap:trigger-pulled-while-io-parked-in-poll:poll",
        "parked:worker-produced-output", "parked:worker-finished-request", "parked:worker-decided-to-close",
        "runs:forced", "runs:random", "runs:pct", "pingpong_runs", "burst_runs",
    ]


def gen_scenario(rng):
    sndbuf = rng.choice([512, 2048, 4096])
    adj = {
        "threads": rng.choice([1, 1, 2]),
        "channel_request_lookahead": rng.choice([0, 0, 1]),
        "asyncore_use_poll": rng.random() < 0.5,
        "send_bytes": rng.choice([1, 1, 64, 18000]),
    }
    if rng.random() < 0.2:
        # whether socket errors are logged must not change what the server does about them
        adj["log_socket_errors"] = False
    wm = rng.choice([None, None, 0, 1, 256])
    if wm is not None:
        adj["outbuf_high_watermark"] = wm
    sizes = [0, 1, 50, sndbuf - 1, sndbuf, sndbuf + 1, 2 * sndbuf, 2 * sndbuf + 1, 3 * sndbuf + 7]
    conns = []
    for ci in range(rng.choice([1, 1, 2])):
        reqs = []
        for i in range(rng.choice([1, 2, 3, 4])):
            n = rng.choice(sizes)
            r = {"n": n, "k": rng.choice(["cl", "chunks", "write", "gen", "fw", "cl"])}
            if r["k"] in ("chunks", "write", "gen"):
                r["w"] = rng.choice([max(1, n // 3), 64, 4096]) if n > 300 else rng.choice([1, 64])
            if r["k"] == "fw" and n == 0:
                r["k"] = "cl"
            x = rng.random()
            if x < 0.2:
                r["m"] = "POST"
                r["body"] = rng.choice([1, 40])
                if rng.random() < 0.35:
                    r["expect"] = True
            if rng.random() < 0.1:
                r["close"] = True
            if rng.random() < 0.12:
                r["k"] = rng.choice(["nocl", "short", "raise0", "raise1"])
                r["n"] = rng.choice([300, sndbuf + 100])
                r["w"] = 64
            if rng.random() < 0.08:
                r["v"] = "1.0"
                r["keepalive"] = rng.random() < 0.5
            if rng.random() < 0.15 and r["k"] in ("cl", "chunks", "write", "gen") and r["n"] >= 8:
                r["k"] = "stream"
                r["w"] = rng.choice([max(8, r["n"] // 3), 4096])
            reqs.append(r)
        c = {"requests": reqs, "sndbuf": sndbuf, "pingpong": rng.random() < 0.6}
        if rng.random() < 0.3:
            c["send_caps"] = rng.choice([[400, 0], [100], [0, -1]])
        if rng.random() < 0.3 and not c["pingpong"]:
            c["pieces"] = sorted(rng.sample(range(1, 120 * len(reqs)), 2))
        conns.append(c)
    if len(conns) == 2 and rng.random() < 0.3:
        # a long poll: the first request of connection 0 completes only once a request of
        # connection 1 has been executed -- a second worker must be woken for it
        adj["threads"] = rng.choice([2, 3])
        conns[0]["requests"][0]["gate"] = "peer"
    scn_faults = None
    peer_gated = any(r.get("gate") == "peer" for c in conns for r in c["requests"])
    # (no fault together with a long poll: connection ids follow the order of connect(), which the schedule
    # decides -- a fault that lands on the releasing connection before its request runs leaves the long poll
    # waiting for good, by construction of the scenario, not through any fault of the server)
    if rng.random() < 0.12 and not peer_gated:
        # one send() on the first connection fails with an errno that is not a plain disconnect: that
        # connection is given up -- every other one (and the workers) must carry on
        import errno

        scn_faults = {"0:send:%d" % rng.randrange(0, 10): rng.choice([errno.ETIMEDOUT, errno.EHOSTUNREACH, errno.ENOBUFS, errno.EPIPE, errno.ECONNRESET])}
    if any(r["k"] == "stream" for c in conns for r in c["requests"]):
        # an application that waits for its own output to be delivered only makes
        # sense without send_bytes batching (output below send_bytes is held back
        # on purpose while the task runs)
        adj["send_bytes"] = 1
    scn = {"adj": adj, "sndbuf": sndbuf, "conns": conns}
    if len(conns) == 1 and rng.random() < 0.2:
        # the server makes its own socket map (TcpWSGIServer(app) without one, as test fixtures do)
        scn["own_map"] = True
    if scn_faults:
        scn["faults"] = scn_faults
    return scn


def directed(poll):
    """scenarios built so that each wake-up site is one pre-emption away"""
    out = []
    for sb, n in ((512, 300), (512, 513), (512, 2000)):
        for pingpong in (True, False):
            out.append({"adj": {"threads": 1, "asyncore_use_poll": poll, "send_bytes": 1}, "sndbuf": sb,
                        "conns": [{"requests": [{"n": n, "k": "cl"}, {"n": 20, "k": "chunks", "w": 7}, {"n": n, "k": "write", "w": 200, "close": True}],
                                   "sndbuf": sb, "pingpong": pingpong}]})
    out.append({"adj": {"threads": 1, "asyncore_use_poll": poll, "send_bytes": 1}, "sndbuf": 512,
                "conns": [{"requests": [{"n": 1300, "k": "stream", "w": 1300}, {"n": 600, "k": "stream", "w": 100}], "sndbuf": 512, "pingpong": True}]})
    out.append({"adj": {"threads": 1, "asyncore_use_poll": poll, "send_bytes": 1, "outbuf_high_watermark": 256}, "sndbuf": 512,
                "conns": [{"requests": [{"n": 3000, "k": "gen", "w": 200}, {"n": 10, "k": "cl"}], "sndbuf": 512, "pingpong": True}]})
    out.append({"adj": {"threads": 2, "asyncore_use_poll": poll, "send_bytes": 64, "channel_request_lookahead": 1}, "sndbuf": 2048,
                "conns": [{"requests": [{"n": 2049, "k": "fw"}, {"n": 5, "k": "raise0"}], "sndbuf": 2048, "pingpong": True},
                          {"requests": [{"n": 100, "k": "nocl", "w": 64}], "sndbuf": 2048}]})
    # look-ahead: input is still being read (64 bytes at a time) while the worker finishes a response
    # that stays above the watermark and, with more requests queued, waits at the end of service()
    out.append({"adj": {"threads": 1, "asyncore_use_poll": poll, "channel_request_lookahead": 2, "send_bytes": 1,
                        "outbuf_high_watermark": 256, "recv_bytes": 64}, "sndbuf": 512,
                "conns": [{"requests": [{"n": 1500, "k": "cl"}, {"n": 10, "k": "cl"}, {"n": 20, "k": "cl"}], "sndbuf": 512}]})
    # two connections, two workers, a long poll on the first released by the second
    out.append({"adj": {"threads": 2, "asyncore_use_poll": poll, "send_bytes": 1}, "sndbuf": 2048,
                "conns": [{"requests": [{"n": 100, "k": "cl", "gate": "peer"}, {"n": 10, "k": "cl"}], "sndbuf": 2048},
                          {"requests": [{"n": 50, "k": "cl"}, {"n": 600, "k": "write", "w": 100}], "sndbuf": 2048}]})
    # a connection lost while the server answers an expectation (on the I/O thread at once, or by the
    # worker at the end of the request in front of it): everybody else must still be served
    import errno

    for k, first in enumerate(([], [{"n": 100, "k": "cl"}], [{"n": 3000, "k": "write", "w": 500}])):
        for fault in ({"0:send:%d" % k: errno.EPIPE}, {"0:recv:%d" % (1 + k): "CLOSE"}):
            out.append({"adj": {"threads": 2, "asyncore_use_poll": poll, "send_bytes": 1, "channel_request_lookahead": 1}, "sndbuf": 2048,
                        "faults": dict(fault),
                        "conns": [{"requests": first + [{"m": "POST", "body": 40, "expect": True, "n": 10, "k": "cl"}], "sndbuf": 2048},
                                  {"requests": [{"n": 50, "k": "cl"}, {"n": 60, "k": "chunks", "w": 7}], "sndbuf": 2048, "pingpong": True,
                                   "delay": 0.01}]})
    # a producer parked above the watermark when its connection fails in the I/O thread with an error that is
    # not a plain disconnect: it must be released (the only worker has to serve the other connection)
    for k in (2, 3, 4, 6):
        out.append({"adj": {"threads": 1, "asyncore_use_poll": poll, "send_bytes": 1, "outbuf_high_watermark": 256}, "sndbuf": 512,
                    "faults": {"0:send:%d" % k: errno.ETIMEDOUT if k % 2 else errno.EHOSTUNREACH},
                    "conns": [{"requests": [{"n": 3000, "k": "gen", "w": 200}, {"n": 10, "k": "cl"}], "sndbuf": 512, "pingpong": True},
                              {"requests": [{"n": 50, "k": "cl"}], "sndbuf": 512, "delay": 0.5}]})
    # the server's own socket map (no map handed in): the wake-up pipe must be in the map the loop polls
    out.append({"adj": {"threads": 1, "asyncore_use_poll": poll, "send_bytes": 1}, "sndbuf": 512, "own_map": True,
                "conns": [{"requests": [{"n": 513, "k": "cl"}, {"n": 20, "k": "chunks", "w": 7}, {"n": 300, "k": "write", "w": 200, "close": True}],
                           "sndbuf": 512, "pingpong": True}]})
    return out


def service_window_scenarios():
    out = []
    for la in (1, 2):
        out.append({"adj": {"threads": 1, "channel_request_lookahead": la, "send_bytes": 1, "outbuf_high_watermark": 256, "recv_bytes": 64},
                    "sndbuf": 512,
                    "conns": [{"requests": [{"n": 1500, "k": "cl"}, {"n": 10, "k": "cl"}, {"n": 20, "k": "cl"}],
                               "sndbuf": 512, "pieces": [70, 140]}]})
    return out


def plan(tier, seed):
    specs = []
    nshards = 24 if tier == "quick" else 64
    per = 120 if tier == "quick" else 2000
    for i in range(nshards):
        specs.append({"mode": "random", "seed": seed * 1013 + i, "n": per})
    parts = 4 if tier == "quick" else 4
    for poll in (False, True):
        ds = directed(poll)
        if tier == "quick":
            ds = [ds[0], ds[2], ds[6], ds[7], ds[9], ds[10]] + ds[11:]
        for k, scn in enumerate(ds):
            light = tier == "quick" and (scn.get("faults") or scn.get("own_map"))
            for p in range(2 if light else parts):
                specs.append({"mode": "enum", "scn": scn, "part": p, "parts": 2 if light else parts,
                              "cap": (300 if light else 700) if tier == "quick" else 6000})
    # two pre-emptions: the I/O thread has just read more input (between recv() and the end of
    # received()) when the worker takes over and reaches the end of its service() -- where it may wait
    # for buffer space -- and then the I/O thread is let back in
    for scn in (service_window_scenarios() if tier != "quick" else []):
        for p in range(8):
            specs.append({"mode": "enum2", "scn": scn, "part": p, "parts": 8, "window": 50 if tier == "quick" else 150})
    if tier != "quick":
        for s in range(30):
            for p in range(2):
                specs.append({"mode": "enum", "gen_seed": seed * 11 + s, "part": p, "parts": 2, "cap": 2500})
    return specs


def diagnose(w, cid):
    """label for the witness: what is stuck (internal state, diagnosis only)"""
    labels = []
    for ch in w.channels():
        sock = getattr(ch, "socket", None)
        conn = getattr(sock, "conn", None)
        if conn is None or conn.cid != cid:
            continue
        if ch.total_outbufs_len > 0:
            labels.append("pending-output(%d)%s" % (ch.total_outbufs_len, "+writable" if w.net.writable(conn.fd) else ""))
        if ch.requests:
            labels.append("queued-requests(%d)" % len(ch.requests))
        if ch.will_close or ch.close_when_flushed:
            labels.append("close-decision-pending")
        if conn.c2s:
            labels.append("unread-input(%d)" % len(conn.c2s))
    for t in w.sched.threads:
        if t.role == "worker" and t.state == "blocked" and t.blocked_on and t.blocked_on[0] == "cond":
            for cnd in w.conditions:
                if id(cnd) == t.blocked_on[1] and cnd.label.startswith("channel.py"):
                    labels.append("producer-asleep-on-output-condition")
    if w.dispatcher.queue:
        labels.append("task-queued(%d)" % len(w.dispatcher.queue))
    return labels or ["no-internal-state-found"]


def judge(scn, o):
    out = []
    if o.failed:
        return [("harness:" + o.failed, "run did not finish: " + o.failed)]
    w = o.world
    if not w.io_alive():
        out.append(("io-thread-died", "the I/O loop thread ended: " + getattr(w, "loop_error", "?")))
    for i, cs in enumerate(scn["conns"]):
        res = o.results[i]
        cid = res.get("cid")
        if cid is None:
            out.append(("harness:client-not-started", ""))
            continue
        c = res["client"]
        if res.get("done"):
            continue
        if c.eof() or c.conn.server_closed:
            continue
        labels = diagnose(w, cid)
        kind = "spinning" if o.reason == "spinning" else "quiescent"
        primary = labels[0].split("(")[0]
        if any(l.startswith("producer-asleep") for l in labels):
            primary = "producer-asleep"
        out.append(("undelivered:%s:%s" % (kind, primary),
                    f"conn {cid}: {kind} with the client still waiting ({len(c.received)} bytes received, sent {res.get('sent')} requests); "
                    f"state: {labels}"))
    return out


def run_one(acc, scn, strat, label):
    from vf.sim import runner

    poll = "poll" if scn["adj"].get("asyncore_use_poll") else "select"
    o = runner.run_scenario(scn, strat, trace=True, wall_timeout=120)
    try:
        vs = judge(scn, o)
        acc.evaluations += 1
        acc.count("runs:" + label)
        acc.count("quiescent_states_inspected")
        acc.count("end:" + str(o.reason))
        acc.distinct.add("%08x" % (o.trace_hash & 0xFFFFFFFF))
        acc.count("trigger_pulls_observed", o.world.trigger_pulls)
        if o.counters.get("overlap:trigger-pulled-while-io-parked-in-poll"):
            acc.count("overlap:trigger-pulled-while-io-parked-in-poll:" + poll)
        acc.count("pingpong_runs" if any(c.get("pingpong") for c in scn["conns"]) else "burst_runs")
        # what the worker did while the I/O thread was parked in the poll call
        parked = False
        for e in o.world.events:
            pass
        for k in ("parked:worker-produced-output", "parked:worker-finished-request", "parked:worker-decided-to-close"):
            if o.counters.get(k):
                acc.count(k)
        acc.count("yield_points", o.steps)
        for key, what in vs:
            if key.startswith("harness:"):
                acc.inconclusive.append(f"{key}: {what} [{strat}]")
                continue
            acc.violation(key, what, {"scn": scn, "strat": strat})
        return o, vs
    finally:
        leaked = runner.finish(o)
        if leaked:
            acc.count("leaked_threads", leaked)


def run_shard(spec):
    from vf.sim import runner

    install_parked_probe()
    acc = Acc()
    if spec["mode"] == "random":
        rng = random.Random(spec["seed"])
        for n in range(spec["n"]):
            scn = gen_scenario(rng)
            if rng.random() < 0.65:
                strat = {"kind": "random", "seed": rng.randrange(1 << 30), "p": rng.choice([0.005, 0.02, 0.1, 0.3])}
                label = "random"
            else:
                strat = {"kind": "pct", "seed": rng.randrange(1 << 30), "d": 3, "len": rng.choice([1500, 4000])}
                label = "pct"
            o, vs = run_one(acc, scn, strat, label)
            if len(acc.samples) < 1:
                acc.sample({"scenario": scn, "strategy": strat, "end": o.reason, "steps": o.steps})
    elif spec["mode"] == "enum2":
        scn = spec["scn"]

        def first(site, cur):
            return isinstance(site, tuple) and site[0] in ("recv", "handle_read", "received", "sock")

        def second(site):
            return isinstance(site, tuple) and (site[0] in ("service", "_flush_outbufs_below_high_watermark") or site[0] in ("lock", "unlock"))

        k = 0
        for sw in runner.double_preemptions(scn, first, window=spec.get("window", 50), second="target", second_filter=second):
            k += 1
            if k % spec["parts"] != spec["part"]:
                continue
            run_one(acc, scn, {"kind": "forced", "switches": sw}, "forced2")
        acc.sample({"double_preemption_scenario": scn, "schedules": k})
    else:
        scn = spec.get("scn") or gen_scenario(random.Random(spec["gen_seed"]))
        o = runner.run_scenario(scn, {"kind": "np"}, pilot=True)
        points = runner.single_preemptions(o.pilot)
        runner.finish(o)
        if spec.get("cap") and len(points) > spec["cap"] * spec["parts"]:
            rng = random.Random(len(points))
            points = sorted(rng.sample(points, spec["cap"] * spec["parts"]))
            acc.count("enum_capped")
        mine = points[spec["part"] :: spec["parts"]]
        for step, tid in mine:
            run_one(acc, scn, {"kind": "forced", "switches": {str(step): tid}}, "forced")
        acc.sample({"enumerated_scenario": scn, "single_preemptions": len(points)})
    return acc.out()


_probe_installed = False


def install_parked_probe():
    """Count runs in which a worker produced output / finished a request /
    took the close decision while the I/O thread was parked in the poll call.
    Observation only: wraps HTTPChannel methods from the harness side."""
    global _probe_installed
    if _probe_installed:
        return
    from vf.sim import shim
    import waitress.channel as ch

    orig_write_soon = ch.HTTPChannel.write_soon
    orig_service = ch.HTTPChannel.service

    def write_soon(self, data):
        w = shim.W()
        if w is not None and w.in_poll and data:
            w.count("parked:worker-produced-output")
        return orig_write_soon(self, data)

    def service(self):
        w = shim.W()
        r = orig_service(self)
        if w is not None:
            if w.in_poll:
                w.count("parked:worker-finished-request")
                if self.close_when_flushed or self.will_close:
                    w.count("parked:worker-decided-to-close")
        return r

    ch.HTTPChannel.write_soon = write_soon
    ch.HTTPChannel.service = service
    _probe_installed = True


def finish(agg, tier, coverage):
    coverage["exhaustive"] = False
    coverage["exhaustive_note"] = (
        "complete single-pre-emption neighbourhood of the pilot schedule of each enumerated scenario (capped where "
        "enum_capped is counted); random walk / PCT sampled"
    )
    coverage["distinct_schedules"] = len(agg["distinct"])


def replay(case):
    install_parked_probe()
    acc = Acc()
    run_one(acc, case["scn"], case["strat"], "replay")
    return acc.violations
