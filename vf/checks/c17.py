"""C17 -- buffers are faithful byte queues across representation changes.

A real ``OverflowableBuffer`` is driven through operation histories with a
reference ``bytearray`` FIFO in lock-step; a real ``ReadOnlyFileBasedBuffer``
is driven through the get/skip sequence ``HTTPChannel._flush_some`` issues.
``prune()`` is outside the property's quantifier and is never called.
"""

import random
import struct

from vf import core
from vf.core import Acc

ID = "C17"
LEVEL = "exploration"
RULE = (
    "histories = every applicable operation sequence of length L (5 quick / 6 thorough) over a "
    "per-threshold alphabet of 14-17 operations (append of every size in {0,1,lim-1,lim,lim+1} for "
    "lim=8192 and lim=overflow; peek 0 / 1 / len / len+7; skip 1 / half / all; get-with-skip half; file view) "
    "for overflow in {0,1,2,8191,8192,8193,20000}, plus seeded random histories of length <= 60 over the "
    "wider argument space, plus the read-only-buffer grid, plus buffers of different threads (four real threads under "
    "a 1 us switch interval; two or three Sim threads under every single pre-emption at a line of buffers.py), plus "
    "temporary files that fail (disk full, cannot be created); each history is executed on the real buffer in "
    "lock-step with a bytearray FIFO and judged after every operation. distinct = (overflow, length, "
    "multiset of operation kinds, sequence of representations visited) for enumerated histories, "
    "(overflow, length bucket, set of kinds, representations) for random ones, and the parameter tuple "
    "for read-only cases"
)
ASSUMPTIONS = [
    "the reference model (a bytearray: append = extend, consume k = delete the first k bytes) is the "
    "intended FIFO semantics",
    "operations are those the server issues: append, get(n>=0) as a peek, skip(k, True) with 1 <= k <= len, "
    "get(n, skip=True), __len__/__bool__, getfile(); skip(k > len), negative sizes and prune() are outside "
    "the quantifier",
    "a file view is read from its current position to the end and the harness then seeks back (as an "
    "application may) so the history can continue; the file position is the consume pointer, so a view "
    "that is not restored is only issued as the last operation",
    "the bytes stage may answer a peek with more than was asked for (it returns the whole string); only "
    "a result that is not a prefix, or shorter than min(n, len), is a violation",
    "temporary files are created on tmpfs (/dev/shm) when available, for speed; the buffer code sees the same "
    "kind of file object on any filesystem",
    "read-only buffer: prepare(size) is called with size None or >= 0 and the wrapped file is positioned "
    "at 0 <= P <= F",
]

OVERFLOWS = [0, 1, 2, 8191, 8192, 8193, 20000]
STRLIM = 8192
ENUM_LEN = {"quick": 5, "thorough": 6}
RAND_N = {"quick": 20000, "thorough": 200000}
RAND_MAXLEN = 60
SHARD_TIMEOUT = {"quick": 600, "thorough": 3000}

# measured: ~65 us per enumerated history for every threshold, ~300 us per random one
ENUM_SHARDS = {"quick": 43, "thorough": 59}
RAND_SHARDS = {"quick": 4, "thorough": 4}

REPR = ("bytes", "bytesio", "tempfile")
KINDS = {"append": 0, "peek": 1, "skip": 2, "getskip": 2, "fileview": 3}
KIND_COUNTER = ("ops:append", "ops:peek", "ops:consume", "ops:fileview")

_PAT = None
_PAT_WORDS = 330000  # 1.32 MB >= 60 appends of 20001 bytes


def fast_tmp():
    """Put the temporary files of this process on tmpfs when there is one.
    16 shards creating/unlinking real temp files on a journalled filesystem
    spend 3x the run in the kernel (measured: 36 s vs 13 s for the quick
    tier); the file objects waitress gets are the same BufferedRandom either
    way.  VF_C17_TMPDIR overrides; an empty value keeps the default."""
    import os
    import tempfile

    d = os.environ.get("VF_C17_TMPDIR", "/dev/shm")
    if d and os.path.isdir(d) and os.access(d, os.W_OK | os.X_OK):
        tempfile.tempdir = d


def quiet_size(f):
    """size of the file behind a file object, leaving the object alone (None: unknown)"""
    import io
    import os

    try:
        if isinstance(f, io.BytesIO):
            return f.getbuffer().nbytes
        return os.fstat(f.fileno()).st_size
    except Exception:  # noqa: BLE001
        return None


def pattern():
    """successive 4-byte big-endian counters; appended data is the next slice"""
    global _PAT
    if _PAT is None:
        _PAT = struct.pack(">%dI" % _PAT_WORDS, *range(0x01000000, 0x01000000 + _PAT_WORDS))
    return _PAT


# ------------------------------------------------------------------ alphabet


def append_sizes(ov):
    s = set()
    for lim in (STRLIM, ov):
        s.update((0, 1, lim - 1, lim, lim + 1))
    return sorted(x for x in s if x >= 0)


def alphabet(ov):
    """symbolic operations; arguments that depend on the queue length are
    resolved against the model by concrete()"""
    ops = [("append", n) for n in append_sizes(ov)]
    ops += [
        ("peek", "0"),
        ("peek", "1"),
        ("peek", "len"),
        ("peek", "len+7"),
        ("skip", "1"),
        ("skip", "half"),
        ("skip", "all"),
        ("getskip", "half"),
        ("fileview", None),
    ]
    return ops


def concrete(sym, qlen):
    """-> (opname, arg, new qlen) or None when the operation does not apply
    (consume on an empty queue, 'half' of fewer than two bytes)"""
    name, a = sym
    if name == "append":
        return name, a, qlen + a
    if name == "peek":
        return name, {"0": 0, "1": 1, "len": qlen, "len+7": qlen + 7}[a], qlen
    if name == "skip":
        if a == "1":
            return (name, 1, qlen - 1) if qlen >= 1 else None
        if a == "half":
            return (name, qlen // 2, qlen - qlen // 2) if qlen >= 2 else None
        return (name, qlen, 0) if qlen >= 1 else None
    if name == "getskip":
        n = max(1, qlen // 2)
        return name, n, qlen - min(n, qlen)
    return name, None, qlen


def enum_histories(ov, length, prefix):
    """all applicable concrete histories of exactly `length` ops that start
    with the symbolic prefix (a list of alphabet indices)"""
    alpha = alphabet(ov)
    ops = []
    qlen = 0
    for i in prefix:
        c = concrete(alpha[i], qlen)
        if c is None:
            return
        ops.append([c[0], c[1]])
        qlen = c[2]

    def rec(ops, qlen, depth):
        if depth == 0:
            yield ops
            return
        for sym in alpha:
            c = concrete(sym, qlen)
            if c is None:
                continue
            yield from rec(ops + [[c[0], c[1]]], c[2], depth - 1)

    yield from rec(ops, qlen, length - len(prefix))


def enum_count(ov, length, prefix=()):
    """size of the enumerated space (below a symbolic prefix), by dynamic
    programming over the queue length: applicability depends on nothing else"""
    alpha = alphabet(ov)
    memo = {}

    def cnt(qlen, depth):
        if depth == 0:
            return 1
        k = (qlen, depth)
        if k not in memo:
            t = 0
            for sym in alpha:
                c = concrete(sym, qlen)
                if c is not None:
                    t += cnt(c[2], depth - 1)
            memo[k] = t
        return memo[k]

    qlen = 0
    for i in prefix:
        c = concrete(alpha[i], qlen)
        if c is None:
            return 0
        qlen = c[2]
    return cnt(qlen, length - len(prefix))


# ---------------------------------------------------------------------- plan


def plan(tier, seed):
    tier = tier if tier in ENUM_LEN else "quick"
    L = ENUM_LEN[tier]
    specs = []
    sizes = {ov: enum_count(ov, L) for ov in OVERFLOWS}
    tot = sum(sizes.values())
    for ov in OVERFLOWS:
        a = len(alphabet(ov))
        parts = max(2, round(ENUM_SHARDS[tier] * sizes[ov] / tot))
        # two-operation prefixes, packed largest-first into the lightest part so
        # that every shard runs about the same number of histories; the split
        # does not depend on the seed (the space is enumerated completely)
        weighted = []
        for i in range(a):
            for j in range(a):
                n = enum_count(ov, L, (i, j))
                if n:
                    weighted.append((n, [i, j]))
        weighted.sort(key=lambda t: (-t[0], t[1]))
        bins = [[0, []] for _ in range(parts)]
        for n, pre in weighted:
            b = min(bins, key=lambda x: x[0])
            b[0] += n
            b[1].append(pre)
        for n, pres in bins:
            specs.append({"mode": "enum", "overflow": ov, "length": L, "prefixes": pres, "expect": n})
    nr = RAND_SHARDS[tier]
    for i in range(nr):
        specs.append({"mode": "rand", "seed": seed * 1000003 + 17 * 1009 + i, "n": RAND_N[tier] // nr})
    specs.append({"mode": "readonly", "seed": seed * 1000003 + 17 * 1009 + 999, "nrand": 300 if tier == "quick" else 3000})
    specs.append({"mode": "large"})
    specs.append({"mode": "threads", "rounds": 12 if tier == "quick" else 60})
    for p in range(4):
        specs.append({"mode": "sim-threads", "part": p, "parts": 4, "cap": 1200 if tier == "quick" else None})
    specs.append({"mode": "diskfull", "seed": seed})
    # long shards first; a few shards contribute the evidence samples
    specs.sort(key=lambda s: -s.get("expect", 0))
    for ov in (8191, 2):
        next(s for s in specs if s.get("overflow") == ov)["sample"] = True
    next(s for s in specs if s["mode"] == "rand")["sample"] = True
    return specs


def required_counters(tier):
    return [
        "trans:bytes->bytesio",
        "trans:bytes->tempfile",
        "trans:bytesio->tempfile",
        "readpos>0:bytes->bytesio",
        "readpos>0:bytes->tempfile",
        "readpos>0:bytesio->tempfile",
        "ops:append",
        "ops:peek",
        "ops:consume",
        "ops:fileview",
        "enum:histories",
        "rand:histories",
        "mutable-producer-histories",
        "large-histories",
        "threaded-buffers",
        "sim-threaded-buffer-runs",
        "diskfull:cases",
        "diskfull:append-raised",
        "remain_invariant_checked",
        "fileview_last",
        "readonly:cases",
        "readonly:bytesio",
        "readonly:tempfile",
        "readonly:clamped_by_size",
        "readonly:clamped_by_file",
        "readonly:nonseekable",
    ]


# ------------------------------------------------------- overflowable buffer


_FLIP = bytes(b ^ 0xFF for b in range(256))


def run_history(ov, ops, stats=None, mutable=False):
    """Execute one history on a real OverflowableBuffer in lock-step with the
    reference queue.  Returns (violations, representations visited).
    violation = (key, what, index of the offending op).  Stops at the first
    behavioural violation (model and buffer have diverged after it); a broken
    internal invariant is recorded once and the history continues."""
    core.use_waitress()
    from waitress import buffers as B

    PAT = pattern()
    Temp = B.TempfileBasedBuffer
    buf = B.OverflowableBuffer(ov)
    q = bytearray()
    appended = 0
    consumed = 0
    state = 0
    path = [0]
    lastpos = 0  # read position of the backing file after the previous op
    viol = None
    soft = None
    nops = len(ops)
    opc = [0, 0, 0, 0]
    trans = []
    ninv = 0
    left_unrestored = False
    i = -1
    try:
        for i in range(nops):
            name, arg = ops[i]
            try:
                if name == "append":
                    opc[0] += 1
                    data = PAT[appended : appended + arg]
                    if len(data) != arg:
                        raise AssertionError("pattern exhausted (harness)")
                    if mutable:
                        # the producer hands over a mutable object and reuses it afterwards
                        # (readinto-style): what was queued must not change with it
                        m = bytearray(data)
                        buf.append(m)
                        m[:] = m.translate(_FLIP)
                    else:
                        buf.append(data)
                    q += data
                    appended += arg
                elif name == "peek":
                    opc[1] += 1
                    r = buf.get(arg)
                    if type(r) is not bytes:
                        viol = ("peek-not-bytes", f"get({arg}) returned {type(r).__name__}", i)
                        break
                    if r != q[: len(r)]:
                        viol = (
                            "peek-not-prefix",
                            f"get({arg}) returned {len(r)} bytes that are not a prefix of the {len(q)} queued "
                            f"bytes: got {bytes(r[:16])!r}.. want {bytes(q[:16])!r}..",
                            i,
                        )
                        break
                    if len(r) < min(arg, len(q)):
                        viol = (
                            "peek-too-short",
                            f"get({arg}) returned {len(r)} bytes with {len(q)} queued",
                            i,
                        )
                        break
                elif name == "skip":
                    opc[2] += 1
                    buf.skip(arg, True)
                    del q[:arg]
                    consumed += arg
                elif name == "getskip":
                    opc[2] += 1
                    r = buf.get(arg, True)
                    exp = bytes(q[:arg])
                    del q[: len(exp)]
                    consumed += len(exp)
                    if r != exp:
                        viol = (
                            "consume-wrong-bytes",
                            f"get({arg}, skip=True) returned {len(r)} bytes {bytes(r[:16])!r}.., the queue head "
                            f"is {len(exp)} bytes {exp[:16]!r}..",
                            i,
                        )
                        break
                elif name == "fileview":
                    opc[3] += 1
                    f = buf.getfile()
                    pos = f.tell()
                    r = f.read()
                    if r != q:
                        viol = (
                            "fileview-mismatch",
                            f"getfile() read from position {pos} gave {len(r)} bytes {bytes(r[:16])!r}.., the queue "
                            f"holds {len(q)} bytes {bytes(q[:16])!r}..",
                            i,
                        )
                        break
                    if i != nops - 1:
                        f.seek(pos)
                    else:
                        left_unrestored = True
                else:
                    raise AssertionError("unknown op " + repr(name))
            except AssertionError:
                raise
            except Exception as e:  # any exception from an in-quantifier op
                viol = (
                    "exception:" + type(e).__name__,
                    f"{name}({arg}) raised {type(e).__name__}: {e} with {len(q)} bytes queued",
                    i,
                )
                break

            # ---- after every operation
            n = buf.__len__()
            ql = len(q)
            if n != ql:
                viol = (
                    "len-mismatch",
                    f"after {name}({arg}) __len__ is {n}, appended - consumed is {appended} - {consumed} = {ql}",
                    i,
                )
                break
            if bool(buf) != (ql > 0):
                viol = ("bool-mismatch", f"after {name}({arg}) bool() is {bool(buf)} with {ql} bytes queued", i)
                break
            inner = buf.buf
            if inner is not None:
                ns = 2 if type(inner) is Temp else 1
                if buf.overflowed != (ns == 2):
                    viol = (
                        "overflowed-flag",
                        f"after {name}({arg}) overflowed={buf.overflowed} but the stage is {REPR[ns]}",
                        i,
                    )
                    break
                f = inner.file
                pos = f.tell()
                if not left_unrestored:
                    # the size is taken without touching the file object (a seek to the end and back would
                    # re-synchronise the descriptor's offset with the logical one after every operation
                    # and so hide whatever depends on it); only a suspected mismatch is confirmed by seeking
                    end = quiet_size(f)
                    if end is None or inner.remain != end - pos:
                        end = f.seek(0, 2)
                        f.seek(pos)
                    ninv += 1
                    if inner.remain != end - pos and soft is None:
                        # internal invariant: reported, but the history goes on
                        # (the model has not diverged) so that the visible
                        # consequence, if any, is reported under its own key
                        soft = (
                            "remain-invariant",
                            f"after {name}({arg}) in stage {REPR[ns]}: remain={inner.remain} but file size {end} - "
                            f"position {pos} = {end - pos}",
                            i,
                        )
                if ns != state:
                    # (from, to, consumed something by now, real read position involved)
                    rp = (lastpos > 0) if state == 1 else (pos > 0)
                    trans.append((state, ns, consumed > 0, rp))
                    state = ns
                    path.append(ns)
                lastpos = pos
            elif state != 0:
                viol = ("stage-regressed", f"after {name}({arg}) the buffer went back to the bytes stage", i)
                break
    finally:
        try:
            buf.close()
        except Exception:
            pass
    if stats is not None:
        c = stats
        for k in range(4):
            if opc[k]:
                c[KIND_COUNTER[k]] = c.get(KIND_COUNTER[k], 0) + opc[k]
        if ninv:
            c["remain_invariant_checked"] = c.get("remain_invariant_checked", 0) + ninv
        if left_unrestored:
            c["fileview_last"] = c.get("fileview_last", 0) + 1
        for a, b, cons, rp in trans:
            nm = REPR[a] + "->" + REPR[b]
            c["trans-any:" + nm] = c.get("trans-any:" + nm, 0) + 1
            if cons:
                c["trans:" + nm] = c.get("trans:" + nm, 0) + 1
            if rp:
                c["readpos>0:" + nm] = c.get("readpos>0:" + nm, 0) + 1
    return [v for v in (soft, viol) if v is not None], path


def kind_letter(name, arg):
    if name == "append":
        return "z" if arg == 0 else ("a" if arg < 4096 else "A")
    return {"peek": "p", "skip": "s", "getskip": "g", "fileview": "f"}[name]


def ov_case(ov, ops):
    return {"kind": "overflowable", "overflow": ov, "ops": [list(o) for o in ops]}


def brief_ops(ops):
    return " ".join(f"{n}({'' if a is None else a})" for n, a in ops)


def do_history(acc, ov, ops, mode, mutable=False):
    viols, path = run_history(ov, ops, acc.counters, mutable=mutable)
    if mutable:
        acc.count("mutable-producer-histories")
    acc.evaluations += 1
    ps = ">".join(REPR[s] for s in path)
    letters = [kind_letter(n, a) for n, a in ops]
    if mode == "enum":
        acc.distinct.add(f"e|{ov}|{len(ops)}|{''.join(sorted(letters))}|{ps}")
    else:
        lb = 10 if len(ops) <= 10 else 20 if len(ops) <= 20 else 40 if len(ops) <= 40 else 60
        acc.distinct.add(f"r|{ov}|<={lb}|{''.join(sorted(set(letters)))}|{ps}")
    for key, what, idx in viols:
        # the whole history is kept (not cut at op#idx): whether a file view is
        # the last operation decides if its position is restored, so cutting
        # could change what is replayed; run_history stops at op#idx anyway
        case = ov_case(ov, ops)
        if mutable:
            case["mutable"] = True
            key = key + ":mutable-producer"
        acc.violation(key, f"overflow={ov} op#{idx}: {what} | history: {brief_ops(case['ops'])}"[:900], case)
    return path


def random_history(rng, ov):
    sizes = append_sizes(ov)
    n = rng.randint(1, RAND_MAXLEN)
    ops = []
    qlen = 0
    for i in range(n):
        r = rng.random()
        if r < 0.40:
            x = rng.random()
            if x < 0.40:
                a = rng.choice(sizes)
            elif x < 0.85:
                a = rng.randint(0, 64)
            elif x < 0.95:
                a = rng.randint(0, 9000)
            else:
                a = rng.randint(0, 20001)
            ops.append(["append", a])
            qlen += a
        elif r < 0.55:
            a = rng.choice((0, 1, qlen, qlen + 7, rng.randint(0, qlen + 1), 18000, max(0, qlen - 1)))
            ops.append(["peek", a])
        elif r < 0.75:
            if qlen == 0:
                continue
            a = rng.choice((1, qlen, rng.randint(1, qlen), max(1, qlen // 2), max(1, qlen - 1)))
            ops.append(["skip", a])
            qlen -= a
        elif r < 0.90:
            a = rng.choice((0, 1, qlen, qlen + 7, rng.randint(0, qlen + 1), max(1, qlen // 2)))
            ops.append(["getskip", a])
            qlen -= min(a, qlen)
        else:
            ops.append(["fileview", None])
    if not ops:
        ops.append(["append", rng.choice(sizes)])
    return ops


# ----------------------------------------------------------- read-only buffer


class NoSeek:
    """a file-like object with only read() and close()"""

    def __init__(self, data):
        self._data = data
        self._pos = 0
        self.closed = False

    def read(self, n=-1):
        if n is None or n < 0:
            n = len(self._data) - self._pos
        r = self._data[self._pos : self._pos + n]
        self._pos += len(r)
        return r

    def close(self):
        self.closed = True


def ro_content(F):
    return pattern()[5 : 5 + F]


def run_readonly(case):
    """-> list of (key, what).  case keys: file ('bytesio'|'tempfile'), F, P,
    size (None|int), n (peek size), policy ('all'|'one'|'half'|'rand'), kseed"""
    core.use_waitress()
    import io
    import tempfile

    from waitress import buffers as B

    F, P, size, n, policy = case["F"], case["P"], case["size"], case["n"], case["policy"]
    content = ro_content(F)
    if case["file"] == "bytesio":
        f = io.BytesIO(content)
    else:
        f = tempfile.TemporaryFile("w+b")
        f.write(content)
        f.flush()
    rng = random.Random(case.get("kseed", 0))
    out = []
    try:
        f.seek(P)
        rb = B.ReadOnlyFileBasedBuffer(f)
        avail = F - P
        want = avail if size is None else min(size, avail)
        expected = content[P : P + want]
        try:
            got = rb.prepare(size)
            if got != want:
                out.append(("readonly-prepare", f"prepare({size}) returned {got}, file has {avail} bytes from position {P}: want {want}"))
                return out
            if f.tell() != P:
                out.append(("readonly-position", f"prepare({size}) left the file at {f.tell()}, it was at {P}"))
                return out
            if rb.__len__() != want:
                out.append(("readonly-len", f"after prepare({size}) __len__ is {rb.__len__()}, want {want}"))
                return out
            taken = bytearray()
            pos = P
            steps = 0
            while rb.__len__() > 0:
                steps += 1
                remaining = want - len(taken)
                chunk = rb.get(n)
                if f.tell() != pos:
                    out.append(("readonly-position", f"peek get({n}) moved the file from {pos} to {f.tell()}"))
                    return out
                if len(chunk) > remaining:
                    out.append(
                        ("readonly-overrun", f"get({n}) yielded {len(chunk)} bytes with only {remaining} of the prepared {want} left")
                    )
                    return out
                if chunk != expected[len(taken) : len(taken) + len(chunk)]:
                    out.append(("readonly-wrong-bytes", f"get({n}) at offset {len(taken)} returned bytes that are not the file content there"))
                    return out
                if not chunk:
                    out.append(("readonly-underrun", f"get({n}) returned nothing with {remaining} of the prepared {want} bytes left"))
                    return out
                if policy == "all":
                    k = len(chunk)
                elif policy == "one":
                    k = 1
                elif policy == "half":
                    k = max(1, len(chunk) // 2)
                else:
                    k = rng.randint(1, len(chunk))
                rb.skip(k, True)
                pos += k
                taken += chunk[:k]
                if f.tell() != pos:
                    out.append(("readonly-position", f"skip({k}) left the file at {f.tell()}, want {pos}"))
                    return out
                if rb.__len__() != want - len(taken):
                    out.append(("readonly-len", f"after skip({k}) __len__ is {rb.__len__()}, want {want - len(taken)}"))
                    return out
                if steps > 2 * F + 10:
                    out.append(("readonly-underrun", "the flush loop does not terminate"))
                    return out
            if bytes(taken) != expected:
                key = "readonly-overrun" if len(taken) > want else "readonly-underrun"
                out.append((key, f"the flush loop obtained {len(taken)} bytes, want exactly {want}"))
                return out
            # drained: nothing more may come out, by any route
            for extra in (rb.get(n), rb.get(-1), rb.get(n, True)):
                if extra:
                    out.append(("readonly-overrun", f"a drained buffer (prepared {want}) still yielded {len(extra)} bytes"))
                    return out
            if f.tell() != P + want:
                out.append(("readonly-position", f"after draining the file is at {f.tell()}, want {P + want}"))
        except Exception as e:
            out.append(("exception:" + type(e).__name__, f"read-only buffer raised {type(e).__name__}: {e}"))
    finally:
        f.close()
    return out


def run_nonseekable(case):
    """file objects without seek/tell: prepare() must claim nothing and the
    task falls back to iteration, which must yield the content unchanged"""
    core.use_waitress()
    import os

    from waitress import buffers as B

    F, bs, size, how = case["F"], case["block_size"], case["size"], case["file"]
    content = ro_content(F)
    out = []
    wfd = None
    if how == "noseek":
        f = NoSeek(content)
    else:  # a pipe: has seekable() returning False
        rfd, wfd = os.pipe()
        os.write(wfd, content)  # F is kept below the pipe capacity
        os.close(wfd)
        f = os.fdopen(rfd, "rb")
    try:
        try:
            rb = B.ReadOnlyFileBasedBuffer(f, bs)
            got = rb.prepare(size)
            if got != 0:
                out.append(("readonly-prepare", f"prepare({size}) on a non-seekable file returned {got}"))
                return out
            pieces = []
            it = iter(rb)
            for piece in it:
                pieces.append(piece)
                if len(pieces) > F + 2:
                    break
            if b"".join(pieces) != content:
                out.append(("readonly-iter-mismatch", f"iteration yielded {sum(map(len, pieces))} bytes, not the {F} bytes of the file"))
            elif any(len(p) > bs or not p for p in pieces):
                out.append(("readonly-iter-mismatch", f"a piece is empty or longer than block_size {bs}"))
        except Exception as e:
            out.append(("exception:" + type(e).__name__, f"non-seekable read-only buffer raised {type(e).__name__}: {e}"))
    finally:
        f.close()
    return out


def readonly_grid():
    cases = []
    for kind in ("bytesio", "tempfile"):
        for F in (0, 1, 10, 100, 40000):
            for P in sorted({0, 3, F}):
                if P > F:
                    continue
                avail = F - P
                sizes = [None] + sorted(s for s in {0, 1, avail - 1, avail, avail + 5} if s >= 0)
                if F <= 100:
                    ns, pols = (1, 7, 18000), ("all", "one", "half")
                else:
                    ns, pols = (18000, 997), ("all", "half")
                for size in sizes:
                    for n in ns:
                        for pol in pols:
                            cases.append({"kind": "readonly", "file": kind, "F": F, "P": P, "size": size, "n": n, "policy": pol})
    return cases


def nonseekable_grid():
    cases = []
    for how in ("noseek", "pipe"):
        for bs in (1, 7, 32768):
            for F in sorted({0, 1, 6, 7, 8, 26, 32767, 32768, 32769}):
                if bs == 1 and F > 100:
                    continue
                for size in (None, 5):
                    cases.append({"kind": "nonseekable", "file": how, "F": F, "block_size": bs, "size": size})
    return cases


def do_readonly(acc, case):
    if case["kind"] == "nonseekable":
        vs = run_nonseekable(case)
        acc.count("readonly:nonseekable")
        acc.distinct.add(f"n|{case['file']}|{case['F']}|{case['block_size']}|{case['size']}")
    else:
        vs = run_readonly(case)
        acc.count("readonly:" + case["file"])
        avail = case["F"] - case["P"]
        if case["size"] is not None and case["size"] < avail:
            acc.count("readonly:clamped_by_size")
        if case["size"] is not None and case["size"] > avail:
            acc.count("readonly:clamped_by_file")
        if case["policy"] == "rand":
            acc.distinct.add(
                f"o|{case['file']}|F{min(case['F'], 1000) // 100}|P{'0' if case['P'] == 0 else 'end' if case['P'] == case['F'] else 'mid'}"
                f"|{'none' if case['size'] is None else 'lt' if case['size'] < avail else 'eq' if case['size'] == avail else 'gt'}|rand"
            )
        else:
            acc.distinct.add(f"o|{case['file']}|{case['F']}|{case['P']}|{case['size']}|{case['n']}|{case['policy']}")
    acc.evaluations += 1
    acc.count("readonly:cases")
    for key, what in vs:
        acc.violation(key, f"{what} | case {case}"[:900], case)


# ------------------------------------------------------------ failing temp file


def run_diskfull(acc, spec, only=None):
    """The temporary file cannot be written (disk full) while the buffer migrates to it or grows in
    it: append() may fail loudly, but a call that RETURNS leaves a consistent queue -- length =
    appended - consumed for the appends that returned, peeks are prefixes, nothing is lost silently."""
    import errno as _errno
    import tempfile

    from waitress import buffers as B

    PAT = pattern()
    real_tf = tempfile.TemporaryFile

    class FailingFile:
        def __init__(self, f, budget):
            self._f, self._budget = f, budget

        def write(self, data):
            if self._budget[0] < len(data):
                k = max(0, self._budget[0])
                if k:
                    self._f.write(data[:k])
                self._budget[0] = 0
                raise OSError(_errno.ENOSPC, "No space left on device")
            self._budget[0] -= len(data)
            return self._f.write(data)

        def __getattr__(self, name):
            return getattr(self._f, name)

    n = 0
    try:
        for ov in (0, 2, 8191, 8192, 20000):
            for budget in (0, 1, 4096, 8191, 8192, 12000, 30000):
                for sizes in ([9000, 9000, 9000], [5000, 5000, 5000, 5000, 5000], [8191, 1, 12000], [22000], [1, 8190, 1, 20001]):
                    for consume in (0, 7):
                        bud = [budget]
                        tempfile.TemporaryFile = lambda *a, **k: FailingFile(real_tf(*a, **k), bud)
                        buf = B.OverflowableBuffer(ov)
                        q = bytearray()
                        pos = 0
                        case = {"kind": "diskfull", "overflow": ov, "budget": budget, "sizes": sizes, "consume": consume}
                        if only is not None and case != only:
                            tempfile.TemporaryFile = real_tf
                            continue
                        n += 1
                        acc.evaluations += 1
                        raised = False
                        try:
                            for i, size in enumerate(sizes):
                                data = PAT[pos:pos + size]
                                pos += size
                                try:
                                    buf.append(data)
                                except OSError:
                                    raised = True
                                    acc.count("diskfull:append-raised")
                                    break
                                q += data
                                if consume and i == 0 and len(q) >= consume:
                                    try:
                                        buf.skip(consume, True)  # may have to create the file: a loud failure is fine
                                    except OSError:
                                        raised = True
                                        acc.count("diskfull:append-raised")
                                        break
                                    del q[:consume]
                            if raised:
                                continue
                            acc.count("diskfull:all-appends-returned")
                            if buf.__len__() != len(q):
                                acc.violation("len-mismatch:disk-full", f"after appends that all returned, __len__ is {buf.__len__()}, appended - consumed is {len(q)} | {case}", case)
                                continue
                            got = buf.get(len(q))
                            if got != bytes(q[:len(got)]) or len(got) < len(q):
                                acc.violation("peek-not-prefix:disk-full", f"get({len(q)}) returned {len(got)} bytes, the queue holds {len(q)} | {case}", case)
                        except Exception as e:  # noqa
                            acc.violation("exception:" + type(e).__name__ + ":disk-full", f"{type(e).__name__}: {e} | {case}", case)
                        finally:
                            try:
                                buf.close()
                            except Exception:  # noqa
                                pass
    finally:
        tempfile.TemporaryFile = real_tf
    # the temporary file cannot even be created (EMFILE) at the k-th attempt: the failing call raises, what
    # was queued before stays queued, and the buffer goes on working
    m = 0
    try:
        for ov in (0, 2, 8191, 20000):
            for kth in (1, 2):
                for sizes in ([9000, 9000], [5000, 5000, 5000], [1, 8191, 12000], [4000, 22000, 10]):
                    for consume in (0, 7):
                        if only is not None:
                            break
                        calls = [0]

                        def factory(*a, **k):
                            calls[0] += 1
                            if calls[0] == kth:
                                raise OSError(_errno.EMFILE, "Too many open files")
                            return real_tf(*a, **k)

                        tempfile.TemporaryFile = factory
                        buf = B.OverflowableBuffer(ov)
                        q = bytearray()
                        pos = 0
                        case = {"kind": "createfail", "overflow": ov, "kth": kth, "sizes": sizes, "consume": consume}
                        m += 1
                        acc.evaluations += 1
                        try:
                            alt = None  # the queue if the failing append had already taken its data
                            for i, size in enumerate(sizes):
                                data = PAT[pos:pos + size]
                                pos += size
                                try:
                                    buf.append(data)
                                    q += data
                                    if alt is not None:
                                        alt += data
                                except OSError:
                                    acc.count("createfail:append-raised")
                                    if alt is None:
                                        alt = bytearray(q) + data
                                if consume and i == 0 and len(q) >= consume:
                                    try:
                                        buf.skip(consume, True)
                                        del q[:consume]
                                        if alt is not None:
                                            del alt[:consume]
                                    except OSError:
                                        acc.count("createfail:skip-raised")
                            n_ = buf.__len__()
                            cands = [bytes(q)] + ([bytes(alt)] if alt is not None else [])
                            if n_ not in [len(c) for c in cands]:
                                acc.violation("len-mismatch:tempfile-creation-failed",
                                              f"after a failed temp-file creation __len__ is {n_}; what was accepted is {[len(c) for c in cands]} bytes | {case}", case)
                                continue
                            got = buf.get(n_)
                            if got not in cands and not any(c.startswith(got) and len(got) == n_ for c in cands):
                                acc.violation("peek-not-prefix:tempfile-creation-failed", f"get({n_}) does not return what was accepted | {case}", case)
                        except Exception as e:  # noqa
                            acc.violation("exception:" + type(e).__name__ + ":tempfile-creation-failed", f"{type(e).__name__}: {e} | {case}", case)
                        finally:
                            try:
                                buf.close()
                            except Exception:  # noqa
                                pass
    finally:
        tempfile.TemporaryFile = real_tf
    acc.count("createfail:cases", m)
    acc.count("diskfull:cases", n)
    acc.sample({"mode": "diskfull", "cases": n, "creation_failures": m})


# --------------------------------------------------------------------- shards


def run_shard(spec):
    core.use_waitress()
    fast_tmp()
    acc = Acc()
    mode = spec["mode"]
    if mode == "enum":
        ov, L = spec["overflow"], spec["length"]
        n = 0
        for prefix in spec["prefixes"]:
            for ops in enum_histories(ov, L, prefix):
                path = do_history(acc, ov, ops, "enum")
                if n % 7 == 0:
                    do_history(acc, ov, ops, "enum", mutable=True)
                n += 1
                if spec.get("sample") and len(path) == 3 and len(acc.samples) < 1 and ops[-1][0] != "append":
                    acc.sample({"overflow": ov, "history": brief_ops(ops), "representations": ">".join(REPR[s] for s in path)})
        acc.count("enum:histories", n)
        acc.count(f"enum:histories:overflow={ov}", n)
    elif mode == "rand":
        rng = random.Random(spec["seed"])
        for _ in range(spec["n"]):
            ov = rng.choice(OVERFLOWS)
            ops = random_history(rng, ov)
            path = do_history(acc, ov, ops, "rand", mutable=(_ % 4 == 3))
            acc.maxi("random_history_max_len", len(ops))
            if spec.get("sample") and len(path) == 3 and len(ops) <= 12 and len(acc.samples) < 1:
                acc.sample({"overflow": ov, "random_history": brief_ops(ops), "representations": ">".join(REPR[s] for s in path)})
        acc.count("rand:histories", spec["n"])
    elif mode == "large":
        # queues of several hundred kB (beyond any internal copy-block size): peeks as long as the queue
        n = 0
        for ov in (0, 8191, 300000, 1048576):
            for big in (262144, 262145, 300001, 524289):
                for ops in (
                    [["append", big], ["peek", big], ["peek", big + 7], ["getskip", 1], ["peek", big - 1], ["skip", big - 1]],
                    [["append", 20001], ["append", big - 20001], ["peek", big], ["getskip", 262144], ["peek", big - 262144], ["fileview", None]],
                    [["append", big], ["skip", 5], ["peek", big - 5], ["append", 9000], ["peek", big + 8995], ["getskip", big + 8995]],
                ):
                    do_history(acc, ov, ops, "rand")
                    n += 1
        acc.count("large-histories", n)
        acc.sample({"mode": "large", "queued_up_to": 533289})
    elif mode == "diskfull":
        run_diskfull(acc, spec)
    elif mode == "sim-threads":
        # the same question decided deterministically: two managed threads of the Sim, each with its own
        # buffer, every single pre-emption at a source line of buffers.py (one thread is interrupted
        # anywhere inside an operation -- e.g. in the middle of a migration loop -- while the other one
        # runs its whole history)
        sim_threads(acc, spec)
    elif mode == "threads":
        # buffers of different connections live in different threads: each one is used sequentially, but
        # several migrate to a temp file at the same time (real threads, a very short switch interval)
        import sys as _sys
        import threading

        from waitress import buffers as B

        old_iv = _sys.getswitchinterval()
        _sys.setswitchinterval(1e-6)
        bad = []
        total = [0]

        def worker(tix, rounds):
            for r in range(rounds):
                # thresholds above one internal copy block: the in-memory file holds several hundred kB when it
                # migrates, so the copy loop runs more than once
                ov = (300000, 420000, 9000)[(tix + r) % 3]
                buf = B.OverflowableBuffer(ov)
                want = bytearray()
                block = bytes([65 + tix]) * 50000 + b"%04d" % r
                for _i in range(10):  # 500 kB
                    buf.append(block)
                    want += block
                if ov == 9000:
                    buf.skip(5, True)
                    del want[:5]
                got = bytearray()
                while True:
                    chunk = buf.get(65536, skip=True)
                    if not chunk:
                        break
                    got += chunk
                total[0] += 1
                if bytes(got) != bytes(want):
                    first = next((i for i in range(min(len(got), len(want))) if got[i] != want[i]), min(len(got), len(want)))
                    bad.append((tix, r, ov, len(got), len(want), first))
                buf.close()

        try:
            ths = [threading.Thread(target=worker, args=(i, spec["rounds"])) for i in range(4)]
            for t in ths:
                t.start()
            for t in ths:
                t.join(600)
        finally:
            _sys.setswitchinterval(old_iv)
        acc.evaluations += total[0]
        acc.count("threaded-buffers", total[0])
        for tix, r, ov, lg, lw, first in bad[:5]:
            acc.violation("foreign-bytes-under-concurrency",
                          f"a buffer used by one thread only (overflow={ov}) returned {lg} bytes for {lw} queued, first difference at offset {first}, "
                          f"while three other threads used their own buffers", {"kind": "threads", "rounds": spec["rounds"]})
        acc.sample({"mode": "threads", "buffers": total[0], "threads": 4})
    else:
        rng = random.Random(spec["seed"])
        for case in readonly_grid() + nonseekable_grid():
            do_readonly(acc, case)
        for i in range(spec["nrand"]):
            F = rng.choice((0, 1, 2, 5, 50, 333, rng.randint(0, 5000)))
            P = rng.choice((0, F, rng.randint(0, F)))
            avail = F - P
            size = rng.choice((None, 0, 1, max(0, avail - 1), avail, avail + 5, rng.randint(0, avail + 10)))
            n = rng.choice((1, 7, 18000, rng.randint(1, 600)))
            if F > 300 and n < 50:
                n = rng.randint(50, 600)
            do_readonly(
                acc,
                {"kind": "readonly", "file": rng.choice(("bytesio", "tempfile")), "F": F, "P": P, "size": size,
                 "n": n, "policy": "rand", "kseed": rng.randrange(1 << 30)},
            )
        acc.sample({"read_only_cases": acc.evaluations, "example": next(c for c in readonly_grid() if c["F"] == 100 and c["P"] == 3 and c["size"] == 96 and c["n"] == 7 and c["policy"] == "half")})
    return acc.out()



def sim_thread_run(strat, shapes):
    """-> (mismatches, pilot, steps); shapes: per thread (overflow, block size, blocks, skip)"""
    from vf.sim import runner as R
    from vf.sim.world import World
    from waitress import buffers as B

    w = World(None, strategy=R.make_strategy(strat), start_server=False, infinite_poll=False, step_limit=200000,
              record_pilot=strat.get("kind") == "np")
    out = {}

    def worker(tix):
        ov, bs, nb, skip = shapes[tix]
        buf = B.OverflowableBuffer(ov)
        want = bytearray()
        for i in range(nb):
            block = bytes([65 + tix]) * bs + b"%02d" % i
            buf.append(block)
            want += block
            if i == 1 and skip:
                buf.skip(skip, True)
                del want[:skip]
        got = bytearray()
        while True:
            chunk = buf.get(4000, skip=True)
            if not chunk:
                break
            got += chunk
        buf.close()
        out[tix] = (bytes(got), bytes(want))

    for i in range(len(shapes)):
        w.actor(worker, i, name="buf%d" % i)
    try:
        reason = w.run(60)
        bad = []
        for tix in range(len(shapes)):
            if tix not in out:
                bad.append((tix, "thread did not finish (%s; %s)" % (reason, w.failed)))
                continue
            got, want = out[tix]
            if got != want:
                first = next((i for i in range(min(len(got), len(want))) if got[i] != want[i]), min(len(got), len(want)))
                bad.append((tix, "returned %d bytes for %d queued, first difference at offset %d (%r for %r)"
                            % (len(got), len(want), first, got[first:first + 4], want[first:first + 4])))
        for t in w.sched.threads:
            if t.exc is not None:
                bad.append((t.name, "raised %r" % (t.exc,)))
        return bad, list(w.sched.pilot or ()), w.sched.steps
    finally:
        w.close()


SIM_THREAD_SHAPES = [
    # (overflow, block size, blocks, skip): both cross strbuf -> in-memory file -> temp file
    [(9000, 3000, 5, 5), (12000, 3500, 5, 0)],
    [(0, 100, 3, 0), (0, 100, 3, 1)],
    [(9000, 5000, 3, 0), (9000, 5000, 3, 0), (30000, 9000, 4, 7)],
]


def sim_threads(acc, spec):
    import random as _r

    n = 0
    for si, shapes in enumerate(SIM_THREAD_SHAPES):
        bad, pilot, steps = sim_thread_run({"kind": "np"}, shapes)
        for who, what in bad:
            acc.violation("foreign-bytes-under-concurrency", f"buffer of thread {who} (used by that thread only) {what}; schedule: none pre-empted",
                          {"kind": "sim-threads", "shapes": shapes, "strat": {"kind": "np"}})
        points = [(e[0], tid) for e in pilot for tid in e[1]]
        if spec.get("cap") and len(points) > spec["cap"] * spec["parts"]:
            points = sorted(_r.Random(len(points)).sample(points, spec["cap"] * spec["parts"]))
            acc.count("sim-threads-capped")
        for step, tid in points[spec["part"] :: spec["parts"]]:
            strat = {"kind": "forced", "switches": {str(step): tid}}
            bad, _p, _s = sim_thread_run(strat, shapes)
            n += 1
            acc.evaluations += 1
            acc.distinct.add("simthr|%d|%d|%d" % (si, step, tid))
            for who, what in bad:
                acc.violation("foreign-bytes-under-concurrency",
                              f"buffer of thread {who} (used by that thread only) {what}; one pre-emption at step {step}",
                              {"kind": "sim-threads", "shapes": shapes, "strat": strat})
        acc.sample({"mode": "sim-threads", "shapes": shapes, "single_preemptions": len(points), "steps": steps}, limit=1)
    acc.count("sim-threaded-buffer-runs", n)


# --------------------------------------------------------------------- replay


def replay(case):
    core.use_waitress()
    fast_tmp()
    kind = case.get("kind")
    if kind == "overflowable":
        ops = [tuple(o) for o in case["ops"]]
        viols, path = run_history(case["overflow"], [list(o) for o in ops], mutable=bool(case.get("mutable")))
        return [
            {"key": key + (":mutable-producer" if case.get("mutable") else ""),
             "what": f"overflow={case['overflow']} op#{idx}: {what} | history: {brief_ops(case['ops'])}"[:900], "case": case}
            for key, what, idx in viols
        ]
    if kind == "sim-threads":
        bad, _p, _s = sim_thread_run(case["strat"], [tuple(x) for x in case["shapes"]])
        return [{"key": "foreign-bytes-under-concurrency", "what": f"buffer of thread {who} {what}", "case": case} for who, what in bad]
    if kind == "threads":
        return []  # a stress run with real threads is not replayable step by step
    if kind == "createfail":
        acc = Acc()
        run_diskfull(acc, {}, only=None)
        return [v for v in acc.violations if v.get("case") == case]
    if kind == "diskfull":
        acc = Acc()
        run_diskfull(acc, {}, only={k: case[k] for k in ("kind", "overflow", "budget", "sizes", "consume")})
        return acc.violations
    if kind == "readonly":
        vs = run_readonly(case)
    elif kind == "nonseekable":
        vs = run_nonseekable(case)
    else:
        raise SystemExit("C17 replay: unknown case kind " + repr(kind))
    return [{"key": k, "what": f"{w} | case {case}"[:900], "case": case} for k, w in vs]


# --------------------------------------------------------------------- finish


def finish(agg, tier, coverage):
    tier = tier if tier in ENUM_LEN else "quick"
    L = ENUM_LEN[tier]
    c = agg["counters"]
    expected = {ov: enum_count(ov, L) for ov in OVERFLOWS}
    got = {ov: c.get(f"enum:histories:overflow={ov}", 0) for ov in OVERFLOWS}
    complete = expected == got
    coverage["exhaustive"] = complete
    coverage["enumerated"] = {
        str(ov): {"alphabet_size": len(alphabet(ov)), "append_sizes": append_sizes(ov), "histories": got[ov], "expected": expected[ov]}
        for ov in OVERFLOWS
    }
    coverage["exhaustive_note"] = (
        f"enumerated completely: every history of exactly {L} applicable operations (hence, as prefixes checked after "
        f"every operation, every history of 1..{L} operations) for each overflow threshold in {OVERFLOWS}, over the "
        "per-threshold alphabet { append(n) for n in {0,1,8191,8192,8193} + {overflow-1, overflow, overflow+1} (n >= 0); "
        "get(0); get(1); get(len); get(len+7); skip(1,True); skip(len//2,True) [len>=2]; skip(len,True) [len>=1]; get(max(1,len//2),skip=True); "
        "getfile()+read (position restored unless it is the last operation) }, "
        f"{sum(got.values())} histories, count cross-checked against a dynamic-programming count of the space; "
        "consume operations on an empty queue are not applicable and such sequences are not counted. "
        f"Beyond that bound: {c.get('rand:histories', 0)} seeded random histories of length <= {RAND_MAXLEN} over wider "
        "arguments (peek 0/len/18000, get-with-skip 0/len+7, arbitrary sizes) are sampled, not exhaustive. The read-only "
        "buffer grid (file kind x F x P x size x peek size x send policy) is enumerated completely as listed in the check."
    )
    if not complete:
        coverage["inconclusive"].append(
            "enumerated history count differs from the size of the space: "
            + ", ".join(f"overflow={ov}: {got[ov]}/{expected[ov]}" for ov in OVERFLOWS if got[ov] != expected[ov])
        )
