"""C09 -- application failures are contained; the iterable is always closed."""

import itertools
import random

from vf import core
from vf.core import Acc

ID = "C09"
LEVEL = "fault_enumeration"
RULE = (
    "base set of DSL programs (return kinds list / generator / iterable with len / file_wrapper seekable and not, both "
    "start_response timings, bodies smaller and larger than the send buffer, Content-Length present or not, close() "
    "present / absent / raising) with an exception injected at EVERY step index (call, after start_response, before and "
    "after each write / chunk, close) x exception class {Exception, OSError, BaseException} x expose_tracebacks x "
    "log_socket_errors; and a client disconnect (RST, full close) injected at EVERY server send() of the fault-free run. "
    "Real threaded server in the Sim (low pre-emption); a probe request on a fresh connection follows each case. "
    "distinct = (program, injection point, class, flags)"
)
ASSUMPTIONS = [
    "apps.intended() says whether the failure happens before or after output began",
    "schedules: non-pre-emptive plus a few random-walk schedules per case (schedules are C04/C05's subject)",
]
SHARD_TIMEOUT = {"quick": 600, "thorough": 3000}

CLASSES = ["Exception", "OSError", "BaseException", "ConnectionRefusedError", "BrokenPipeError", "TimeoutError", "SystemExit", "KeyError"]


def required_counters(tier):
    return ["inject:call", "inject:after-sr", "inject:mid-body", "inject:close", "disconnect:RST", "disconnect:CLOSE", "disconnect:110",
            "close-events", "file-close-events", "outcome:500", "outcome:truncated", "probe-served", "class:Exception",
            "class:OSError", "class:BaseException", "expose:on", "expose:off", "logsock:on", "logsock:off",
            "disconnect-before-output", "disconnect-raced-application-output", "pipelined-file-teardowns", "handover-race-schedules", "stalled-peer-reaped-by-idle-cleanup", "head-requests"]


def base_programs():
    progs = []
    big = "".join(chr(65 + i % 26) for i in range(1500))
    shapes = {
        "one": [["yield", "hello-one"]],
        "several": [["yield", "aa"], ["yield", ""], ["yield", "bbbb"], ["yield", "cc"]],
        "write": [["write", "w1w1"], ["write", "w2w2w2"]],
        "mixed": [["write", "wwww"], ["yield", "yyyy"], ["yield", "zz"]],
        "big": [["yield", big], ["yield", big[:700]]],
        "empty": [],
    }
    for ret in ("list", "gen", "iterlen"):
        for shape, steps in shapes.items():
            for cl in (False, True):
                for sr in ("call", "next"):
                    if sr == "next" and ret == "list":
                        continue
                    if sr == "next" and any(op == "write" for op, _ in steps):
                        continue
                    n = sum(len(a) for op, a in steps)
                    p = {"status": "200 OK", "headers": [["X-P", "%s-%s" % (ret, shape)]], "cl": n if cl else None,
                         "sr": sr, "steps": [list(s) for s in steps], "ret": ret,
                         "close": "ok" if ret != "list" else "none", "exc": "Exception"}
                    progs.append(p)
    for ret in ("fw_seek", "fw_noseek", "fw_seek_noclose"):
        for size in (10, 1500):
            for cl in (False, True):
                content = big[:size]
                p = {"status": "200 OK", "headers": [["X-P", ret]], "cl": size if cl else None, "sr": "call", "steps": [],
                     "ret": ret, "fw": {"content": content, "pos": 0}, "close": "ok", "exc": "Exception"}
                progs.append(p)
    # iterable without close()
    progs.append({"status": "200 OK", "headers": [], "cl": None, "sr": "call", "steps": [["yield", "abc"]], "ret": "gen",
                  "close": "none", "exc": "Exception"})
    return progs


def injections(prog):
    """-> list of (label, program with the failure injected)"""
    out = []
    steps = prog["steps"]
    if not prog["ret"].startswith("fw_"):
        # the call itself, before start_response
        p = dict(prog, sr="never", steps=[["raise", "call"]] + steps)
        if prog["sr"] == "call":
            out.append(("call", p))
        for j in range(len(steps) + 1):
            p = dict(prog, steps=steps[:j] + [["raise", "step%d" % j]] + steps[j:])
            out.append(("after-sr" if j == 0 else "mid-body", p))
    else:
        out.append(("call", dict(prog, sr="never", steps=[["raise", "call"]])))
        out.append(("after-sr", dict(prog, steps=[["raise", "step0"]])))
    if prog.get("close") == "ok" and not prog["ret"].startswith("fw_"):
        out.append(("close", dict(prog, close="raise")))
    if prog["ret"] in ("gen", "iterlen") and prog.get("close") == "ok" and not any(op == "write" for op, _ in steps) \
            and any(op == "yield" and a for op, a in steps):
        # the iterable has __len__ but asking fails: whether and when the server asks is its business;
        # the failure is the application's, to be contained like any other
        out.append(("len", dict(prog, ret="iterlen", len_raises=True)))
    return out


PROBE = {"status": "200 OK", "headers": [["X-Probe", "1"]], "cl": 5, "sr": "call", "steps": [["yield", "probe"]], "ret": "list"}


def run_case(case, strat=None, record_pilot=False):
    """case: {prog, exc, expose, logsock, version, disconnect: None | [kind, k]}  -> observation dict"""
    from vf import apps
    from vf.sim import runner as R
    from vf.sim.world import World
    from vf.ref import response as rs

    prog = dict(case["prog"], exc=case["exc"])
    log = apps.Log()
    holder = {}

    def app(environ, start_response):
        return holder["app"](environ, start_response)

    adj = {"threads": 2, "expose_tracebacks": case["expose"], "log_socket_errors": case["logsock"], "send_bytes": 1}
    if case.get("watermark"):
        adj["outbuf_high_watermark"] = case["watermark"]
    if case.get("stall_timeout"):
        adj["channel_timeout"] = 3
        adj["cleanup_interval"] = 1
        adj["asyncore_loop_timeout"] = 1
    if case.get("after_head"):
        # (with look-ahead the channel keeps reading while the request executes and notices the disconnect)
        adj["channel_request_lookahead"] = 1
    early = case.get("early_disconnect")
    if early:
        # the channel keeps reading while the request executes, so it learns about the
        # disconnect before the application has produced anything
        adj["channel_request_lookahead"] = 1
        prog = dict(prog, steps=[["wait", "gate"]] + list(prog["steps"]))
    w = World(app, strategy=R.make_strategy(strat or {"kind": "np"}), adj_kw=adj, sndbuf=case.get("sndbuf", 600), step_limit=150000,
              record_pilot=record_pilot, infinite_poll=not case.get("stall_timeout"))

    prog2 = case.get("prog2")

    def pick(environ, n):
        if environ["PATH_INFO"] == "/case2":
            return prog2
        return PROBE if environ["PATH_INFO"] == "/probe" else prog

    gate = w.Event()
    holder["app"] = apps.make_app(pick, log, world=w, events={"gate": gate},
                                  rid_of=lambda env, n: {"/probe": "probe", "/case2": "case2"}.get(env["PATH_INFO"], "case"))
    if case.get("disconnect"):
        kind, k = case["disconnect"]
        if isinstance(kind, int):
            # the peer is gone for good: every send from the k-th on fails with this errno
            w.net.faults_from = {(0, "send"): (k, kind)}
        else:
            w.net.faults[(0, "send", k)] = kind
    out = {}
    done = w.Event()

    def client():
        c = w.connect()
        v = case.get("version", "1.1")
        if case.get("pipeline_files"):
            # two pipelined file responses to a client that never reads; once both are queued the
            # client resets the connection: every file handed over must be closed at teardown
            c.send(b"GET /case HTTP/1.1\r\nHost: h\r\n\r\nGET /case2 HTTP/1.1\r\nHost: h\r\n\r\n")
            w.wait_until(lambda: log.count("return", "case2") > 0, timeout=20.0)
            w.sleep(1.0)
            c.reset() if case["pipeline_files"] == "RST" else c.close()
            w.sleep(5.0)
            out["received"] = bytes(c.conn.client_received)
            out["eof"] = True
            out["client"] = c
            done.set()
            return
        c.send(("%s /case HTTP/%s\r\nHost: h\r\n\r\n" % (case.get("method", "GET"), v)).encode())
        if case.get("stall_timeout"):
            # never reads a byte and stays connected: only the idle clean-up can end this connection
            w.sleep(14.0)
            out["received"] = bytes(c.conn.client_received)
            out["eof"] = c.conn.server_closed
            out["client"] = c
            done.set()
            return
        if case.get("after_head"):
            # goes away the moment the first bytes of the response arrive (the head is on the wire,
            # the body may not have been handed over yet)
            c.wait(lambda cl: len(cl.received) > 0, timeout=30.0)
            c.reset() if case["after_head"] == "RST" else c.close()
            w.sleep(5.0)
            out["received"] = c.received
            out["eof"] = True
            out["client"] = c
            done.set()
            return
        if early:
            # wait until the application is running, go away, give the server (virtual)
            # time to notice, then let the application carry on
            w.wait_until(lambda: log.count("wait", "case") > 0, timeout=20.0)
            if early == "RST":
                c.reset()
            else:
                c.close()
            if not case.get("early_race"):
                # (in the race variant the application carries on at once: its output and the
                # I/O thread's teardown of the channel overlap)
                w.sleep(2.0)
            gate.set()
            w.sleep(5.0)
            out["received"] = c.received
            out["eof"] = True
            out["client"] = c
            done.set()
            return
        c.wait(lambda cl: _complete(cl, rs))
        # give the server (virtual) time to close the connection if it is going to
        c.wait(lambda cl: cl.eof(), timeout=5.0)
        out["received"] = c.received
        out["eof"] = c.eof()
        out["client"] = c
        done.set()

    def prober():
        done.wait()
        c = w.connect()
        c.send(b"GET /probe HTTP/1.1\r\nHost: h\r\nConnection: close\r\n\r\n")
        c.wait(lambda cl: _complete(cl, rs))
        out["probe"] = c.received

    def releaser():
        # if the first client is never answered (hang), still probe the server
        w.sleep(50.0)
        done.set()

    w.actor(client, name="client")
    w.actor(prober, name="prober")
    w.actor(releaser, name="releaser")
    reason = w.run(60)
    out["reason"] = reason
    out["log"] = log
    out["world"] = w
    out["sends"] = w.net.conns[0].opcount.get("send", 0) if w.net.conns else 0
    if "received" not in out and w.net.conns:
        out["received"] = bytes(w.net.conns[0].client_received)
        out["eof"] = w.net.conns[0].client_sees_eof()
        out["client_stuck"] = True
    return out


def _complete(cl, rs):
    r, err, left = rs.parse_responses(cl.received, ["GET"], eof=False)
    return any(not x["interim"] and x.get("complete") and x["framing"] != "eof" for x in r)


def judge(case, o, acc):
    from vf import apps
    from vf.ref import response as rs

    out = []
    w = o["world"]
    if w.failed:
        return [("harness:" + w.failed, "run did not finish")]
    prog = dict(case["prog"], exc=case["exc"])
    log = o["log"]
    I = apps.intended(prog, "GET")
    disconnect = case.get("disconnect") or ([case["early_disconnect"], -1] if case.get("early_disconnect") else None)
    wire = o.get("received", b"")
    resps, werr, left = rs.parse_responses(wire, [case.get("method", "GET")], eof=o.get("eof", False))
    # ---- threads survive
    if not w.io_alive():
        out.append(("io-thread-died", "I/O loop ended: " + getattr(w, "loop_error", "?")))
    dead = [t.name for t in w.worker_threads if t.state == "done"]
    if dead:
        out.append(("worker-died", f"worker thread(s) {dead} ended"))
    probe = o.get("probe", b"")
    if b"probe" in probe and b" 200 " in probe.split(b"\r\n", 1)[0]:
        acc.count("probe-served")
    else:
        out.append(("probe-not-served", f"a fresh connection was not served after the failure: {probe[:80]!r}"))
    # ---- iterable closed exactly once; file closed
    returned = log.count("return", "case") > 0
    closes = log.count("iter-close", "case")
    fcloses = log.count("file-close", "case")
    acc.count("close-events", closes)
    acc.count("file-close-events", fcloses)
    if returned and not prog["ret"].startswith("fw_") and prog.get("close") != "none":
        if closes != 1:
            out.append(("iterable-close-count", f"close() of the application iterable called {closes} times (expected exactly 1)"))
    if returned and prog["ret"] in ("fw_seek", "fw_noseek"):
        if fcloses < 1:
            out.append(("file-not-closed", "the file handed to wsgi.file_wrapper was never closed"))
        elif fcloses > 1:
            acc.count("file-closed-more-than-once")
    if prog.get("len_raises") and not disconnect:
        # either the server never asked (complete 200) or the failure is answered like any other before
        # output (complete 500, connection closed); the iterable is closed either way (judged above)
        finals = [r for r in resps if not r["interim"]]
        asked = log.count("len-raised", "case") > 0
        acc.count("len-probe:asked" if asked else "len-probe:not-asked")
        if not finals or not finals[0].get("complete") or werr:
            out.append(("len-failure-not-contained", f"asked={asked}: no complete response (eof={o.get('eof')}, wire={wire[:60]!r}, err={werr})"))
        elif asked and finals[0]["status"] not in (200, 500):
            # (a server may also shrug the TypeError off and go on without a length: 200)
            out.append(("len-failure-not-contained", f"len() of the iterable raised and the response is {finals[0]['status']}"))
        elif not asked and finals[0]["status"] != 200:
            out.append(("len-failure-not-contained", f"len() was never asked but the response is {finals[0]['status']}"))
        return out
    if case.get("after_head"):
        acc.count("disconnect-between-head-and-body-handover")
        return out
    if case.get("stall_timeout"):
        acc.count("stalled-peer-reaped-by-idle-cleanup")
        if not o.get("eof"):
            out.append(("stalled-connection-not-closed", "the idle clean-up did not close the connection of a peer that never read"))
        return out
    if case.get("pipeline_files"):
        acc.count("pipelined-file-teardowns")
        if log.count("return", "case2") > 0 and log.count("file-close", "case2") < 1:
            out.append(("file-not-closed:behind-a-failing-close",
                        "the second pipelined file was never closed after the first file's close() raised at teardown"))
        return out
    if disconnect:
        acc.count("disconnect:" + str(disconnect[0]))
        return out
    # ---- what the client must see
    fail = I["fail"]
    close_raises = prog.get("close") == "raise" and returned
    marker = b"app-failure"
    if fail is None and close_raises:
        # close() raised after the body was handed over
        fail = "mid-output" if (I["delivered"] or any(op == "write" for op, _ in prog["steps"])) else "no-output"
    if o.get("client_stuck") and not o.get("eof"):
        out.append(("no-response-after-failure:" + case["exc"],
                    f"client still waiting at the end: neither a response nor a close ({len(wire)} bytes received); failure={fail}"))
        return out
    if fail == "no-output":
        acc.count("outcome:500")
        finals = [r for r in resps if not r["interim"]]
        if not finals:
            out.append(("failure-before-output-not-500:" + case["exc"] + (":logsock-off" if not case["logsock"] else ""),
                        f"no response at all for a failure before any output (eof={o.get('eof')}, wire={wire[:60]!r})"))
            return out
        r = finals[0]
        if r["status"] != 500 or not r.get("complete") or werr:
            out.append(("failure-before-output-not-500:" + case["exc"], f"status {r['status']} complete={r.get('complete')} err={werr}"))
            return out
        if not o.get("eof"):
            out.append(("not-closed-after-500", "connection left open after the 500"))
        if case["expose"]:
            if marker not in r["body"]:
                acc.count("expose-on-marker-missing")
        elif marker in wire:
            out.append(("traceback-leaked", "exception text on the wire although expose_tracebacks is off"))
    elif fail == "mid-output":
        acc.count("outcome:truncated")
        if not o.get("eof"):
            out.append(("not-closed-after-late-failure", "connection left open after a failure in mid-response"))
        finals = [r for r in resps if not r["interim"]]
        if finals:
            body = finals[0]["body"]
            if not I["delivered"].startswith(body) and finals[0]["framing"] != "chunked":
                out.append(("bytes-after-failure", f"body {body[:40]!r} is not a prefix of what the application delivered before failing"))
            if len(finals) > 1:
                out.append(("bytes-after-failure", "a second response after the failure"))
            if I["fail"] == "mid-output" and finals[0]["framing"] == "chunked" and finals[0].get("complete"):
                # the application failed in mid-body: a last-chunk after that presents the
                # truncated body to the client as a complete response
                out.append(("bytes-after-failure:chunked-response-terminated",
                            f"the chunked response was terminated (last-chunk sent) after the application failed with {len(I['delivered'])} bytes delivered"))
        if marker in wire:
            out.append(("traceback-leaked", "exception text on the wire after output had begun"))
    return out


def run_and_judge(acc, case, dkey, strat=None):
    o = run_case(case, strat)
    try:
        vs = judge(case, o, acc)
        acc.evaluations += 1
        acc.distinct.add(dkey)
        acc.count("class:" + case["exc"])
        acc.count("expose:" + ("on" if case["expose"] else "off"))
        acc.count("logsock:" + ("on" if case["logsock"] else "off"))
        for key, what in vs:
            if key.startswith("harness:"):
                acc.inconclusive.append(key)
                continue
            acc.violation(key, what, {"case": case, "strat": strat})
        return o, vs
    finally:
        leaked = o["world"].close()
        if leaked:
            acc.count("leaked_threads", leaked)


def plan(tier, seed):
    progs = base_programs()
    n = len(progs)
    shards = 32 if tier == "quick" else 64
    specs = []
    for i in range(shards):
        specs.append({"mode": "inject", "part": i, "parts": shards, "sample": 1, "seed": seed, "schedules": 1 if tier == "quick" else 4})
    for i in range(4):
        specs.append({"mode": "early", "part": i, "parts": 4, "schedules": 1 if tier == "quick" else 4, "seed": seed})
    specs.append({"mode": "pipelined-files", "schedules": 2 if tier == "quick" else 8, "seed": seed, "part": 0})
    specs.append({"mode": "handover-race", "part": 0, "seed": seed, "second": 4 if tier == "quick" else 12})
    nr = 16 if tier == "quick" else 32
    for i in range(nr):
        specs.append({"mode": "early-race", "part": i, "parts": nr, "cap": 40 if tier == "quick" else 400, "seed": seed})
    for i in range(16 if tier == "quick" else 32):
        specs.append({"mode": "disconnect", "part": i, "parts": 16 if tier == "quick" else 32, "sample": 1, "seed": seed, "schedules": 1 if tier == "quick" else 4})
    return specs


def run_shard(spec):
    acc = Acc()
    progs = base_programs()
    rng = random.Random(spec["seed"] * 17 + spec["part"])
    if spec["mode"] == "inject":
        k = 0
        for pi, prog in enumerate(progs):
            for label, p in injections(prog):
                for exc in CLASSES:
                    for expose in (False, True):
                        for logsock in (True, False):
                            k += 1
                            if k % spec["parts"] != spec["part"]:
                                continue
                            # quick: every (program, injection point, class) once; flags sampled
                            if spec["sample"] > 1 and (expose, logsock) != [(False, True), (True, False), (False, False), (True, True)][(k // spec["parts"]) % 4]:
                                if rng.random() > 1.0 / spec["sample"]:
                                    continue
                            case = {"prog": p, "exc": exc, "expose": expose, "logsock": logsock, "version": "1.1" if k % 3 else "1.0"}
                            for sch in range(spec.get("schedules", 1)):
                                strat = None if (k + sch) % 4 == 0 else {"kind": "random", "seed": k * 7 + sch, "p": [0.02, 0.1, 0.3][(k + sch) % 3]}
                                run_and_judge(acc, case, f"{pi}|{label}|{p['steps'] and len(p['steps'])}|{exc}|{expose}|{logsock}|{sch}", strat)
                                acc.count("inject:" + label)
        acc.sample({"programs": len(progs), "example_injection": injections(progs[3])[2][1]})
    elif spec["mode"] == "early":
        k = 0
        for pi, prog in enumerate(progs):
            for kind in ("RST", "CLOSE"):
                k += 1
                if k % spec["parts"] != spec["part"]:
                    continue
                for sch in range(spec.get("schedules", 1)):
                    case = {"prog": prog, "exc": "Exception", "expose": False, "logsock": bool(k % 2), "version": "1.1",
                            "early_disconnect": kind}
                    strat = None if sch == 0 else {"kind": "random", "seed": k * 3 + sch, "p": [0.02, 0.1, 0.3][sch % 3]}
                    run_and_judge(acc, case, f"{pi}|early|{kind}|{sch}", strat)
                    acc.count("disconnect-before-output")
        acc.sample({"early_disconnect": "client goes away while the application runs, before any output (lookahead 1)"})
    elif spec["mode"] == "pipelined-files":
        big = "".join(chr(65 + i % 26) for i in range(1500))
        k = 0
        for raises_first in (True, False):
            for how in ("RST", "CLOSE"):
                for size2 in (1500, 10):
                    p1 = {"status": "200 OK", "headers": [["X-P", "file-a"]], "cl": 1500, "sr": "call", "steps": [], "ret": "fw_seek",
                          "fw": {"content": big, "pos": 0, "close_raises": raises_first}, "close": "ok", "exc": "Exception"}
                    p2 = {"status": "200 OK", "headers": [["X-P", "file-b"]], "cl": size2, "sr": "call", "steps": [], "ret": "fw_seek",
                          "fw": {"content": big[:size2], "pos": 0, "close_raises": not raises_first and size2 == 10}, "close": "ok", "exc": "Exception"}
                    for sch in range(spec["schedules"]):
                        k += 1
                        case = {"prog": p1, "prog2": p2, "exc": "Exception", "expose": False, "logsock": bool(k % 2), "version": "1.1",
                                "pipeline_files": how, "sndbuf": 600}
                        strat = None if sch == 0 else {"kind": "random", "seed": spec["seed"] * 131 + k, "p": [0.02, 0.1, 0.3][sch % 3]}
                        run_and_judge(acc, case, f"pf|{raises_first}|{how}|{size2}|{sch}", strat)
        # a peer that never reads and never leaves: the idle clean-up ends the connection and must release the file
        for ret in ("fw_seek", "fw_noseek"):
            prog = {"status": "200 OK", "headers": [["X-P", ret]], "cl": 1500, "sr": "call", "steps": [], "ret": ret,
                    "fw": {"content": big, "pos": 0}, "close": "ok", "exc": "Exception"}
            for sch in range(spec["schedules"]):
                case = {"prog": prog, "exc": "Exception", "expose": False, "logsock": True, "version": "1.1", "stall_timeout": True, "sndbuf": 600}
                run_and_judge(acc, case, f"stall|{ret}|{sch}", None if sch == 0 else {"kind": "random", "seed": 5 + sch, "p": 0.05})
        # a producer paused on the watermark whose peer is gone for good (every send fails, no disconnect errno)
        body = [["yield", big[:400]], ["yield", big[400:800]], ["yield", big[800:1200]], ["yield", big[1200:]]]
        for ret in ("gen", "iterlen"):
            prog = {"status": "200 OK", "headers": [["X-P", ret]], "cl": 1500, "sr": "call", "steps": body, "ret": ret, "close": "ok", "exc": "Exception"}
            for k in (1, 2, 3, 4):
                for sch in range(spec["schedules"]):
                    case = {"prog": prog, "exc": "Exception", "expose": False, "logsock": bool(k % 2), "version": "1.1", "sndbuf": 300,
                            "watermark": 256, "disconnect": [110, k]}
                    run_and_judge(acc, case, f"deadwm|{ret}|{k}|{sch}", None if sch == 0 else {"kind": "random", "seed": 9 + sch + k, "p": 0.1})
        # failures answered to HEAD requests
        for prog0 in progs[:6]:
            for label, p in injections(prog0)[:2]:
                for v in ("1.1", "1.0"):
                    case = {"prog": p, "exc": "Exception", "expose": False, "logsock": True, "version": v, "method": "HEAD"}
                    run_and_judge(acc, case, f"head|{label}|{v}|{prog0['ret']}|{len(prog0['steps'])}", None)
                    acc.count("head-requests")
        acc.sample({"pipelined_files": "two file_wrapper responses queued to a client that never reads, then a reset; close() of one file raises"})
    elif spec["mode"] == "handover-race":
        # the client goes away as soon as the head arrives; a forced switch plus a pick preference: the
        # worker is pre-empted while it hands its output over (-> client, which disconnects), and when the
        # client blocks the I/O thread (which tears the channel down) runs before the worker goes on
        big = "".join(chr(65 + i % 26) for i in range(1500))
        n2 = 0
        for ret in ("fw_seek", "fw_noseek"):
            for kind in ("RST", "CLOSE"):
                prog = {"status": "200 OK", "headers": [["X-P", ret]], "cl": 1500, "sr": "call", "steps": [], "ret": ret,
                        "fw": {"content": big, "pos": 0}, "close": "ok", "exc": "Exception"}
                case = {"prog": prog, "exc": "Exception", "expose": False, "logsock": True, "version": "1.1", "after_head": kind, "sndbuf": 600}
                o = run_case(case, None, record_pilot=True)
                pilot = o["world"].sched.pilot
                th = {t.name: t.tid for t in o["world"].sched.threads}
                io = [t.tid for t in o["world"].sched.threads if t.role == "io"]
                cl = th.get("client")
                o["world"].close()
                firsts = [step for step, tids, site, cur in pilot
                          if cur not in io and site and str(site[0]) in ("execute", "write", "write_soon", "_flush_some", "send") and cl in tids]
                for step in firsts:
                    # worker -> client at this point; when the client blocks (after its disconnect) the
                    # I/O thread is served first, the pre-empted worker last
                    run_and_judge(acc, case, f"handover|{ret}|{kind}|{step}", {"kind": "forced", "switches": {str(step): cl}, "prefer": io})
                    n2 += 1
        acc.count("handover-race-schedules", n2)
        acc.sample({"handover_race": "disconnect between the response head and the hand-over of a file_wrapper body", "schedules": n2})
    elif spec["mode"] == "early-race":
        # the client goes away and the application carries on at the same moment: every single
        # pre-emption of that schedule (capped), so that the worker's output overlaps the I/O
        # thread's teardown of the channel
        from vf.sim import runner as R

        k = 0
        chosen = [p for p in progs if p["ret"] in ("fw_seek", "fw_noseek", "gen") and (p["ret"] != "gen" or p["steps"])]
        for pi, prog in enumerate(chosen):
            for kind in ("RST", "CLOSE"):
                k += 1
                if k % spec["parts"] != spec["part"]:
                    continue
                case = {"prog": prog, "exc": "Exception", "expose": False, "logsock": bool(k % 2), "version": "1.1",
                        "early_disconnect": kind, "early_race": True}
                o = run_case(case, None, record_pilot=True)
                pilot = o["world"].sched.pilot
                io = [t.tid for t in o["world"].sched.threads if t.role == "io"]
                points = R.single_preemptions(pilot)
                o["world"].close()
                # every pre-emption of the I/O thread inside the teardown of the channel, the rest sampled
                focus = []
                for step, tids, site, cur in pilot:
                    name = str(site[0]) if site else ""
                    label = str(site[1]) if site and len(site) > 1 else ""
                    if cur in io and ("close" in name or name == "del_channel" or (name in ("lock", "unlock") and label.startswith("channel.py"))):
                        focus += [(step, t) for t in tids]
                    elif cur not in io and name in ("execute", "write", "write_soon"):
                        # ... and every pre-emption of the worker while it hands its output over
                        focus += [(step, t) for t in tids]
                acc.count("teardown-preemption-points", len(focus))
                rest = [pt for pt in points if pt not in set(focus)]
                if len(rest) > spec["cap"]:
                    rest = random.Random(spec["seed"] * 7 + k).sample(rest, spec["cap"])
                points = sorted(set(focus) | set(rest))
                for step, tid in points:
                    run_and_judge(acc, case, f"race|{pi}|{kind}|{step}|{tid}", {"kind": "forced", "switches": {str(step): tid}})
                    acc.count("disconnect-raced-application-output")
        acc.sample({"early_race": "client disconnect and application output overlap; single pre-emptions enumerated"})
    else:
        k = 0
        for pi, prog in enumerate(progs):
            k += 1
            if k % spec["parts"] != spec["part"]:
                continue
            base = {"prog": prog, "exc": "Exception", "expose": False, "logsock": True, "version": "1.1", "sndbuf": 400}
            o = run_case(base)
            sends = o["sends"]
            o["world"].close()
            for kind in ("RST", "CLOSE", 110):  # 110 = ETIMEDOUT: the connection dies without a disconnect errno
                for s in range(sends):
                    if spec["sample"] > 1 and sends > 6 and rng.random() > 0.6:
                        continue
                    case = dict(base, disconnect=[kind, s], logsock=bool(s % 2))
                    for sch in range(spec.get("schedules", 1)):
                        run_and_judge(acc, case, f"{pi}|disc|{kind}|{s}|{sch}",
                                      None if (s + sch) % 3 == 0 else {"kind": "random", "seed": s * 5 + sch, "p": [0.02, 0.1, 0.3][(s + sch) % 3]})
        acc.sample({"disconnect_enumeration": "every server send() index of the fault-free run, RST and full close"})
    return acc.out()


def finish(agg, tier, coverage):
    coverage["exhaustive"] = True
    coverage["exhaustive_note"] = (
        "every (program, step index, exception class, expose_tracebacks, log_socket_errors) and every (program, send "
        "index, disconnect kind) placement is executed (thorough: under 4 schedules each)"
    )


def replay(case):
    acc = Acc()
    run_and_judge(acc, case["case"], "replay", case.get("strat"))
    return acc.violations
