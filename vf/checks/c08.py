"""C08 -- applications cannot split or inject into the response head.

One run = one request + one application *program* (a JSON description that
`make_app` interprets).  The oracle looks only at the bytes the client got:

  ACCEPTED  the head, split on CRLF, is the status line `HTTP/x.y <status>`
            plus exactly one line per application header (`name: value`, name
            equal up to letter case, value byte-exact) plus server-owned
            lines (Date / Server / Via / Connection / Content-Length /
            Transfer-Encoding, at most one each, with server-shaped values);
            no line contains a CR or LF byte;
  REFUSED   one complete server-built 500 (exact template: nothing of the
            application's strings can be in it) and the connection is closed.

CR/LF in status / name / value, non-str status / name / value and hop-by-hop
names MUST be refused; everything else must be emitted exactly or refused.
"""

import io
import random
import re
import sys

from vf import core
from vf.core import Acc, b2s

ID = "C08"
LEVEL = "exploration"
RULE = (
    "programs = status / header-name / header-value strings built around marker-bearing bases ('200 Qz', 'X-Zq1k', "
    "'vZq2wk' and all their prefixes) with one offender from a 42-entry troublemaker alphabet (CR, LF, CRLF, LFCR, NUL, "
    "VT, FF, FS/GS/RS, NEL, LS, PS, ':', ': ', SP, HTAB, DEL, 0x80, 0xA0, 0xB5, 0xFF, U+0100, Kelvin, sharp-s, capital "
    "sharp-s, I-dot, dotless-i, long-s, fi-ligature, Angstrom, Y-diaeresis, lone surrogate, astral, letters, digit, "
    "dash, ...) inserted at / replacing EVERY position (enumerated completely), two offenders (seeded sample); non-str "
    "status / name / value (bytes, int, None, tuple, float); empty name / value / status, reason-less and body-less "
    "statuses, duplicate names, names with ': '; the eight hop-by-hop names in four letter cases, bare and decorated; "
    "x start_response path {initial, exc_info re-call before output, exc_info re-call after output, header list / "
    "header item mutated after the call, refusal caught by the application which then produces its body} x body {list, generator, write(), wsgi.file_wrapper} x HTTP/1.0, 1.1 x "
    "expose_tracebacks. Oracle: line-level comparison of the emitted head with the program (bipartite matching of "
    "lines to headers) or exact server-500 template + close. distinct = (where, offender class, position, path, body, "
    "version)"
)
ASSUMPTIONS = [
    "SyncHarness: real TcpWSGIServer/HTTPChannel/WSGITask single-threaded over a scripted socket (DESIGN.md 2.1)",
    "'equal up to letter case' = equal under str.casefold(), str.upper(), str.lower() or upper-then-casefold (Unicode case mapping: "
    "'\u00df-x' emitted as 'Ss-X' and a Kelvin sign emitted as 'k' count as letter case and are reported in counters "
    "observed:name-case-mapping-*)",
    "a str that cannot be encoded to latin-1 is outside the must-refuse list: a clean 500 or a silent close with an "
    "empty wire is recorded under unencodable:* and not judged; a mangled head is judged",
    "applications never supply a Content-Length other than the correct decimal one; a body-less status (1xx/204/304) "
    "may drop the application's Content-Length line",
    "the server's own lines are recognised by exact name AND server-shaped value (ident 'waitress', IMF-fixdate, "
    "close/Keep-Alive, chunked, digits)",
    "header items passed as 2-element lists (not tuples) and mutated in place after start_response returned are "
    "inside the quantifier 'headers mutated after the call'; reported under their own key late-mutation-injected:inner-list",
]

HOP = ("connection", "keep-alive", "proxy-authenticate", "proxy-authorization", "te", "trailer",
       "transfer-encoding", "upgrade")
SERVER_OWN = ("Date", "Server", "Via", "Connection", "Content-Length", "Transfer-Encoding")
BODIES = ("list", "generator", "write", "file_wrapper")
PATHS = ("initial", "exc_info-before-output", "exc_info-after-output", "late-mutation")

OFFENDERS = [
    ("CR", "\r"), ("LF", "\n"), ("CRLF", "\r\n"), ("LFCR", "\n\r"), ("NUL", "\x00"), ("VT", "\x0b"), ("FF", "\x0c"),
    ("FS", "\x1c"), ("GS", "\x1d"), ("RS", "\x1e"), ("NEL", "\x85"), ("LS", "\u2028"), ("PS", "\u2029"),
    ("colon", ":"), ("colon-sp", ": "), ("SP", " "), ("HTAB", "\t"), ("DEL", "\x7f"), ("x80", "\x80"),
    ("NBSP", "\xa0"), ("micro", "\xb5"), ("xFF", "\xff"), ("U+0100", "\u0100"), ("Kelvin", "\u212a"),
    ("sharp-s", "\xdf"), ("cap-sharp-s", "\u1e9e"), ("I-dot", "\u0130"), ("dotless-i", "\u0131"),
    ("long-s", "\u017f"), ("fi-lig", "\ufb01"), ("Angstrom", "\u212b"), ("Y-diaeresis", "\u0178"),
    ("surrogate", "\ud800"), ("astral", "\U0001f600"), ("letter", "a"), ("LETTER", "Z"), ("digit", "1"),
    ("dash", "-"), ("E-acute", "\xc9"), ("comma", ","), ("semicolon", ";"), ("dquote", '"'),
]
OFF = dict(OFFENDERS)

BASE = {"status": "200 Qz", "name": "X-Zq1k", "value": "vZq2wk"}
FIRST = {"status": "200 Fqz", "headers": [["X-First-Zq7", "fZq8"]]}

DATE_RE = re.compile(rb"^(Mon|Tue|Wed|Thu|Fri|Sat|Sun), \d{2} (Jan|Feb|Mar|Apr|May|Jun|Jul|Aug|Sep|Oct|Nov|Dec) \d{4} "
                     rb"\d{2}:\d{2}:\d{2} GMT$")
MASK_DATE = re.compile(r"(Mon|Tue|Wed|Thu|Fri|Sat|Sun), \d{2} [A-Z][a-z]{2} \d{4} \d{2}:\d{2}:\d{2} GMT")
BODY500 = (b"Internal Server Error\r\n\r\nThe server encountered an unexpected internal server error"
           b"\r\n\r\n(generated by waitress)")
TAME_STATUS = re.compile(r"^200 [!-~][ -~]*$")
TOKEN = re.compile(r"^[!#$%&'*+\-.^_`|~0-9A-Za-z]+$")
TAME_VALUE = re.compile(r"^[!-~]([ -~]*[!-~])?$")


def required_counters(tier):
    return [
        "accepted", "refused",
        "refuse:crlf-status", "refuse:crlf-name", "refuse:crlf-value",
        "refuse:nonstr-status", "refuse:nonstr-name", "refuse:nonstr-value", "refuse:hop-by-hop",
        "path:initial", "path:exc_info-before-output", "path:exc_info-after-output", "path:late-mutation",
        "path:swallowed-initial", "path:swallowed-recall", "swallowed:emitted-clean", "path:headers-iterator",
        "path:headers-two-faced", "programs-under-python-O",
        "body:list", "body:generator", "body:write", "body:file_wrapper",
        "version:1.0", "version:1.1", "lines_compared",
    ]


# ----------------------------------------------------------- JSON <-> values


def enc(x):
    """str stays a JSON string (ensure_ascii JSON keeps every code point,
    lone surrogates included); everything else becomes a tagged dict."""
    if isinstance(x, str):
        return x
    if isinstance(x, bytes):
        return {"t": "bytes", "v": x.decode("latin-1")}
    if x is None:
        return {"t": "none"}
    if isinstance(x, bool):
        return {"t": "bool", "v": x}
    if isinstance(x, int):
        return {"t": "int", "v": x}
    if isinstance(x, float):
        return {"t": "float", "v": x}
    if isinstance(x, tuple):
        return {"t": "tuple", "v": [enc(i) for i in x]}
    raise TypeError(x)


def dec(j):
    if isinstance(j, str):
        return j
    t = j["t"]
    if t == "str":
        return j["v"]
    if t == "bytes":
        return j["v"].encode("latin-1")
    if t == "none":
        return None
    if t in ("int", "float", "bool"):
        return j["v"]
    if t == "tuple":
        return tuple(dec(i) for i in j["v"])
    raise ValueError(j)


def dec_headers(hs):
    return [(dec(k), dec(v)) for k, v in hs]


# ------------------------------------------------------------ the programs


def mutated_headers(headers, late):
    """The header list as the application sees it after its late mutation."""
    hs = [tuple(h) for h in headers]
    kind = late["kind"]
    lh = (dec(late["header"][0]), dec(late["header"][1]))
    if kind == "append":
        hs.append(lh)
    elif kind == "insert-front":
        hs.insert(0, lh)
    elif kind == "replace":
        hs[0] = lh
    elif kind == "clear":
        del hs[:]
    elif kind == "inner-list-value":
        hs[0] = (hs[0][0], lh[1])
    elif kind == "inner-list-name":
        hs[0] = (lh[0], hs[0][1])
    elif kind == "inner-list-both":
        hs[0] = lh
    else:
        raise ValueError(kind)
    return hs


def make_app(case, log):
    status = dec(case["status"])
    headers = dec_headers(case["headers"])
    path = case["path"]
    body = case["body"]
    first = case.get("first") or FIRST
    late = case.get("late")

    def boom_info():
        try:
            raise KeyError("boom")
        except KeyError:
            return sys.exc_info()

    def call(sr):
        """the start_response call(s) under test; returns write()"""
        try:
            if path == "initial":
                return sr(status, list(headers))
            if path == "headers-iterator":
                # any iterable of pairs is accepted; a one-shot one can be walked only once
                return sr(status, iter(list(headers)))
            if path == "headers-two-faced":
                # an iterable that yields other (hostile) items when it is walked a second time
                class TwoFaced(list):
                    walks = 0

                    def __iter__(self):
                        TwoFaced.walks += 1
                        if TwoFaced.walks == 1:
                            return list.__iter__(self)
                        return iter([("X-Late-Zq9", "vZq9\r\nInjected-Zq9: 1")])

                return sr(status, TwoFaced(headers))
            if path == "exc_info-before-output":
                sr(dec(first["status"]), dec_headers(first["headers"]))
                return sr(status, list(headers), boom_info())
            if path == "swallowed-initial":
                # a defensive application: the refusal is caught and the body produced anyway
                try:
                    return sr(status, list(headers))
                except Exception as e:  # noqa
                    log["swallowed"] = type(e).__name__
                    return None
            if path == "swallowed-recall":
                w = sr(dec(first["status"]), dec_headers(first["headers"]))
                try:
                    sr(status, list(headers), boom_info())
                except Exception as e:  # noqa
                    log["swallowed"] = type(e).__name__
                return w
            if path == "late-mutation":
                kind = late["kind"]
                lh = (dec(late["header"][0]), dec(late["header"][1]))
                if kind.startswith("inner-list"):
                    hs = [list(h) for h in headers]
                else:
                    hs = list(headers)
                w = sr(status, hs)
                if kind == "append":
                    hs.append(lh)
                elif kind == "insert-front":
                    hs.insert(0, lh)
                elif kind == "replace":
                    hs[0] = lh
                elif kind == "clear":
                    del hs[:]
                elif kind == "inner-list-value":
                    hs[0][1] = lh[1]
                elif kind == "inner-list-name":
                    hs[0][0] = lh[0]
                elif kind == "inner-list-both":
                    hs[0][0], hs[0][1] = lh
                return w
            raise ValueError(path)
        except BaseException as e:
            log["raised"] = type(e).__name__
            raise

    def recall(sr):
        try:
            sr(status, list(headers), boom_info())
        except BaseException as e:
            log["raised"] = type(e).__name__
            raise
        log["recall_returned"] = True

    if path == "exc_info-after-output":
        f_status, f_headers = dec(first["status"]), dec_headers(first["headers"])
        if body == "generator":
            def app(environ, start_response):
                def g():
                    start_response(f_status, f_headers)
                    yield b"out"
                    recall(start_response)
                    yield b"more"
                return g()
        else:
            def app(environ, start_response):
                w = start_response(f_status, f_headers)
                w(b"out")
                recall(start_response)
                return [b"more"]
        return app

    if body == "list":
        def app(environ, start_response):
            call(start_response)
            return [b"hi"]
    elif body == "generator":
        def app(environ, start_response):
            def g():
                call(start_response)
                yield b"hi"
            return g()
    elif body == "write":
        def app(environ, start_response):
            w = call(start_response)
            if w is None:
                return [b"hi"]
            w(b"hi")
            return []
    elif body == "file_wrapper":
        def app(environ, start_response):
            call(start_response)
            return environ["wsgi.file_wrapper"](io.BytesIO(b"data"))
    else:
        raise ValueError(body)
    return app


def request_bytes(case):
    v = case["version"]
    conn = case.get("conn")
    out = b"GET /c08 HTTP/" + v.encode() + b"\r\n"
    if v == "1.1":
        out += b"Host: x\r\n"
    if conn:
        out += b"Connection: " + conn.encode() + b"\r\n"
    return out + b"\r\n"


_harness = {}


def harness(expose):
    from vf.sync import SyncHarness

    h = _harness.get(expose)
    if h is None:
        h = SyncHarness(expose_tracebacks=True) if expose else SyncHarness()
        _harness[expose] = h
    return h


# ------------------------------------------------------------------ oracle


def has_crlf(s):
    return "\r" in s or "\n" in s


def ascii_lower(s):
    return "".join(chr(ord(c) + 32) if "A" <= c <= "Z" else c for c in s)


def must_refuse(status, headers):
    """reasons (in a fixed order) for which the program MUST be refused"""
    out = []
    if not isinstance(status, str):
        out.append("nonstr-status")
    elif has_crlf(status):
        out.append("crlf-status")
    for k, v in headers:
        if not isinstance(k, str):
            out.append("nonstr-name")
        elif has_crlf(k):
            out.append("crlf-name")
        elif ascii_lower(k) in HOP:
            out.append("hop-by-hop")
        if not isinstance(v, str):
            out.append("nonstr-value")
        elif has_crlf(v):
            out.append("crlf-value")
    seen = []
    for r in out:
        if r not in seen:
            seen.append(r)
    return seen


def unencodable(status, headers):
    for s in [status] + [x for h in headers for x in h]:
        if isinstance(s, str):
            try:
                s.encode("latin-1")
            except UnicodeEncodeError:
                return True
    return False


def bodyless(status):
    return isinstance(status, str) and (status.startswith("1") or status.startswith("204") or status.startswith("304"))


def eq_case(a, b):
    return (a == b or a.casefold() == b.casefold() or a.upper() == b.upper() or a.lower() == b.lower()
            or a.upper().casefold() == b.upper().casefold())


def simple_eq(a, b):
    return len(a) == len(b) and ascii_lower(a) == ascii_lower(b)


def line_matches(s, k, v):
    """does the emitted line s (latin-1 decoded) carry header (k, v)?  The
    value and the ': ' separator are compared exactly, the name up to case."""
    if not isinstance(k, str) or not isinstance(v, str):
        return False
    tail = ": " + v
    if not s.endswith(tail):
        return False
    return eq_case(s[: len(s) - len(tail)], k)


def server_value_ok(name, val):
    if name == "Date":
        return bool(DATE_RE.match(val))
    if name in ("Server", "Via"):
        return val == b"waitress"
    if name == "Connection":
        return val in (b"close", b"Keep-Alive")
    if name == "Content-Length":
        return val.isdigit() and val.isascii()
    if name == "Transfer-Encoding":
        return val == b"chunked"
    return False


def max_matching(adj, nright):
    """adj[i] = right nodes line i may take.  Kuhn's algorithm."""
    match_r = [-1] * nright

    def try_(i, seen):
        for j in adj[i]:
            if j in seen:
                continue
            seen.add(j)
            if match_r[j] < 0 or try_(match_r[j], seen):
                match_r[j] = i
                return True
        return False

    for i in range(len(adj)):
        if adj[i]:
            try_(i, set())
    return match_r


class HeadCmp:
    __slots__ = ("status_ok", "bare", "extra", "missing", "order_bad", "nlines", "case_mapped", "cl_dropped")

    def ok(self):
        return self.status_ok and not self.bare and not self.extra and not self.missing and not self.order_bad


def compare_head(head, version, status, headers):
    """head = bytes before the first CRLFCRLF."""
    c = HeadCmp()
    lines = head.split(b"\r\n")
    c.nlines = len(lines) - 1
    c.bare = [i for i, ln in enumerate(lines) if b"\r" in ln or b"\n" in ln]
    try:
        exp0 = ("HTTP/%s %s" % (version, status)).encode("latin-1") if isinstance(status, str) else None
    except UnicodeEncodeError:
        exp0 = None
    c.status_ok = exp0 is not None and lines[0] == exp0
    strs = [ln.decode("latin-1") for ln in lines[1:]]
    adj = [[j for j, (k, v) in enumerate(headers) if line_matches(s, k, v)] for s in strs]
    match_h = max_matching(adj, len(headers))  # header j -> line index or -1
    taken = {i for i in match_h if i >= 0}
    c.extra = []
    seen_own = set()
    for i, ln in enumerate(lines[1:]):
        if i in taken:
            continue
        name, sep, val = ln.partition(b": ")
        try:
            nm = name.decode("ascii")
        except UnicodeDecodeError:
            nm = None
        if sep and nm in SERVER_OWN and nm not in seen_own and server_value_ok(nm, val):
            seen_own.add(nm)
            continue
        c.extra.append(ln)
    if "Transfer-Encoding" in seen_own and (
            version != "1.1" or any(ln[:15].lower() == b"content-length:" for ln in lines[1:])):
        # never the server's own: it frames with chunked only on HTTP/1.1 and only without a Content-Length
        c.extra.append(b"Transfer-Encoding: chunked")
    c.missing = []
    c.cl_dropped = False
    for j, i in enumerate(match_h):
        if i < 0:
            k, v = headers[j]
            if isinstance(k, str) and ascii_lower(k) == "content-length" and bodyless(status):
                c.cl_dropped = True
                continue
            c.missing.append(j)
    # same-named headers (equal under str.lower()) keep the application's order
    c.order_bad = False
    groups = {}
    for j, (k, v) in enumerate(headers):
        if isinstance(k, str) and match_h[j] >= 0:
            groups.setdefault(k.lower(), []).append(j)
    for js in groups.values():
        if len(js) > 1:
            app_vals = [headers[j][1] for j in js]
            wire_vals = [headers[j][1] for j in sorted(js, key=lambda j: match_h[j])]
            if app_vals != wire_vals:
                c.order_bad = True
    c.case_mapped = []
    for j, i in enumerate(match_h):
        if i >= 0:
            k, v = headers[j]
            nm = strs[i][: len(strs[i]) - len(": " + v)]
            if not simple_eq(nm, k):
                c.case_mapped.append((k, nm))
    return c


def split_wire(wire):
    t = wire.find(b"\r\n\r\n")
    if t < 0:
        return None, wire
    return wire[:t], wire[t + 4:]


def check_500(wire, version, expose, closed):
    """None if wire is exactly one complete server-built 500, else a reason"""
    head, rest = split_wire(wire)
    if head is None:
        return "incomplete head"
    lines = head.split(b"\r\n")
    if lines[0] != b"HTTP/" + version.encode() + b" 500 Internal Server Error":
        return "status line %r" % lines[0][:60]
    got = {}
    for ln in lines[1:]:
        name, sep, val = ln.partition(b": ")
        if not sep or name in got:
            return "line %r" % ln[:60]
        got[name] = val
    if set(got) != {b"Connection", b"Content-Length", b"Content-Type", b"Date", b"Server"}:
        return "header names %r" % sorted(got)
    if got[b"Connection"] != b"close":
        return "Connection: %r" % got[b"Connection"]
    if got[b"Content-Type"] != b"text/plain; charset=utf-8":
        return "Content-Type: %r" % got[b"Content-Type"]
    if got[b"Server"] != b"waitress" or not DATE_RE.match(got[b"Date"]):
        return "Server/Date %r %r" % (got[b"Server"], got[b"Date"])
    if not (got[b"Content-Length"].isdigit() and got[b"Content-Length"].isascii()):
        return "Content-Length %r" % got[b"Content-Length"]
    n = int(got[b"Content-Length"])
    if len(rest) != n:
        return "body of %d bytes, Content-Length %d" % (len(rest), n)
    if expose:
        if not (rest.startswith(b"Internal Server Error\r\n\r\nTraceback (most recent call last):\n")
                and rest.endswith(b"\r\n\r\n(generated by waitress)")):
            return "traceback body shape"
    elif rest != BODY500:
        return "body %r" % rest[:80]
    return None


def has_marker(data):
    low = data.lower()
    return b"zq" in low or b"qz" in low


def is_tame(status, headers):
    if not isinstance(status, str) or not TAME_STATUS.match(status):
        return False
    for k, v in headers:
        if not (isinstance(k, str) and isinstance(v, str) and TOKEN.match(k) and (v == "" or TAME_VALUE.match(v))):
            return False
    return True


def describe(case):
    d = {k: case[k] for k in ("status", "headers", "path", "body", "version", "expose") if k in case}
    if case.get("conn"):
        d["conn"] = case["conn"]
    if case.get("late"):
        d["late"] = case["late"]
    if case["path"].startswith("exc_info") or case["path"] == "swallowed-recall":
        d["first"] = case.get("first") or FIRST
    return d


def run_program(acc, case):
    from vf.ref import response as rs

    log = {}
    app = make_app(case, log)
    h = harness(bool(case.get("expose")))
    res = h.run([request_bytes(case)], app)
    acc.evaluations += 1
    meta = case.get("meta") or {}
    acc.distinct.add("|".join(str(x) for x in (
        meta.get("where", "-"), meta.get("cls", "-"), meta.get("pos", "-"), case["path"], case["body"],
        case["version"])))
    acc.count("body:" + case["body"])
    acc.count("version:" + case["version"])
    version = case["version"]
    expose = bool(case.get("expose"))
    path = case["path"]
    status = dec(case["status"])
    headers = dec_headers(case["headers"])
    if case.get("cl_reconciled"):
        # the server owns Content-Length on the file_wrapper path (it may correct the declared
        # value): the application's own length line is not demanded, everything else is
        headers = [(k, v) for k, v in headers if not (isinstance(k, str) and ascii_lower(k) == "content-length")]
    wire = res.wire
    head, rest = split_wire(wire)
    viol = []
    notes = acc.__dict__.setdefault("c08_notes", {})

    def V(key, what):
        viol.append((key, what))

    def note(key, obj):
        if key not in notes:
            notes[key] = obj

    if res.hung:
        V("hang", "the connection did not reach quiescence")
    for e in res.exceptions:
        V("exception:" + e["type"], "%s: %s at %s" % (e["type"], e["msg"], e.get("where")))

    vline = b"HTTP/" + version.encode() + b" "
    if not wire:
        shape = "empty"
    elif wire.startswith(vline + b"500 Internal Server Error\r\n"):
        shape = "s500"
    elif head is not None and wire.startswith(vline):
        shape = "emitted"
    else:
        shape = "garbage"
        V("wire-unparseable", "wire is not a response: %r" % wire[:120])

    def refusal(reasons, label):
        """judge a server 500; returns True if clean"""
        why = check_500(wire, version, expose, res.closed)
        tag = ",".join(reasons) or label
        if why is not None:
            leaked = has_marker(head or wire) or (not expose and has_marker(rest))
            if leaked:
                V("marker-leaked-in-500", "500 for [%s] carries application text (%s): %r" % (tag, why, wire[:300]))
            elif reasons:
                V("refusal-not-500:" + reasons[0], "must-refuse input [%s] answered by a malformed 500 (%s)" % (tag, why))
            else:
                V("500-head-unexpected", "server 500 deviates from its template (%s): %r" % (why, wire[:300]))
            return False
        if has_marker(head):
            V("marker-leaked-in-500", "500 head carries a marker: %r" % head)
            return False
        if not res.closed:
            V("refused-but-open", "500 for [%s] but the connection stays open" % tag)
            return False
        _r, err, _l = rs.parse_responses(wire, ["GET"], eof=True)
        if err:
            V("wire-unparseable", "server 500 does not parse: %s" % err)
            return False
        return True

    def emitted_cmp(st, hs):
        c = compare_head(head, version, st, hs)
        acc.count("lines_compared", c.nlines)
        return c

    def cmp_violations(c, st, hs, where_hint):
        """violation keys for a head that was emitted for an acceptable program"""
        if c.bare:
            V("head-split:" + where_hint, "bare CR/LF inside head line(s) %s: %r" % (c.bare, head))
        if not c.status_ok:
            V("line-mangled", "status line %r, application status %r" % (head.split(b"\r\n")[0][:80], st))
        if c.extra and c.missing:
            V("line-mangled", "line(s) %r do not carry header(s) %r" % (c.extra[:3], [hs[j] for j in c.missing][:3]))
        elif c.extra:
            V("extra-line", "line(s) %r belong to no application header and are not server-owned; head %r"
              % (c.extra[:3], head))
        elif c.missing:
            V("missing-line", "application header(s) %r not in the head %r" % ([hs[j] for j in c.missing][:3], head))
        if c.order_bad:
            V("same-name-order-changed", "same-named headers reordered: %r -> %r" % (hs, head))

    def note_accept(c, st, hs):
        acc.count("accepted")
        if c.cl_dropped:
            acc.count("observed:content-length-dropped-for-bodyless-status")
        for k, nm in c.case_mapped:
            kind = "length-changed" if len(k) != len(nm) else "non-ascii"
            acc.count("observed:name-case-mapping-" + kind)
            note("obs:case-" + kind, {"observed": "name-case-mapping-" + kind, "app_name": k, "wire_name": nm})
        if shape == "emitted" and is_tame(st, hs) and st.startswith("200"):
            _r, err, _l = rs.parse_responses(wire, ["GET"], eof=res.closed)
            acc.count("parsed-strictly")
            if err:
                V("wire-unparseable", "accepted response does not parse: %s; wire %r" % (err, wire[:300]))

    where_of = {"crlf-status": "status", "crlf-name": "name", "crlf-value": "value"}

    if path in ("initial", "exc_info-before-output", "headers-iterator", "headers-two-faced"):
        acc.count("path:" + path)
        reasons = must_refuse(status, headers)
        unenc = unencodable(status, headers)
        if reasons:
            if shape == "s500":
                if refusal(reasons, ""):
                    acc.count("refused")
                    for r in reasons:
                        acc.count("refuse:" + r)
            elif shape == "emitted":
                for r in reasons:
                    V("refusable-emitted:" + r, "must-refuse input emitted: head %r" % head)
                c = emitted_cmp(status if isinstance(status, str) else "", headers)
                for r in reasons:
                    if r in where_of and (c.bare or c.extra):
                        V("head-split:" + where_of[r], "CR/LF in the application's %s took effect: head %r"
                          % (where_of[r], head))
            elif shape == "empty":
                for r in reasons:
                    V("refusal-not-500:" + r, "must-refuse input answered by an empty wire (closed=%s)" % res.closed)
        else:
            if shape == "s500":
                if refusal([], "optional"):
                    acc.count("refused")
                    if unenc:
                        acc.count("unencodable:clean-500")
                    else:
                        fam = meta.get("fam", "?")
                        acc.count("refused-optional:" + (fam + ":" + str(meta.get("cls")) if fam != "double" else fam))
                        note("obs:optional-refusal", {"observed": "optional refusal (clean 500) of an encodable program",
                                                      "program": describe(case)})
            elif shape == "emitted":
                c = emitted_cmp(status, headers)
                if c.ok():
                    note_accept(c, status, headers)
                    if unenc:
                        acc.count("unencodable:emitted-after-case-mapping")
                    if path == "exc_info-before-output":
                        # the replaced call's Content-Length must not frame the new response
                        first = case.get("first") or FIRST
                        for k, v in dec_headers(first["headers"]):
                            if ascii_lower(k) == "content-length" and not any(
                                    isinstance(k2, str) and ascii_lower(k2) == "content-length" for k2, _v in headers):
                                if b"Content-Length: " + v.encode() in head.split(b"\r\n"):
                                    V("first-call-header-survived:content-length",
                                      "Content-Length %s of the replaced first start_response call frames the "
                                      "replacement response: wire %r" % (v, wire[:300]))
                else:
                    hint = "unknown"
                    cmp_violations(c, status, headers, hint)
                    if path == "exc_info-before-output":
                        first = case.get("first") or FIRST
                        fh = dec_headers(first["headers"])
                        for ln in c.extra:
                            if any(line_matches(ln.decode("latin-1"), k, v) for k, v in fh):
                                V("first-call-header-survived", "header of the replaced first call emitted: %r" % ln)
            elif shape == "empty":
                if unenc and res.closed:
                    acc.count("unencodable:silent-close")
                else:
                    V("silent-close", "acceptable program answered by an empty wire (closed=%s)" % res.closed)

    elif path == "late-mutation":
        acc.count("path:late-mutation")
        late = case["late"]
        inner = late["kind"].startswith("inner-list")
        lkey = "late-mutation-injected" + (":inner-list" if inner else "")
        h1 = mutated_headers(headers, late)
        if shape == "s500":
            if refusal([], "late"):
                acc.count("refused")
                acc.count("late:refused")
        elif shape == "emitted":
            c0 = emitted_cmp(status, headers)
            if c0.ok():
                note_accept(c0, status, headers)
                acc.count("late:ignored")
            else:
                c1 = None
                if not must_refuse(status, h1):
                    c1 = compare_head(head, version, status, h1)
                if c1 is not None and c1.ok():
                    note_accept(c1, status, h1)
                    acc.count("late:emitted-safely")
                else:
                    # causal attribution by a control run: the same program
                    # without the mutation
                    ctl = dict(case, path="initial", late=None)
                    cres = h.run([request_bytes(ctl)], make_app(ctl, {}))
                    chead, _crest = split_wire(cres.wire)
                    ctl_ok = chead is not None and compare_head(chead, version, status, headers).ok()
                    if ctl_ok:
                        reasons = must_refuse(status, h1)
                        V(lkey, "header mutated after start_response returned (%s) reached the wire %s: head %r"
                          % (late["kind"], "although it must be refused [%s]" % ",".join(reasons) if reasons else
                             "mangled", head))
                    else:
                        cmp_violations(c0, status, headers, "unknown")
        elif shape == "empty":
            V("silent-close", "late-mutation program answered by an empty wire (closed=%s)" % res.closed)

    elif path in ("swallowed-initial", "swallowed-recall"):
        # the refused call was caught by the application, which then produced its body: whatever is
        # emitted, none of the refused strings may be in it -- the status line is the server default,
        # the first call's or the (valid) status of the refused call, every other line is the
        # server's own or a header of an accepted call / a valid header of the refused one
        acc.count("path:" + path)
        reasons = must_refuse(status, headers)
        first = case.get("first") or FIRST
        f_status, f_headers = dec(first["status"]), dec_headers(first["headers"])
        if shape == "s500":
            if refusal([], "swallowed"):
                acc.count("refused")
        elif shape == "empty":
            V("silent-close", "swallowed-refusal program answered by an empty wire (closed=%s)" % res.closed)
        elif shape == "emitted":
            lines = head.split(b"\r\n")
            ok_status = ["200 OK"]
            if path == "swallowed-recall":
                ok_status.append(f_status)
            if isinstance(status, str) and not has_crlf(status):
                ok_status.append(status)
            valid = [(k, v) for k, v in headers if not must_refuse("200 OK", [(k, v)])]
            if path == "swallowed-recall":
                valid += f_headers
            if any(b"\r" in ln or b"\n" in ln for ln in lines):
                V("head-split:swallowed", "bare CR/LF inside the head after a swallowed refusal: %r" % head)
            st_line = lines[0].decode("latin-1")
            if st_line not in ["HTTP/%s %s" % (version, x) for x in ok_status]:
                V("refused-string-emitted:status", "status line %r after the refusal [%s] was swallowed; acceptable %r"
                  % (lines[0][:100], ",".join(reasons), ok_status))
            for ln in lines[1:]:
                name, sep, val = ln.partition(b": ")
                try:
                    nm = name.decode("ascii")
                except UnicodeDecodeError:
                    nm = None
                if sep and nm in SERVER_OWN and server_value_ok(nm, val):
                    continue
                if any(line_matches(ln.decode("latin-1"), k, v) for k, v in valid):
                    continue
                V("refused-string-emitted:header", "line %r after the refusal [%s] was swallowed belongs to no accepted header"
                  % (ln[:100], ",".join(reasons)))
            if not viol:
                acc.count("accepted")
                acc.count("swallowed:emitted-clean")

    elif path == "exc_info-after-output":
        first = case.get("first") or FIRST
        f_status, f_headers = dec(first["status"]), dec_headers(first["headers"])
        if shape != "emitted":
            V("exc_info-after-output:unexpected-wire", "expected the first call's head, got %r" % wire[:200])
        else:
            c = emitted_cmp(f_status, f_headers)
            if not c.ok():
                cmp_violations(c, f_status, f_headers, "unknown")
            allowed = (b"3\r\nout\r\n", b"out")
            if rest not in allowed:
                V("exc_info-after-output:unexpected-wire",
                  "after the head only the bytes written before the re-call may follow; got %r" % rest[:200])
            elif not res.closed:
                V("exc_info-after-output:not-closed", "exc_info re-call after output did not end the connection")
            elif log.get("recall_returned"):
                V("exc_info-after-output:not-raised", "start_response(exc_info) returned after output was written")
            elif c.ok():
                acc.count("path:exc_info-after-output")
                acc.count("accepted")
    else:
        raise ValueError(path)

    for key, what in viol:
        # mask the Date so that the same witness hashes to the same replay file
        what = MASK_DATE.sub("<date>", what)
        acc.violation(key, what + " | program " + repr(describe(case))[:700], dict(case))
    if not viol:
        outcome = "refused" if shape == "s500" else "accepted" if shape == "emitted" else shape
        note("prog:%s:%s" % (meta.get("fam", "?"), outcome),
             {"program": describe(case), "head": b2s(head) if head is not None else None, "closed": res.closed,
              "raised_in_app": log.get("raised")})
    return res, viol


# ---------------------------------------------------------------- workload


def mk(status, headers, path, body, version, expose, idx, meta, first=None, late=None):
    conn = None
    if version == "1.0" and idx % 3 == 1:
        conn = "keep-alive"
    elif version == "1.1" and idx % 5 == 2:
        conn = "close"
    c = {
        "status": enc(status),
        "headers": [[enc(k), enc(v)] for k, v in headers],
        "path": path,
        "body": body,
        "version": version,
        "conn": conn,
        "expose": bool(expose),
        "meta": meta,
    }
    if first is not None:
        c["first"] = first
    if late is not None:
        c["late"] = late
    return c


def placed(where, s, shape):
    """status and header list with string s in position `where`; shape
    selects the neighbours of the header under test."""
    status = BASE["status"]
    name, value = BASE["name"], BASE["value"]
    if where == "status":
        status = s
    elif where == "name":
        name = s
    else:
        value = s
    if shape == 0:
        headers = [(name, value)]
    elif shape == 1:
        headers = [("A-Zq3", "aZq3"), (name, value), ("Z-Zq4", "zZq4")]
    else:
        headers = [("Content-Type", "text/Zq5"), (name, value), ("Content-Length", "@CL")]
    return status, headers


def fix_cl(headers, body):
    n = {"list": 2, "generator": 2, "write": 2, "file_wrapper": 4}[body]
    return [(k, str(n) if v == "@CL" else v) for k, v in headers]


def variants(base, off):
    L = len(base)
    for p in range(L + 1):
        yield "ins", p, base[:p] + off + base[p:]
    for p in range(L):
        yield "rep", p, base[:p] + off + base[p + 1:]


def fam_single(tier):
    """one offender at every position: enumerated completely"""
    lengths = (0, 3, 6) if tier == "quick" else range(0, 7)
    exposes = (None,) if tier == "quick" else (False, True)
    idx = 0
    for where in ("status", "name", "value"):
        for L in lengths:
            base = BASE[where][:L]
            for cls, off in OFFENDERS:
                for mode, p, s in variants(base, off):
                    for path in ("initial", "exc_info-before-output"):
                        for body in BODIES:
                            for version in ("1.0", "1.1"):
                                for ex in exposes:
                                    idx += 1
                                    expose = (idx // 2) % 2 == 1 if ex is None else ex
                                    status, headers = placed(where, s, idx % 3)
                                    yield mk(status, fix_cl(headers, body), path, body, version, expose, idx,
                                             {"fam": "single", "where": where, "cls": cls, "pos": "%s%d/%d" % (mode, p, L)})


def fam_double(tier, seed):
    n = 6000 if tier == "quick" else 300000
    for i in range(n):
        rng = random.Random(seed * 1000003 + i)
        strs = dict(BASE)
        w1 = rng.choice(("status", "name", "value"))
        w2 = rng.choice(("status", "name", "value"))
        (c1, o1), (c2, o2) = rng.choice(OFFENDERS), rng.choice(OFFENDERS)
        pos = []
        for w, o in ((w1, o1), (w2, o2)):
            s = strs[w]
            p = rng.randrange(len(s) + 1)
            if rng.random() < 0.3 and p < len(s):
                s = s[:p] + o + s[p + 1:]
            else:
                s = s[:p] + o + s[p:]
            strs[w] = s
            pos.append(p)
        status = strs["status"]
        headers = [(strs["name"], strs["value"])]
        if rng.random() < 0.5:
            headers = [("A-Zq3", "aZq3")] + headers + [("Z-Zq4", "zZq4")]
        yield mk(status, headers, rng.choice(("initial", "exc_info-before-output")), rng.choice(BODIES),
                 rng.choice(("1.0", "1.1")), rng.random() < 0.5, i,
                 {"fam": "double", "where": w1 + "+" + w2, "cls": c1 + "+" + c2, "pos": "%d+%d" % tuple(pos)})


NONSTR = [b"bytesZq", 5, None, ("tZq",), 1.5]


def fam_nonstr(tier):
    idx = 0
    for where in ("status", "name", "value"):
        for x in NONSTR:
            for shape in (0, 1):
                for path in ("initial", "exc_info-before-output"):
                    for body in BODIES:
                        for version in ("1.0", "1.1"):
                            for expose in (False, True):
                                idx += 1
                                status, headers = placed(where, x, shape)
                                yield mk(status, headers, path, body, version, expose, idx,
                                         {"fam": "nonstr", "where": where, "cls": type(x).__name__, "pos": shape})
    # a non-string value under a name the server itself interprets
    for name in ("Content-Length", "content-length", "CONTENT-LENGTH", "Connection", "Date"):
        for x in (2, True, 2.0, b"2", None):
            for path in ("initial", "exc_info-before-output"):
                for body in BODIES:
                    for version in ("1.0", "1.1"):
                        idx += 1
                        yield mk("200 Qz", [("A-Zq3", "aZq3"), (name, x)], path, body, version, idx % 2 == 0, idx,
                                 {"fam": "nonstr", "where": "value:" + name.lower(), "cls": type(x).__name__, "pos": 0})


def special_programs():
    P = []
    P.append(("empty-name", "200 Qz", [("", "vZq2wk")]))
    P.append(("empty-value", "200 Qz", [("X-Zq1k", "")]))
    P.append(("empty-both", "200 Qz", [("", "")]))
    P.append(("empty-value-mid", "200 Qz", [("A-Zq3", ""), ("X-Zq1k", ""), ("Z-Zq4", "z")]))
    P.append(("empty-status", "", [("X-Zq1k", "vZq2wk")]))
    P.append(("status-no-reason", "200", [("X-Zq1k", "vZq2wk")]))
    P.append(("status-sp-only", "200 ", [("X-Zq1k", "vZq2wk")]))
    P.append(("status-nonnumeric", "Qzq ok", [("X-Zq1k", "vZq2wk")]))
    # text that means something to a formatting / templating step (str.format, %, string.Template, escapes)
    for meta in ("{fields}", "{0}", "{", "}", "{{x}}", "{x.__class__}", "%s", "%(x)s", "%", "%%", "$x", "${x}", "\\r\\n", "\\"):
        P.append(("meta-status:" + meta, "200 Qz" + meta, [("X-Zq1k", "vZq2wk")]))
        P.append(("meta-status-only:" + meta, "200 " + meta, [("X-Zq1k", "vZq2wk")]))
        P.append(("meta-value:" + meta, "200 Qz", [("A-Zq3", "aZq3"), ("X-Zq1k", "vZq" + meta + "2wk")]))
        P.append(("meta-name:" + meta, "200 Qz", [("X-Zq" + meta, "vZq2wk"), ("Z-Zq4", "zZq4")]))
    for st in ("204 Qz", "304 Qz", "100 Qz", "199 Qz", "101 Qz", "205 Qz", "404 Qz", "500 Qz", "999 Qz"):
        P.append(("status-" + st[:3], st, [("X-Zq1k", "vZq2wk")]))
        P.append(("status-cl-" + st[:3], st, [("X-Zq1k", "vZq2wk"), ("Content-Length", "@CL")]))
    P.append(("no-headers", "200 Qz", []))
    P.append(("own-date", "200 Qz", [("Date", "dZq")]))
    P.append(("own-date-empty", "200 Qz", [("date", "")]))
    P.append(("own-server", "200 Qz", [("Server", "sZq")]))
    P.append(("own-server-empty", "200 Qz", [("SERVER", "")]))
    P.append(("own-via", "200 Qz", [("Via", "1.1 Zq"), ("Server", "sZq")]))
    P.append(("own-all", "200 Qz", [("via", "1.1 Zq"), ("server", "sZq"), ("date", "dZq"), ("content-length", "@CL")]))
    P.append(("long-s-server", "200 Qz", [("\u017ferver", "sZq")]))
    P.append(("dup-case", "200 Qz", [("x-dup", "1Zq"), ("X-DUP", "2Zq"), ("X-Dup", "3Zq"), ("x-Dup", "0Zq")]))
    P.append(("dup-cookie", "200 Qz", [("Set-Cookie", "b=Zq2"), ("Zz-Zq", "z"), ("set-cookie", "a=Zq1"),
                                       ("Aa-Zq", "a"), ("SET-COOKIE", "c=Zq3")]))
    P.append(("dup-identical", "200 Qz", [("X-Zq1k", "vZq2wk"), ("X-Zq1k", "vZq2wk")]))
    P.append(("colon-sp-name", "200 Qz", [("X-Zq1k: a", "vZq2wk")]))
    P.append(("colon-sp-ambiguous", "200 Qz", [("X-Zq", "a: bZq"), ("X-Zq: a", "bZq"), ("x-zq: A", "bZq")]))
    P.append(("colon-name", "200 Qz", [(":", "vZq2wk"), ("X:Zq", "v")]))
    P.append(("space-name", "200 Qz", [("X Zq1k", "vZq2wk"), (" ", "vZq"), ("X-Zq ", " vZq ")]))
    P.append(("value-ws", "200 Qz", [("X-Zq1k", "  vZq2wk\t "), ("X-Zq2", "\t")]))
    P.append(("many", "200 Qz", [("X-Zq%d" % i, "vZq%d" % i) for i in range(12)]))
    P.append(("latin1", "200 Qz\xe9", [("X-Zq\xe9", "vZq\xe9\xff\x80"), ("\xc9-Zq", "v")]))
    P.append(("sharp-s", "200 Qz", [("\xdf-zq", "v"), ("ss-Zq", "w"), ("x-\xdfzq", "v")]))
    P.append(("kelvin-mid", "200 Qz", [("X-Zq\u212a", "v"), ("X-Zqk", "w")]))
    P.append(("ligature", "200 Qz", [("\ufb01-Zq", "v"), ("\u0131d-Zq", "w")]))
    P.append(("dashes", "200 Qz", [("-", "vZq"), ("--x-Zq--", "v"), ("x--zq", "v")]))
    return P


def fam_special(tier):
    idx = 0
    for label, status, headers in special_programs():
        for path in ("initial", "exc_info-before-output"):
            for body in BODIES:
                for version in ("1.0", "1.1"):
                    for expose in (False, True):
                        idx += 1
                        yield mk(status, fix_cl(headers, body), path, body, version, expose, idx,
                                 {"fam": "special", "where": "special", "cls": label, "pos": 0})


def case_forms(name, rng):
    mixed = "".join(c.upper() if rng.random() < 0.5 else c for c in name)
    if mixed in (name, name.upper()):
        mixed = name[0].upper() + name[1:-1] + name[-1].upper()
    title = "-".join(x.capitalize() for x in name.split("-"))
    return [("lower", name), ("UPPER", name.upper()), ("Title", title), ("mIxEd", mixed)]


DECOR = [
    ("trail-SP", lambda n: n + " "), ("lead-SP", lambda n: " " + n), ("trail-HTAB", lambda n: n + "\t"),
    ("trail-NUL", lambda n: n + "\x00"), ("trail-colon", lambda n: n + ":"), ("prefix-X", lambda n: "X-" + n),
    ("suffix-x", lambda n: n + "-x"), ("trail-NBSP", lambda n: n + "\xa0"), ("trail-VT", lambda n: n + "\x0b"),
    ("kelvin", lambda n: n.replace("k", "\u212a").replace("K", "\u212a")),
    ("long-s", lambda n: n.replace("s", "\u017f")), ("dotless-i", lambda n: n.replace("i", "\u0131")),
    ("I-dot", lambda n: n.replace("I", "\u0130").replace("i", "\u0130")),
    ("underscore", lambda n: n.replace("-", "_")), ("trail-dash", lambda n: n + "-"),
]


def fam_hop(tier):
    rng = random.Random(8)
    idx = 0
    for hop in HOP:
        for cf, nm in case_forms(hop, rng):
            # bare: must be refused, full cross product
            for shape in (0, 1):
                for path in ("initial", "exc_info-before-output"):
                    for body in BODIES:
                        for version in ("1.0", "1.1"):
                            for expose in (False, True):
                                idx += 1
                                hv = "close" if hop == "connection" else "chunked" if hop == "transfer-encoding" else "hZq"
                                hs = [(nm, hv)] if shape == 0 else [("A-Zq3", "aZq3"), ("Z-Zq4", "zZq4"), (nm, hv)]
                                yield mk("200 Qz", hs, path, body, version, expose, idx,
                                         {"fam": "hop", "where": "name", "cls": "hop:" + hop + ":" + cf, "pos": shape})
            # decorated: not hop-by-hop by exact match
            for dl, df in DECOR:
                dn = df(nm)
                if dn == nm:
                    continue
                combos = [(p, b, v) for p in ("initial", "exc_info-before-output") for b in BODIES for v in ("1.0", "1.1")]
                if tier == "quick":
                    combos = [combos[(idx + 5 * i) % len(combos)] for i in range(4)]
                for path, body, version in combos:
                    idx += 1
                    yield mk("200 Qz", [("A-Zq3", "aZq3"), (dn, "hZq")], path, body, version, idx % 2 == 0, idx,
                             {"fam": "hop-decorated", "where": "name", "cls": "hop~" + hop + ":" + cf + ":" + dl, "pos": 0})


def second_calls():
    """(label, status, headers) for the re-call / the late header"""
    S = [
        ("valid", "500 Qz9", [("X-Second-Zq9", "sZq9")]),
        ("crlf-status", "500 Qz9\r\nInj-Zq9: 1", [("X-Second-Zq9", "sZq9")]),
        ("crlf-value", "500 Qz9", [("X-Second-Zq9", "sZq9\r\nInj-Zq9: 1")]),
        ("crlf-name", "500 Qz9", [("X-Second-Zq9\r\nInj-Zq9", "sZq9")]),
        ("lf-value", "500 Qz9", [("X-Second-Zq9", "sZq9\nInj-Zq9: 1")]),
        ("cr-value", "500 Qz9", [("X-Second-Zq9", "sZq9\rInj-Zq9: 1")]),
        ("crlfcrlf-value", "500 Qz9", [("X-Second-Zq9", "sZq9\r\n\r\nHTTP/1.1 200 Zq9\r\n\r\n")]),
        ("nonstr-value", "500 Qz9", [("X-Second-Zq9", 5)]),
        ("nonstr-name", "500 Qz9", [(None, "sZq9")]),
        ("nonstr-status", b"500 Qz9", [("X-Second-Zq9", "sZq9")]),
        ("hop", "500 Qz9", [("Connection", "close")]),
        ("unencodable", "500 Qz9\u0100", [("X-Second-Zq9", "sZq9\u0100")]),
    ]
    return S


def fam_after(tier):
    idx = 0
    for label, status, headers in second_calls():
        for body in ("write", "generator"):
            for version in ("1.0", "1.1"):
                for expose in (False, True):
                    idx += 1
                    yield mk(status, headers, "exc_info-after-output", body, version, expose, idx,
                             {"fam": "after", "where": "second", "cls": label, "pos": 0})
    for where in ("status", "name", "value"):
        base = BASE[where]
        for cls, off in OFFENDERS:
            ps = (0, 3, 6) if tier == "quick" else range(7)
            for p in ps:
                s = base[:p] + off + base[p:]
                for body in ("write", "generator"):
                    for version in ("1.0", "1.1"):
                        idx += 1
                        status, headers = placed(where, s, 0)
                        yield mk(status, headers, "exc_info-after-output", body, version, idx % 2 == 0, idx,
                                 {"fam": "after", "where": where, "cls": cls, "pos": "ins%d/6" % p})


def fam_recall_cl(tier):
    """the replaced first call carried its own (then correct) Content-Length"""
    idx = 0
    first = {"status": "200 Fqz", "headers": [["X-First-Zq7", "fZq8"], ["Content-Length", "77"]]}
    for label, status, headers in (
        ("second-without-cl", "500 Qz9", [("X-Second-Zq9", "sZq9")]),
        ("second-with-cl", "500 Qz9", [("X-Second-Zq9", "sZq9"), ("Content-Length", "@CL")]),
        ("second-no-headers", "500 Qz9", []),
        ("second-bodyless", "304 Qz9", [("X-Second-Zq9", "sZq9")]),
    ):
        for body in BODIES:
            for version in ("1.0", "1.1"):
                for expose in (False, True):
                    idx += 1
                    yield mk(status, fix_cl(headers, body), "exc_info-before-output", body, version, expose, idx,
                             {"fam": "recall-cl", "where": "first", "cls": label, "pos": 0}, first=first)


LATE_HEADERS = [
    ("inject-crlf-value", ("X-Late-Zq9", "vZq9\r\nInjected-Zq9: 1")),
    ("inject-lf-value", ("X-Late-Zq9", "vZq9\nInjected-Zq9: 1")),
    ("inject-cr-value", ("X-Late-Zq9", "vZq9\rInjected-Zq9: 1")),
    ("inject-crlf-name", ("X-Late-Zq9: x\r\nInjected-Zq9", "vZq9")),
    ("inject-end-of-head", ("X-Late-Zq9", "vZq9\r\n\r\nHTTP/1.1 200 Zq9\r\nContent-Length: 0\r\n\r\n")),
    ("safe", ("X-Late-Zq9", "vZq9")),
    ("safe-empty-value", ("X-Late-Zq9", "")),
    ("hop", ("Transfer-Encoding", "chunked")),
    ("hop-connection", ("connection", "keep-alive")),
    ("nonstr-value", ("X-Late-Zq9", 5)),
    ("nonstr-name", (None, "vZq9")),
    ("unencodable", ("X-Late-Zq9", "vZq9\u0100")),
]
LATE_KINDS = ("append", "insert-front", "replace", "clear", "inner-list-value", "inner-list-name", "inner-list-both")


def fam_late(tier):
    idx = 0
    for kind in LATE_KINDS:
        for label, lh in LATE_HEADERS:
            if kind == "clear" and label != "safe":
                continue
            for shape in (0, 1):
                for body in BODIES:
                    for version in ("1.0", "1.1"):
                        for expose in (False, True):
                            idx += 1
                            status, headers = placed("value", BASE["value"], shape)
                            yield mk(status, headers, "late-mutation", body, version, expose, idx,
                                     {"fam": "late", "where": "late:" + kind, "cls": label, "pos": shape},
                                     late={"kind": kind, "header": [enc(lh[0]), enc(lh[1])]})


def fam_cl_value(tier):
    """Content-Length (which the server parses itself) with CR / LF around or inside the number"""
    idx = 0
    for nm in ("Content-Length", "content-length", "CONTENT-LENGTH", "Content-length"):
        for dl, df in (("trail-CRLF", lambda n: n + "\r\n"), ("trail-LF", lambda n: n + "\n"), ("trail-CR", lambda n: n + "\r"),
                       ("lead-CRLF", lambda n: "\r\n" + n), ("lead-LF", lambda n: "\n" + n), ("end-of-head", lambda n: n + "\r\n\r\n"),
                       ("sp-LF", lambda n: " " + n + " \n"), ("inject", lambda n: n + "\r\nInj-Zq9: 1"), ("mid-LF", lambda n: n + "\n0")):
            for shape in (0, 1):
                for path in ("initial", "exc_info-before-output"):
                    for body in BODIES:
                        for version in ("1.0", "1.1"):
                            idx += 1
                            n = str({"list": 2, "generator": 2, "write": 2, "file_wrapper": 4}[body])
                            hs = [(nm, df(n))] if shape == 0 else [("A-Zq3", "aZq3"), (nm, df(n)), ("Z-Zq4", "zZq4")]
                            yield mk("200 Qz", hs, path, body, version, idx % 2 == 0, idx,
                                     {"fam": "cl-value", "where": "value", "cls": "content-length:" + dl, "pos": shape})


def fam_swallowed(tier):
    """must-refuse programs whose refusal the application catches"""
    idx = 0
    bad = [
        ("crlf-status", "200 Qz\r\nInj-Zq9: 1", [("X-Zq1k", "vZq2wk")]),
        ("lf-status", "200 Qz\nSet-Cookie: sid=Zq9", [("X-Zq1k", "vZq2wk")]),
        ("crlfcrlf-status", "200 Qz\r\n\r\n<html>Zq9", []),
        ("nonstr-status", b"200 Qz", [("X-Zq1k", "vZq2wk")]),
        ("crlf-value", "200 Qz", [("A-Zq3", "aZq3"), ("X-Zq1k", "vZq2wk\r\nInj-Zq9: 1"), ("Z-Zq4", "zZq4")]),
        ("crlf-value-first", "200 Qz", [("X-Zq1k", "vZq2wk\r\nInj-Zq9: 1"), ("Z-Zq4", "zZq4")]),
        ("crlf-name", "200 Qz", [("A-Zq3", "aZq3"), ("X-Zq1k\r\nInj-Zq9", "vZq2wk")]),
        ("nonstr-value", "200 Qz", [("A-Zq3", "aZq3"), ("X-Zq1k", 5)]),
        ("hop", "200 Qz", [("A-Zq3", "aZq3"), ("Connection", "close"), ("Z-Zq4", "zZq4")]),
        ("hop-te", "200 Qz", [("Transfer-Encoding", "chunked")]),
        ("cl-then-crlf", "200 Qz", [("Content-Length", "@CL"), ("X-Zq1k", "vZq2wk\nInj-Zq9: 1")]),
    ]
    for label, status, headers in bad:
        for path in ("swallowed-initial", "swallowed-recall"):
            for body in BODIES:
                for version in ("1.0", "1.1"):
                    for expose in (False, True):
                        idx += 1
                        yield mk(status, fix_cl(headers, body), path, body, version, expose, idx,
                                 {"fam": "swallowed", "where": "second" if path.endswith("recall") else "initial", "cls": label, "pos": 0})


def fam_iterables(tier):
    """the header collection is any iterable of pairs: one-shot iterators, iterables whose walks differ"""
    idx = 0
    progs = [("plain", "200 Qz", [("X-Zq1k", "vZq2wk")]),
             ("three", "200 Qz", [("A-Zq3", "aZq3"), ("X-Zq1k", "vZq2wk"), ("Content-Length", "@CL")]),
             ("crlf-value", "200 Qz", [("A-Zq3", "aZq3"), ("X-Zq1k", "vZq2wk\r\nInj-Zq9: 1")]),
             ("hop", "200 Qz", [("A-Zq3", "aZq3"), ("Connection", "close")])]
    for label, status, headers in progs:
        for path in ("headers-iterator", "headers-two-faced"):
            for body in BODIES:
                for version in ("1.0", "1.1"):
                    for expose in (False, True):
                        idx += 1
                        yield mk(status, fix_cl(headers, body), path, body, version, expose, idx,
                                 {"fam": "iterables", "where": path, "cls": label, "pos": 0})


def fam_fw_wrong_cl(tier):
    """wsgi.file_wrapper with a declared Content-Length other than the file's size (the server
    reconciles the length on that path): every other application header must survive, repeated
    names included"""
    idx = 0
    progs = [p for p in special_programs() if p[0] in ("dup-case", "dup-cookie", "dup-identical", "many", "value-ws", "latin1")]
    for label, status, headers in progs:
        for cl in ("9", "2", "0"):
            for pos in (0, len(headers)):
                for path in ("initial", "exc_info-before-output"):
                    for version in ("1.0", "1.1"):
                        idx += 1
                        hs = list(headers)
                        hs.insert(pos, ("Content-Length" if idx % 2 else "content-length", cl))
                        c = mk(status, hs, path, "file_wrapper", version, idx % 2 == 0, idx,
                               {"fam": "fw-wrong-cl", "where": "special", "cls": label + ":cl" + cl, "pos": pos})
                        c["cl_reconciled"] = True
                        yield c


def programs_optimized(tier):
    """what is run a second time under `python -O` (validation must not live in assert statements)"""
    yield from fam_nonstr(tier)
    for c in fam_hop(tier):
        if c["meta"]["fam"] == "hop":
            yield c
    yield from fam_swallowed(tier)
    yield from fam_cl_value(tier)


def programs(tier, seed):
    yield from fam_fw_wrong_cl(tier)
    yield from fam_iterables(tier)
    yield from fam_cl_value(tier)
    yield from fam_swallowed(tier)
    yield from fam_single(tier)
    yield from fam_double(tier, seed)
    yield from fam_nonstr(tier)
    yield from fam_special(tier)
    yield from fam_hop(tier)
    yield from fam_after(tier)
    yield from fam_late(tier)
    yield from fam_recall_cl(tier)


# ------------------------------------------------------------------- driver


def plan(tier, seed):
    parts = 16 if tier == "quick" else 32
    specs = [{"tier": tier, "seed": seed, "part": p, "parts": parts} for p in range(parts)]
    # the must-refuse families once more in an interpreter started with -O
    specs += [{"tier": tier, "seed": seed, "part": p, "parts": 4, "optimized": True, "pyflags": ["-O"]} for p in range(4)]
    return specs


def run_shard(spec):
    import itertools

    acc = Acc()
    part, parts = spec["part"], spec["parts"]
    if spec.get("optimized"):
        if sys.flags.optimize < 1:
            acc.inconclusive.append("harness: the -O shard was not started with -O")
        for case in itertools.islice(programs_optimized(spec["tier"]), part, None, parts):
            case = dict(case, optimized=True)
            case["meta"] = dict(case["meta"], where=str(case["meta"].get("where")) + "/-O")
            run_program(acc, case)
            acc.count("programs-under-python-O")
        return acc.out()
    for case in itertools.islice(programs(spec["tier"], spec["seed"]), part, None, parts):
        run_program(acc, case)
    if part == 0:
        # a few programs with the observed head + the unjudged observations
        notes = acc.__dict__.get("c08_notes", {})
        for key in ("prog:single:accepted", "prog:single:refused", "prog:late:accepted", "prog:after:accepted",
                    "obs:case-length-changed", "obs:optional-refusal"):
            if key in notes and len(acc.samples) < 6:
                acc.samples.append(notes[key])
    return acc.out()


def finish(agg, tier, coverage):
    coverage["exhaustive"] = True
    coverage["exhaustive_note"] = (
        "exhaustive ONLY for the single-offender family: every one of the %d offenders inserted at / replacing every "
        "position of every base prefix of length %s (status '200 Qz', name 'X-Zq1k', value 'vZq2wk') x {initial, "
        "exc_info re-call before output} x 4 body paths x HTTP/1.0, 1.1%s; two-offender strings are a seeded sample; "
        "hop-by-hop, non-str, special, after-output and late-mutation families are fixed finite lists run completely"
        % (len(OFFENDERS), "0, 3, 6" if tier == "quick" else "0..6",
           " (expose_tracebacks alternating)" if tier == "quick" else " x expose_tracebacks off/on")
    )
    c = agg["counters"]
    coverage["unjudged_outcomes"] = {k: v for k, v in sorted(c.items())
                                     if k.startswith(("unencodable:", "refused-optional:", "observed:", "late:"))}


def replay(case):
    if case.get("optimized") and sys.flags.optimize < 1:
        # witnessed under `python -O`: replay in such an interpreter
        import json
        import subprocess

        code = ("import json,sys; from vf import core; core.use_waitress(); from vf.checks import c08; "
                "print('@@'+json.dumps(c08.replay(json.loads(sys.stdin.read()))))")
        p = subprocess.run([sys.executable, "-O", "-c", code], input=json.dumps(case).encode(), stdout=subprocess.PIPE,
                           cwd=core.ROOT, env=dict(__import__("os").environ, PYTHONHASHSEED="0", PYTHONDONTWRITEBYTECODE="1"))
        for line in p.stdout.decode().splitlines():
            if line.startswith("@@"):
                return json.loads(line[2:])
        return []
    acc = Acc()
    run_program(acc, case)
    return acc.violations


def explain(case):
    core.use_waitress()
    acc = Acc()
    res, viol = run_program(acc, case)
    print("program:", describe(case))
    print("request:", request_bytes(case))
    print("wire   :", res.wire)
    print("closed :", res.closed, "exceptions:", res.exceptions)
    for k, w in viol:
        print("VIOLATION", k, w[:400])
