"""C20 -- configuration is validated; CLI and keyword forms are equivalent.

A reference rule table written from docs/arguments.rst, docs/runner.rst and
the runner help text is run against the real ``Adjustments`` constructor and
``Adjustments.parse_args`` on completely enumerated spaces.  Nothing in here
reads ``Adjustments._params`` for anything but the *names* to enumerate: the
type of every option, the accepted boolean spellings, the exclusion rules and
the proxy cross-checks are restated below from the documentation.
"""

import getopt
import itertools
import json
import os
import re
import socket
import warnings

from vf import core
from vf.core import Acc

ID = "C20"
LEVEL = "exploration"
RULE = (
    "configurations = (a) every subset of {listen, host, port, sockets, unix_socket} x ipv4/ipv6 "
    "toggle state x address family, (b) every subset of the six proxy header kinds x trusted_proxy "
    "{unset,set} x trusted_proxy_count {unset,set} (plus the same with an unknown kind), (c) unknown "
    "option names, (d) every socket list of length 1..3 over the socket kinds, (e) every adjustment x "
    "representative values of its documented type as keyword, (f) the same as --x=v / '--x v' / "
    "--x / --no-x through parse_args, (g) option names of arguments.rst, runner.rst and runner.HELP "
    "against _params, (h) settings as applied by create_server() on real sockets: mode of the UNIX socket file per "
    "unix_socket_perms value x process umask x keyword/CLI form, number of worker threads, addresses bound per "
    "listen item, descriptors listened on for sockets=. Each is judged by a reference rule table written from the documentation: "
    "refused (ValueError / getopt error) or accepted with exactly the documented cast of every "
    "supplied value. distinct = one key per configuration"
)
ASSUMPTIONS = [
    "the reference table in vf/checks/c20.py (option types, boolean spellings, exclusion and proxy "
    "rules) is a faithful reading of docs/arguments.rst, docs/runner.rst, docs/reverse-proxy.rst and runner.HELP",
    "numeric host literals resolve through getaddrinfo to themselves (127.0.0.1, ::1, 0.0.0.0, ::); "
    "host names are not used",
    "DESIGN O-4: defaults quoted in prose and duplicated help entries are not judged, only option names",
    "DESIGN O-5: clear_/log_untrusted_proxy_headers without trusted_proxy need not be refused",
    "`sockets` cannot be expressed on the command line (objects); it is excluded from the CLI forms and the help text",
    "unjudged (documentation silent, either outcome accepted, counted as unjudged:*): ipv4 and ipv6 both "
    "disabled; IPv4 disabled while the *default* host 0.0.0.0 is in effect; non-socket elements of "
    "`sockets`; header kinds in mixed case; --sockets=STRING on the command line",
]

APP = "vf.checks.c20:dummy_app"


def dummy_app(environ, start_response):  # resolved by parse_args
    start_response("200 OK", [("Content-Length", "0")])
    return [b""]


# ----------------------------------------------------------------- reference
# name -> documented type.  Written from docs/arguments.rst ("(string)",
# "(integer)", "(boolean)", "Set to ``True``", "Octal permissions ... (string)",
# "space-delimited list", "this is a set where you either specify ...").

DOC = {
    "host": "str",
    "port": "int",
    "ipv4": "bool",
    "ipv6": "bool",
    "listen": "listen",
    "threads": "int",
    "trusted_proxy": "optstr",
    "trusted_proxy_count": "int",
    "trusted_proxy_headers": "set",
    "log_untrusted_proxy_headers": "bool",
    "clear_untrusted_proxy_headers": "bool",
    "url_scheme": "str",
    "url_prefix": "prefix",
    "backlog": "int",
    "recv_bytes": "int",
    "send_bytes": "int",
    "outbuf_overflow": "int",
    "outbuf_high_watermark": "int",
    "inbuf_overflow": "int",
    "connection_limit": "int",
    "cleanup_interval": "int",
    "channel_timeout": "int",
    "log_socket_errors": "bool",
    "max_request_header_size": "int",
    "max_request_body_size": "int",
    "expose_tracebacks": "bool",
    "ident": "optstr",
    "asyncore_loop_timeout": "int",
    "asyncore_use_poll": "bool",
    "unix_socket": "str",
    "unix_socket_perms": "octal",
    "sockets": "sockets",
    "channel_request_lookahead": "int",
    "server_name": "str",
}
NOT_CLI = {"sockets"}
NON_ADJUSTMENT_OPTIONS = {"help", "call", "app"}

TRUE_SPELLINGS = ("t", "true", "y", "yes", "on", "1")
FALSE_SPELLINGS = ("f", "false", "n", "no", "off", "0")

X_KINDS = [
    "x-forwarded-for",
    "x-forwarded-host",
    "x-forwarded-proto",
    "x-forwarded-port",
    "x-forwarded-by",
]
KINDS = X_KINDS + ["forwarded"]
BOGUS_KIND = "x-forwarded-bogus"

DEFAULT_HOST, DEFAULT_PORT = "0.0.0.0", 8080
TP = "127.0.0.1"
TPC = 2

# options that must accompany an option for the configuration to be valid
COMPANIONS = {
    "trusted_proxy_count": {"trusted_proxy": TP},
    "trusted_proxy_headers": {"trusted_proxy": TP},
    # the documented default host 0.0.0.0 is an IPv4 address: give an IPv6
    # address to listen on so that switching IPv4 off is a satisfiable request
    "ipv4": {"listen": "[::1]:8080"},
}


def ref_bool(v):
    if isinstance(v, bool):
        return v
    s = str(v).lower()
    if s in TRUE_SPELLINGS:
        return True
    if s in FALSE_SPELLINGS:
        return False
    return None


def ref_cast(name, value):
    """Documented cast of `value` for option `name`: a list of acceptable
    results, or None when the documentation gives no answer."""
    kind = DOC.get(name)
    if kind == "bool":
        b = ref_bool(value)
        return None if b is None else [b]
    if kind == "int":
        return [int(value, 10) if isinstance(value, str) else int(value)]
    if kind == "octal":
        return [int(value, 8)]
    if kind == "str":
        return [value]
    if kind == "optstr":
        # HISTORY: "Server header can be omitted by specifying ident=None or ident=''"
        return [value] if value else [None, ""]
    if kind == "prefix":
        if value == "":
            return [""]
        collapsed = "/" + value.strip("/")
        if value.startswith("/"):
            return [collapsed]
        # the docs only promise "minus any trailing slashes"
        return [collapsed, value.rstrip("/")]
    if kind == "set":
        return [set(x.lower() for x in value.split())]
    return None


def split_hostport(item):
    if item.startswith("["):
        host, _, rest = item[1:].partition("]")
        port = rest[1:] if rest.startswith(":") else None
    elif ":" in item:
        host, port = item.rsplit(":", 1)
    else:
        host, port = item, None
    return host, port


def ref_listen(kw):
    """Expected value of adj.listen for the supplied options.

    -> (entries, ordered) or None when the request cannot be satisfied
    (an address of a disabled family)."""
    ipv4 = ref_bool(kw.get("ipv4", True))
    ipv6 = ref_bool(kw.get("ipv6", True))
    if "listen" in kw:
        pairs = [split_hostport(x) for x in kw["listen"].split()]
    else:
        host = kw.get("host", DEFAULT_HOST)
        port = kw.get("port", DEFAULT_PORT)
        pairs = [(host, port)]
    out = []
    ordered = True
    for host, port in pairs:
        port = DEFAULT_PORT if port is None else int(port)
        if host == "*":
            ordered = False
            if ipv4:
                out.append([socket.AF_INET, socket.SOCK_STREAM, socket.IPPROTO_TCP, ["0.0.0.0", port]])
            if ipv6:
                out.append([socket.AF_INET6, socket.SOCK_STREAM, socket.IPPROTO_TCP, ["::", port, 0, 0]])
        elif ":" in host:
            if not ipv6:
                return None
            out.append([socket.AF_INET6, socket.SOCK_STREAM, socket.IPPROTO_TCP, [host, port, 0, 0]])
        else:
            if not ipv4:
                return None
            out.append([socket.AF_INET, socket.SOCK_STREAM, socket.IPPROTO_TCP, [host, port]])
    return out, ordered


# -------------------------------------------------------------------- helpers


def norm(v):
    if isinstance(v, (set, frozenset)):
        return sorted(norm(x) for x in v)
    if isinstance(v, (list, tuple)):
        return [norm(x) for x in v]
    if isinstance(v, dict):
        return {str(k): norm(x) for k, x in v.items()}
    if isinstance(v, bool) or v is None:
        return v
    if isinstance(v, int):
        return int(v)
    if isinstance(v, str):
        return str(v)
    if isinstance(v, socket.socket):
        return "socket@%x" % id(v)
    return repr(v)


def js(v):
    return json.dumps(norm(v), sort_keys=True)


def same(a, b):
    # json text keeps True/1 and "1"/1 apart
    return js(a) == js(b)


def param_names():
    from waitress.adjustments import Adjustments

    return [n for n, _ in Adjustments._params]


def construct(kw):
    from waitress.adjustments import Adjustments

    with warnings.catch_warnings():
        warnings.simplefilter("ignore")
        try:
            return "ok", Adjustments(**kw)
        except ValueError as e:
            return "refused", str(e)
        except Exception as e:  # noqa: BLE001 - reported as a violation
            return "exc", e


def from_cli(argv):
    """What waitress-serve does with argv: parse_args, drop help/app, construct."""
    from waitress.adjustments import Adjustments, AppResolutionError

    with warnings.catch_warnings():
        warnings.simplefilter("ignore")
        try:
            kw = Adjustments.parse_args(list(argv) + [APP])
        except getopt.GetoptError as e:
            return "refused", "getopt: %s" % e
        except (ValueError, AppResolutionError) as e:
            # runner.run prints the usage text and exits 1 for both
            return "refused", "%s: %s" % (type(e).__name__, e)
        except Exception as e:  # noqa: BLE001
            return "exc", e
    kw.pop("help", None)
    kw.pop("app", None)
    return construct(kw)


_snapshot_names = None


def snapshot(adj):
    global _snapshot_names
    if _snapshot_names is None:
        names = param_names()
        if "listen" not in names:
            names.append("listen")
        _snapshot_names = names
    return {n: norm(getattr(adj, n, "<missing>")) for n in _snapshot_names}


_baseline = None


def baseline():
    global _baseline
    if _baseline is None:
        st, adj = construct({})
        _baseline = snapshot(adj) if st == "ok" else {}
    return _baseline


SOCK_KINDS = {
    "inet": ("AF_INET", socket.SOCK_STREAM),
    "inet6": ("AF_INET6", socket.SOCK_STREAM),
    "unix": ("AF_UNIX", socket.SOCK_STREAM),
    "dgram": ("AF_INET", socket.SOCK_DGRAM),
    "inet6_dgram": ("AF_INET6", socket.SOCK_DGRAM),
    "unix_dgram": ("AF_UNIX", socket.SOCK_DGRAM),
    "unix_seqpacket": ("AF_UNIX", socket.SOCK_SEQPACKET),
    "inet_raw": ("AF_INET", socket.SOCK_RAW),
}
NONSOCK = {"str": "not-a-socket", "int": 0, "none": None}


def make_sockets(kinds):
    out = []
    try:
        for k in kinds:
            if k in NONSOCK:
                out.append(NONSOCK[k])
            else:
                fam, typ = SOCK_KINDS[k]
                out.append(socket.socket(getattr(socket, fam), typ))
    except (OSError, AttributeError):
        close_sockets(out)
        return None
    return out


def close_sockets(socks):
    for s in socks or ():
        if isinstance(s, socket.socket):
            try:
                s.close()
            except OSError:
                pass


def argv_from_kw(kw):
    """--x=v / --x / --no-x spelling of a keyword set; None if inexpressible."""
    argv = []
    for k, v in kw.items():
        if k in NOT_CLI:
            return None
        opt = "--" + k.replace("_", "-")
        if DOC.get(k) == "bool":
            b = ref_bool(v)
            if b is None:
                return None
            argv.append(opt if b else "--no-" + k.replace("_", "-"))
        else:
            argv.append("%s=%s" % (opt, v))
    return argv


def reflect(adj, kw, socks=None):
    """Every supplied option has the documented cast; -> list of (attr, got, want)."""
    bad = []
    unjudged = 0
    for k, v in kw.items():
        kind = DOC.get(k)
        got = getattr(adj, k, "<missing>")
        if kind == "listen":
            continue
        if kind == "sockets":
            if len(got) != len(socks) or any(a is not b for a, b in zip(got, socks)):
                bad.append((k, norm(got), norm(socks)))
            continue
        alts = ref_cast(k, v) if kind else None
        if alts is None:
            unjudged += 1
            continue
        if k == "trusted_proxy_headers" and not alts[0] and kw.get("trusted_proxy"):
            alts = [{"x-forwarded-proto"}]  # documented backwards-compatible default
        if not any(same(got, a) for a in alts):
            bad.append((k, norm(got), norm(alts[0])))
    exp = ref_listen(kw)
    if exp is None:
        bad.append(("listen", norm(adj.listen), "an address of a disabled family cannot be listened on"))
    else:
        entries, ordered = exp
        got = norm(adj.listen)
        if ordered:
            ok = same(got, entries)
        else:
            ok = sorted(js(x) for x in got) == sorted(js(x) for x in entries)
        if not ok:
            bad.append(("listen", got, entries))
    return bad, unjudged


def compare_cli(kwform, cliform, name):
    """kwform/cliform = (status, adj|msg). -> (violations, compared?)"""
    vs = []
    ks, ka = kwform
    cs, ca = cliform
    if cs == "exc":
        vs.append(("exception:" + type(ca).__name__, "command-line form raised %r" % (ca,)))
        return vs, False
    if ks == "exc":
        return vs, False  # reported by the keyword evaluation
    if ks != cs:
        vs.append((
            "cli-kw-differ:" + name,
            "keyword form %s (%s) but command-line form %s (%s)"
            % (ks, ka if ks != "ok" else "accepted", cs, ca if cs != "ok" else "accepted"),
        ))
        return vs, True
    if ks == "ok":
        a, b = snapshot(ka), snapshot(ca)
        diff = {n: [a[n], b[n]] for n in a if js(a[n]) != js(b[n])}
        if diff:
            vs.append((
                "cli-kw-differ:" + name,
                "attributes differ [keyword, command line]: " + json.dumps(diff, sort_keys=True)[:400],
            ))
    return vs, True


class R:
    """Result of one evaluated configuration."""

    def __init__(self, dkey):
        self.dkey = dkey
        self.verdict = ""
        self.violations = []
        self.counts = []
        self.evals = 1

    def v(self, key, what):
        self.violations.append((key, what))

    def c(self, name, n=1):
        self.counts.append((name, n))


# ------------------------------------------------------- A: exclusion groups

EXCL_NAMES = ["listen", "host", "port", "sockets", "unix_socket"]
# ipv4=False together with ipv6=False: set to True to hold it to the same rule as
# a single disabled family (an address of a disabled family must not be listened on)
JUDGE_BOTH_OFF = False
TOGGLES = {
    "none": {},
    "ipv6off": {"ipv6": False},
    "ipv4off": {"ipv4": False},
    "bothoff": {"ipv4": False, "ipv6": False},
    "bothon": {"ipv4": True, "ipv6": True},
}
EXCL_VALUES = {
    "v4": {"listen": "127.0.0.1:9191", "host": "127.0.0.2"},
    "v6": {"listen": "[::1]:9191", "host": "::1"},
}


def excl_cases(tier):
    for r in range(len(EXCL_NAMES) + 1):
        for names in itertools.combinations(EXCL_NAMES, r):
            for toggle in TOGGLES:
                fams = ["v4", "v6"] if ("listen" in names or "host" in names) else ["v4"]
                for fam in fams:
                    yield {"t": "excl", "names": list(names), "toggle": toggle, "fam": fam}
            # the same conflict with values that are false in a boolean context (port 0, empty host)
            ngroups = sum(1 for g in ("listen", "sockets", "unix_socket") if g in names) + (1 if ("host" in names or "port" in names) else 0)
            if ngroups > 1 and ("host" in names or "port" in names):
                yield {"t": "excl", "names": list(names), "toggle": "none", "fam": "v4", "falsy": True}


def eval_excl(case):
    names, toggle, fam = case["names"], case["toggle"], case["fam"]
    r = R("excl|%s|%s|%s%s" % ("+".join(names) or "-", toggle, fam, "|falsy" if case.get("falsy") else ""))
    kw = {}
    socks = None
    for n in names:
        if n in ("listen", "host"):
            kw[n] = EXCL_VALUES[fam][n]
        elif n == "port":
            kw[n] = 0 if case.get("falsy") else 9090
        elif n == "unix_socket":
            kw[n] = "/tmp/vf-c20.sock"
        elif n == "sockets":
            socks = make_sockets(["inet"])
            kw[n] = socks
    if case.get("falsy") and "host" in kw:
        kw["host"] = ""
    kw.update(TOGGLES[toggle])
    try:
        groups = []
        if "listen" in names:
            groups.append("listen")
        if "host" in names or "port" in names:
            groups.append("+".join(n for n in ("host", "port") if n in names))
        if "sockets" in names:
            groups.append("sockets")
        if "unix_socket" in names:
            groups.append("unix_socket")
        ipv4 = toggle not in ("ipv4off", "bothoff")
        ipv6 = toggle not in ("ipv6off", "bothoff")

        st, res = construct(kw)
        if st == "exc":
            r.v("exception:" + type(res).__name__, "constructor raised %r" % (res,))
            r.verdict = "exception"
            return r
        supplied_addr = [n for n in ("listen", "host") if n in names]
        if len(groups) > 1:
            want = "refuse"
            why = "accepted-conflict:" + "+".join(
                g if g in ("listen", "sockets", "unix_socket") else "host/port" for g in groups
            )
        elif not ipv4 and not ipv6 and not JUDGE_BOTH_OFF:
            # each toggle is documented ("Enable or disable IPv4 (boolean)"), the
            # combination is not; the outcome is recorded, not judged
            want = "unjudged"
            why = "unjudged:both-families-off"
        elif supplied_addr and not (ipv4 if fam == "v4" else ipv6):
            want = "refuse"
            why = "accepted-conflict:%s-off+%s-address" % ("ipv4" if fam == "v4" else "ipv6", "ipv4" if fam == "v4" else "ipv6")
        elif not supplied_addr and not ipv4:
            # nothing the user supplied is an IPv4 address; only the default host is
            want = "unjudged"
            why = "unjudged:ipv4-off-with-default-host"
        else:
            want = "accept"
            why = ""

        if want == "unjudged":
            r.c(why)
            r.c(why + (":accepted" if st == "ok" else ":refused"))
            r.verdict = "unjudged, " + st + (" listen=" + js(res.listen) if st == "ok" else ": " + res)
        elif want == "refuse":
            if st == "ok":
                r.v(why, "configuration %s must be refused but was accepted (listen=%s)" % (js(kw), js(res.listen)))
                r.verdict = "ACCEPTED, must be refused"
            else:
                r.c("excl:refused")
                r.verdict = "refused as required: " + res
        else:
            if st == "refused":
                r.v("refused-valid:" + ("+".join(names) or "defaults"),
                    "valid configuration %s refused: %s" % (js(kw), res))
                r.verdict = "REFUSED, must be accepted"
            else:
                bad, _ = reflect(res, kw, socks)
                for attr, got, wantv in bad:
                    r.v("cast-mismatch:" + attr,
                        "configuration %s accepted with %s=%s, documented result %s" % (js(kw), attr, js(got), js(wantv)))
                r.c("excl:accepted")
                r.verdict = "accepted" + (", WRONG VALUES" if bad else " and reflected")

        # the same configuration through the command line
        argv = argv_from_kw(kw)
        if argv is not None and st != "exc":
            cli = from_cli(argv)
            vs, compared = compare_cli((st, res), cli, "exclusion")
            r.evals += 1
            if compared:
                r.c("cli:compared")
            for k, w in vs:
                r.v(k, "argv %s: %s" % (js(argv), w))
    finally:
        close_sockets(socks)
    return r


# ------------------------------------------------------------ B: proxy options


def proxy_cases(tier):
    forms = [" "] if tier == "quick" else [" ", "\n"]
    for bogus in (False, True):
        for r in range(len(KINDS) + 1):
            for hs in itertools.combinations(KINDS, r):
                for tp in (False, True):
                    for tpc in (False, True):
                        for sep in forms:
                            hl = list(hs) + ([BOGUS_KIND] if bogus else [])
                            if sep != " " and len(hl) < 2:
                                continue
                            yield {"t": "proxy", "headers": hl, "tp": tp, "tpc": tpc, "sep": sep}
    # every subset again in Canonical-Case and UPPER-CASE spelling (with trusted_proxy set): header kinds are
    # matched case-insensitively, so the exclusion rules must not depend on the spelling
    def canon(k):
        return "-".join(x.capitalize() for x in k.split("-"))

    for r in range(1, len(KINDS) + 1):
        for hs in itertools.combinations(KINDS, r):
            for spell in (canon, str.upper):
                yield {"t": "proxy", "headers": [spell(h) for h in hs], "tp": True, "tpc": False, "sep": " "}
    # header kinds the documentation does not list (real-world spellings of similar headers): unknown kinds
    for other in ("x-real-ip", "x-forwarded-server", "x-client-ip", "forwarded-for", "x-forwarded", "via", "x-forwarded-prefix",
                  "true-client-ip", "cf-connecting-ip", "x_forwarded_for", "x-forwarded-ssl", "x-forwarded-scheme", "x-cluster-client-ip"):
        for extra in ([], ["x-forwarded-for"], ["x-forwarded-proto", "x-forwarded-host"]):
            yield {"t": "proxy", "headers": extra + [other], "tp": True, "tpc": False, "sep": " "}
            yield {"t": "proxy", "headers": [other.upper()] + extra, "tp": True, "tpc": True, "sep": " "}
    # an explicitly empty header list, and mixed-case kinds (documentation silent on case)
    for tp in (False, True):
        yield {"t": "proxy", "headers": [], "tp": tp, "tpc": False, "sep": " ", "empty": True}
        yield {"t": "proxy", "headers": ["X-Forwarded-For", "X-FORWARDED-HOST"], "tp": tp, "tpc": False, "sep": " "}
        yield {"t": "proxy", "headers": ["Forwarded"], "tp": tp, "tpc": False, "sep": " "}


def eval_proxy(case):
    hs, tp, tpc, sep = case["headers"], case["tp"], case["tpc"], case.get("sep", " ")
    mask = "".join("1" if k in hs else "0" for k in KINDS)
    extra = [h for h in hs if h not in KINDS]
    r = R("proxy|%s%s|%s|%s|%s%s" % (mask, "+" + ",".join(extra) if extra else "", "tp" if tp else "-",
                                      "tpc" if tpc else "-", "nl" if sep == "\n" else "sp",
                                      "|empty" if case.get("empty") else ""))
    kw = {}
    if hs or case.get("empty"):
        kw["trusted_proxy_headers"] = sep.join(hs)
    if tp:
        kw["trusted_proxy"] = TP
    if tpc:
        kw["trusted_proxy_count"] = TPC
    low = [h.lower() for h in hs]
    mixed_case = low != hs
    unknown = [h for h in low if h not in KINDS]
    st, res = construct(kw)
    if st == "exc":
        r.v("exception:" + type(res).__name__, "constructor raised %r for %s" % (res, js(kw)))
        r.verdict = "exception"
        return r
    if unknown:
        why = "accepted-unknown:header-kind"
    elif "forwarded" in low and len(set(low)) > 1:
        why = "accepted-conflict:forwarded+x-forwarded"
    elif tpc and not tp:
        why = "accepted-conflict:trusted_proxy_count-without-trusted_proxy"
    elif hs and not tp:
        why = "accepted-conflict:trusted_proxy_headers-without-trusted_proxy"
    else:
        why = ""
    if why:
        if st == "ok":
            r.v(why, "configuration %s must be refused but was accepted with trusted_proxy_headers=%s"
                % (js(kw), js(res.trusted_proxy_headers)))
            r.verdict = "ACCEPTED, must be refused"
        else:
            r.c("proxy:refused")
            r.verdict = "refused as required: " + res
    elif mixed_case and st == "refused":
        r.c("unjudged:mixed-case-header-kind")
        r.verdict = "unjudged, refused"
    elif st == "refused":
        r.v("refused-valid:proxy", "valid configuration %s refused: %s" % (js(kw), res))
        r.verdict = "REFUSED, must be accepted"
    else:
        if mixed_case:
            r.c("unjudged:mixed-case-header-kind")
        bad, _ = reflect(res, kw)
        want = {
            "trusted_proxy": TP if tp else None,
            "trusted_proxy_count": TPC if tpc else 1,  # "Default: 1"
            "trusted_proxy_headers": set(low) if low else ({"x-forwarded-proto"} if tp else set()),
        }
        for attr, wv in want.items():
            got = getattr(res, attr)
            if not same(got, wv) and not any(b[0] == attr for b in bad):
                bad.append((attr, norm(got), norm(wv)))
        for attr, got, wv in bad:
            r.v("cast-mismatch:" + attr,
                "configuration %s accepted with %s=%s, documented result %s" % (js(kw), attr, js(got), js(wv)))
        r.c("proxy:accepted")
        r.verdict = "accepted" + (", WRONG VALUES" if bad else " and reflected")
    argv = argv_from_kw(kw)
    cli = from_cli(argv)
    vs, compared = compare_cli((st, res), cli, "proxy")
    r.evals += 1
    if compared:
        r.c("cli:compared")
    for k, w in vs:
        r.v(k, "argv %s: %s" % (js(argv), w))
    return r


# --------------------------------------------------- C: unknown option names

UNKNOWN_KW = ["bogus", "thread", "Host", "socket", "trusted-proxy", "LISTEN", "listen ", "no_ipv4", "help", "app", "call"]
# getopt accepts unique prefixes of long options (--thread=4 is --threads=4),
# so only names that are not a prefix of a real option are "unknown" there
UNKNOWN_CLI = ["--bogus=1", "--bogus", "--Host=127.0.0.1", "--no-port", "--no-threads", "--x-forwarded-for",
               "--trusted_proxy=127.0.0.1", "--LISTEN=127.0.0.1:8080"]


def unknown_cases(tier):
    for n in UNKNOWN_KW:
        for extra in ({}, {"port": 9090}, {"listen": "127.0.0.1:9191", "threads": 2}):
            yield {"t": "unknown", "via": "kw", "name": n, "with": extra}
    for n in UNKNOWN_KW:
        if n == "app":
            continue  # collides with the positional parameter of serve() itself (Python's TypeError, not an adjustment)
        for via in ("serve", "paste"):
            yield {"t": "unknown", "via": via, "name": n, "with": {"port": 0}}
    for a in UNKNOWN_CLI:
        for extra in ([], ["--port=9090"]):
            yield {"t": "unknown", "via": "cli", "name": a, "with": extra}
            if extra:
                yield {"t": "unknown", "via": "cli", "name": a, "with": extra, "last": True}


def eval_unknown(case):
    r = R("unknown|%s|%s|%s%s" % (case["via"], case["name"], js(case["with"]), "|last" if case.get("last") else ""))
    if case["via"] == "kw":
        kw = dict(case["with"])
        kw[case["name"]] = "1"
        st, res = construct(kw)
        shown = js(kw)
    elif case["via"] in ("serve", "paste"):
        # docs/arguments.rst: the same arguments through waitress.serve() and through PasteDeploy
        # (waitress.serve_paste); the server factory is the documented test shim, which does what
        # create_server does first: build the Adjustments
        import waitress
        from waitress.adjustments import Adjustments

        class _Srv:
            def __init__(self, app, **kw2):
                self.adj = Adjustments(**kw2)

            def run(self):
                pass

            def print_listen(self, *a):
                pass

        kw = dict(case["with"])
        kw[case["name"]] = "1"
        shown = case["via"] + "(" + js(kw) + ")"
        with warnings.catch_warnings():
            warnings.simplefilter("ignore")
            try:
                if case["via"] == "serve":
                    waitress.serve(dummy_app, _server=_Srv, _quiet=True, **kw)
                else:
                    waitress.serve_paste(dummy_app, {"here": "/"}, _server=_Srv, _quiet=True, **kw)
                st, res = "ok", None
            except ValueError as e:
                st, res = "refused", str(e)
            except Exception as e:  # noqa: BLE001
                st, res = "exc", e
    else:
        argv = (case["with"] + [case["name"]]) if case.get("last") else ([case["name"]] + case["with"])
        st, res = from_cli(argv)
        shown = js(argv)
    if st == "exc":
        r.v("exception:" + type(res).__name__, "%s raised %r" % (shown, res))
        r.verdict = "exception"
    elif st == "ok":
        r.v("accepted-unknown:option-name", "unknown option in %s accepted" % shown)
        r.verdict = "ACCEPTED, must be refused"
    else:
        r.c("unknown:refused")
        r.verdict = "refused as required: " + res
    return r


# ------------------------------------------------------------ D: socket lists


def socket_cases(tier):
    kinds = ["inet", "inet6", "unix", "dgram"]
    if tier != "quick":
        kinds += ["unix_dgram", "inet6_dgram"]
    for n in (1, 2, 3):
        for ks in itertools.product(kinds, repeat=n):
            yield {"t": "sockets", "kinds": list(ks)}
    for extra in ("unix_seqpacket", "inet_raw"):
        yield {"t": "sockets", "kinds": [extra]}
        for k in ("inet", "unix"):
            yield {"t": "sockets", "kinds": [k, extra]}
            yield {"t": "sockets", "kinds": [extra, k]}
    yield {"t": "sockets", "kinds": []}
    for ks in (["str"], ["inet", "str"], ["str", "unix"], ["int"], ["none", "inet"], ["inet", "str", "unix"]):
        yield {"t": "sockets", "kinds": ks}


def eval_sockets(case):
    kinds = case["kinds"]
    r = R("sockets|" + (",".join(kinds) or "-"))
    socks = make_sockets(kinds)
    if socks is None:
        r.c("skipped:socket-kind-unavailable")
        r.verdict = "skipped"
        r.evals = 0
        return r
    try:
        st, res = construct({"sockets": socks})
        nonsock = [k for k in kinds if k in NONSOCK]
        real = [k for k in kinds if k not in NONSOCK]
        if st == "exc" and not nonsock:
            r.v("exception:" + type(res).__name__, "sockets=%s raised %r" % (js(kinds), res))
            r.verdict = "exception"
            return r
        if nonsock:
            # docs: "A list of sockets"; what happens to other objects is not documented
            r.c("unjudged:non-socket-element")
            r.verdict = "unjudged, " + st
            return r
        has_inet = any(k in ("inet", "inet6") for k in real)
        has_unix = "unix" in real
        unsupported = [k for k in real if SOCK_KINDS[k][1] != socket.SOCK_STREAM]
        if unsupported:
            why = "accepted-conflict:unsupported-socket-type"
        elif has_inet and has_unix:
            why = "accepted-conflict:inet+unix-sockets"
        else:
            why = ""
        if why:
            if st == "ok":
                r.v(why, "sockets=%s must be refused but was accepted" % js(kinds))
                r.verdict = "ACCEPTED, must be refused"
            else:
                r.c("sockets:refused")
                r.verdict = "refused as required: " + res
        elif st == "refused":
            r.v("refused-valid:sockets", "valid socket list %s refused: %s" % (js(kinds), res))
            r.verdict = "REFUSED, must be accepted"
        else:
            got = res.sockets
            if len(got) != len(socks) or any(a is not b for a, b in zip(got, socks)):
                r.v("cast-mismatch:sockets", "sockets=%s accepted but adj.sockets has %d of %d elements"
                    % (js(kinds), len(got), len(socks)))
            r.c("sockets:accepted")
            r.verdict = "accepted and reflected"
    finally:
        close_sockets(socks)
    return r


# ------------------------------------------- G: settings applied by create_server


def applied_cases(tier):
    perms = [None, "600", "660", "666", "700", "777", "640", "604", "000"]
    if tier != "quick":
        perms += ["0600", "755", "711", "444", "222", "111", "7", "70"]
    for pv in perms:
        for um in (0o022, 0, 0o077, 0o027) if tier != "quick" or pv in (None, "660", "666") else (0o022, 0o077):
            for form in ("kw", "cli"):
                yield {"t": "applied", "what": "unix-perms", "perms": pv, "umask": um, "form": form}
    for n in (1, 2, 4, 7):
        for form in ("kw", "cli"):
            yield {"t": "applied", "what": "threads", "n": n, "form": form}
    for listen in ("127.0.0.1:0", "127.0.0.1:0 127.0.0.1:0", "[::1]:0", "127.0.0.1:0 [::1]:0"):
        yield {"t": "applied", "what": "listen", "listen": listen}
    for kinds in (["inet"], ["inet", "inet"], ["unix"], ["inet6"]):
        yield {"t": "applied", "what": "sockets", "kinds": kinds}


def eval_applied(case):
    """The settings as they arrive where they act: the mode of the socket file, the number of worker threads,
    the addresses bound, the sockets listened on."""
    import shutil
    import stat as statmod
    import tempfile

    from waitress import create_server
    from waitress.adjustments import Adjustments

    what = case["what"]
    r = R("applied|%s|%s" % (what, "|".join("%s=%s" % (k, case[k]) for k in sorted(case) if k not in ("t", "what"))))
    servers = []
    tmpd = None
    old_umask = None
    socks = None

    def make(kw):
        if case.get("form") == "cli":
            argv = ["--%s=%s" % (k.replace("_", "-"), v) for k, v in kw.items()] + ["vf.checks.c20:dummy_app"]
            with warnings.catch_warnings():
                warnings.simplefilter("ignore")
                kw2 = Adjustments.parse_args(argv)
            kw = {k: v for k, v in kw2.items() if k not in ("help", "call", "app")}
        m = {}
        with warnings.catch_warnings():
            warnings.simplefilter("ignore")
            srv = create_server(dummy_app, map=m, **kw)
        servers.append(srv)
        srv._vf_map = m
        return srv

    def listeners(srv):
        return [d for d in srv._vf_map.values() if getattr(d, "accepting", False)]

    try:
        if what == "unix-perms":
            os.makedirs(core.WORK, exist_ok=True)
            tmpd = tempfile.mkdtemp(prefix="c20-", dir="/tmp" if len(core.WORK) > 60 else core.WORK)
            path = os.path.join(tmpd, "s")
            kw = {"unix_socket": path}
            if case["perms"] is not None:
                kw["unix_socket_perms"] = case["perms"]
            want = int(case["perms"] or "600", 8)
            old_umask = os.umask(case["umask"])
            srv = make(kw)
            mode = statmod.S_IMODE(os.stat(path).st_mode)
            if not statmod.S_ISSOCK(os.stat(path).st_mode):
                r.v("applied-wrong:unix_socket", "%s is not a socket" % path)
            if mode != want:
                r.v("applied-wrong:unix_socket_perms", "unix_socket_perms=%r under umask %03o (%s form): the socket file has mode %04o, documented %04o"
                    % (case["perms"], case["umask"], case["form"], mode, want))
            now = os.umask(case["umask"])
            if now != case["umask"]:
                r.c("observed:umask-changed-by-create_server")
            r.c("applied:unix-perms")
            r.verdict = "mode %04o" % mode
        elif what == "threads":
            srv = make({"listen": "127.0.0.1:0", "threads": case["n"]})
            disp = srv.task_dispatcher
            n = len(disp.threads)
            if n != case["n"]:
                r.v("applied-wrong:threads", "threads=%d (%s form): the dispatcher has %d worker threads" % (case["n"], case["form"], n))
            r.c("applied:threads")
            r.verdict = "%d threads" % n
        elif what == "listen":
            items = case["listen"].split()
            try:
                srv = make({"listen": case["listen"]})
            except OSError as e:
                r.c("skipped:address-unavailable")
                r.verdict = "skipped: %s" % e
                r.evals = 0
                return r
            bound = [d.socket.getsockname()[0] for d in listeners(srv)]
            want = sorted(split_hostport(i)[0].strip("[]") for i in items)
            if sorted(bound) != want:
                r.v("applied-wrong:listen", "listen=%r: listening addresses %r, documented %r" % (case["listen"], sorted(bound), want))
            r.c("applied:listen")
            r.verdict = "bound %s" % sorted(bound)
        elif what == "sockets":
            socks = make_sockets(case["kinds"])
            if socks is None:
                r.c("skipped:socket-kind-unavailable")
                r.verdict = "skipped"
                r.evals = 0
                return r
            for s_ in socks:
                try:
                    if s_.family == socket.AF_UNIX:
                        os.makedirs(core.WORK, exist_ok=True)
                        tmpd = tempfile.mkdtemp(prefix="c20-", dir="/tmp" if len(core.WORK) > 60 else core.WORK)
                        s_.bind(os.path.join(tmpd, "s"))
                    elif s_.family == socket.AF_INET6:
                        s_.bind(("::1", 0))
                    else:
                        s_.bind(("127.0.0.1", 0))
                except OSError as e:
                    r.c("skipped:address-unavailable")
                    r.verdict = "skipped: %s" % e
                    r.evals = 0
                    return r
            srv = make({"sockets": socks})
            fds = sorted(s_.fileno() for s_ in socks)
            got = sorted(d.socket.fileno() for d in listeners(srv))
            if got != fds:
                r.v("applied-wrong:sockets", "sockets=%s: listening on descriptors %r, given %r" % (js(case["kinds"]), got, fds))
            r.c("applied:sockets")
            r.verdict = "listening on the %d given socket(s)" % len(fds)
    except Exception as e:  # noqa: BLE001
        r.v("exception:" + type(e).__name__, "%s: %r" % (r.dkey, e))
        r.verdict = "exception"
    finally:
        if old_umask is not None:
            os.umask(old_umask)
        for srv in servers:
            try:
                srv.task_dispatcher.shutdown(timeout=1)
            except Exception:
                pass
            try:
                srv.close()
            except Exception:
                pass
        if socks:
            close_sockets(socks)
        if tmpd:
            shutil.rmtree(tmpd, ignore_errors=True)
    return r


# ------------------------------------------------- E/F: casts and CLI spellings


def casings(words):
    out = []
    for w in words:
        for c in (w.lower(), w.upper(), w.title()):
            if c not in out:
                out.append(c)
    return out


def values_for(name, tier):
    kind = DOC.get(name)
    thorough = tier != "quick"
    if kind == "bool":
        return [True, False] + casings(TRUE_SPELLINGS) + casings(FALSE_SPELLINGS)
    if kind == "int":
        vals = [0, 1, 42, 65535, "0", "1", "42", "65535", "007"]
        if thorough:
            vals += [2, 3, 100, 1024, 4096, "2", "100", "1024", "4096", "0042", "00"]
        return vals
    if kind == "octal":
        vals = ["600", "0600", "777"]
        if thorough:
            vals += ["644", "660", "0", "0777", "0o600", "0O644"]
        return vals
    if kind == "listen":
        vals = [
            "127.0.0.1:8080",
            "127.0.0.1:8080 127.0.0.1:8081",
            "127.0.0.1:8080\n127.0.0.1:8081",
            "127.0.0.1:8080 127.0.0.1:8081\n127.0.0.1:8082",
            "  127.0.0.1:8080   127.0.0.1:8081  \n\n  [::1]:8082\n",
            "[::1]:8080",
            "127.0.0.1:8080 [::1]:8080",  # example in arguments.rst
            "*:8083",
        ]
        if thorough:
            vals += ["*:8080 *:6543", "0.0.0.0:1", "127.0.0.1:65535\n127.0.0.2:65535 127.0.0.3:65535", "[::]:8084"]
        return vals
    if kind == "set":
        vals = [
            "x-forwarded-for",
            "forwarded",
            "x-forwarded-for x-forwarded-host",
            "x-forwarded-for\nx-forwarded-host",
            "x-forwarded-for x-forwarded-host\nx-forwarded-proto",
            "  x-forwarded-port   x-forwarded-by \n\n x-forwarded-proto\n",
            " ".join(X_KINDS),
        ]
        if thorough:
            vals += ["\n".join(X_KINDS), "x-forwarded-proto", "x-forwarded-by\n\nx-forwarded-port"]
        return vals
    if kind == "prefix":
        vals = ["", "/foo", "/foo/", "/foo/bar", "/foo/bar//", "//foo", "foo", "foo/"]
        if thorough:
            vals += ["///foo/bar///", "/a/b/c", "foo/bar"]
        return vals
    if kind == "sockets":
        return [["inet"], ["inet", "inet6"], ["unix"], []]
    per = {
        "host": (["127.0.0.1", "0.0.0.0", "::1"], ["127.0.0.2", "::"]),
        "url_scheme": (["https", "http", "ws"], ["HTTPS", "wss"]),
        "server_name": (["example.com", "localhost", "my.server.example:8443"], ["", "with space"]),
        "unix_socket": (["/tmp/vf-c20.sock", "relative.sock"], ["/tmp/with space.sock"]),
        "ident": (["waitress", "my server/1.0", ""], ["x"]),
        "trusted_proxy": (["127.0.0.1", "*", "localhost", "::1", ""], ["192.0.2.1"]),
    }
    if name in per:
        q, t = per[name]
        return q + (t if thorough else [])
    if kind in ("str", "optstr"):
        return ["value", "two words"]
    return []


def cast_cases(name, tier):
    for v in values_for(name, tier):
        yield {"t": "cast", "name": name, "value": v}
    if name in NOT_CLI:
        return
    for v in values_for(name, tier):
        if DOC.get(name) == "bool":
            yield {"t": "cli", "name": name, "value": v, "form": "flag"}
        else:
            yield {"t": "cli", "name": name, "value": v, "form": "eq"}
            yield {"t": "cli", "name": name, "value": v, "form": "sp"}
    if name == "listen":
        reps = [["127.0.0.1:8080", "127.0.0.1:8081"]]
        if tier != "quick":
            reps += [["127.0.0.1:8080", "[::1]:8081", "127.0.0.1:8082"], ["127.0.0.1:8080 127.0.0.1:8081", "127.0.0.1:8082"]]
        for rp in reps:
            yield {"t": "cli-repeat", "name": "listen", "values": rp, "form": "eq"}
            yield {"t": "cli-repeat", "name": "listen", "values": rp, "form": "sp"}


def vshort(v):
    s = js(v)
    return s if len(s) <= 48 else s[:45] + "..."


def build_kw(name, value):
    kw = dict(COMPANIONS.get(name, {}))
    socks = None
    if DOC.get(name) == "sockets":
        socks = make_sockets(value)
        kw[name] = socks
    else:
        kw[name] = value
    return kw, socks


DERIVED = {"host": {"listen"}, "port": {"listen"}, "ipv4": {"listen"}, "ipv6": {"listen"}}


def eval_cast(case):
    name, value = case["name"], case["value"]
    r = R("cast|%s|%s" % (name, vshort(value)))
    if name not in DOC:
        r.c("unjudged:no-reference-type")
        r.verdict = "no documented type for this option (reported by the docs comparison)"
        return r
    kw, socks = build_kw(name, value)
    if DOC[name] == "sockets" and socks is None:
        r.c("skipped:socket-kind-unavailable")
        r.evals = 0
        return r
    try:
        st, res = construct(kw)
        if st == "exc":
            r.v("exception:" + type(res).__name__, "%s raised %r" % (js(kw), res))
            r.verdict = "exception"
            return r
        if DOC[name] not in ("listen", "sockets") and ref_cast(name, value) is None:
            r.c("unjudged:no-reference-cast")
            r.verdict = "unjudged"
            return r
        if st == "refused":
            r.v("refused-valid:" + name, "valid setting %s refused: %s" % (js(kw), res))
            r.verdict = "REFUSED, must be accepted"
            return r
        bad, _ = reflect(res, kw, socks)
        for attr, got, wv in bad:
            r.v("cast-mismatch:" + attr,
                "%s gives %s=%s, documented cast is %s" % (js(kw), attr, js(got), js(wv)))
        # nothing else may move
        base = baseline()
        snap = snapshot(res)
        skip = set(kw) | DERIVED.get(name, set())
        if "trusted_proxy" in kw:
            skip.add("trusted_proxy_headers")
        moved = {n: [base[n], snap[n]] for n in base if n not in skip and js(base[n]) != js(snap[n])}
        if moved:
            r.v("cast-crosstalk:" + name,
                "%s also changed [default, now]: %s" % (js(kw), json.dumps(moved, sort_keys=True)[:300]))
        r.c("cast:checked")
        r.c("cast:kind:" + DOC[name])
        r.verdict = "accepted" + (", WRONG VALUES" if bad or moved else ", %s=%s" % (name, vshort(getattr(res, name))))
    finally:
        close_sockets(socks)
    return r


def eval_cli(case):
    name, value, form = case["name"], case["value"], case["form"]
    r = R("cli|%s|%s|%s" % (name, form, vshort(value)))
    if name not in DOC:
        r.c("unjudged:no-reference-type")
        r.verdict = "no documented type for this option"
        return r
    comp = COMPANIONS.get(name, {})
    kw = dict(comp)
    kw[name] = value
    argv = argv_from_kw(comp)
    opt = "--" + name.replace("_", "-")
    if form == "flag":
        b = ref_bool(value)
        argv.append(opt if b else "--no-" + name.replace("_", "-"))
    elif form == "eq":
        argv.append("%s=%s" % (opt, value))
    else:
        argv += [opt, str(value)]
    kwf = construct(kw)
    cli = from_cli(argv)
    vs, compared = compare_cli(kwf, cli, name)
    for k, w in vs:
        r.v(k, "keyword %s vs argv %s: %s" % (js(kw), js(argv), w))
    if compared:
        r.c("cli:compared")
        r.c("cli:form:" + form)
    # the command-line result against the documentation as well
    if cli[0] == "ok" and ref_cast(name, value) is not None or (cli[0] == "ok" and DOC[name] == "listen"):
        bad, _ = reflect(cli[1], kw)
        for attr, got, wv in bad:
            r.v("cast-mismatch:" + attr, "argv %s gives %s=%s, documented cast is %s" % (js(argv), attr, js(got), js(wv)))
    elif cli[0] == "refused" and kwf[0] == "refused":
        r.v("refused-valid:" + name, "valid setting %s refused in both forms: %s" % (js(argv), cli[1]))
    r.verdict = "keyword %s / command line %s%s" % (kwf[0], cli[0], ", DIFFER" if vs else ", identical")
    return r


def eval_cli_repeat(case):
    vals, form = case["values"], case["form"]
    r = R("cli-repeat|listen|%s|%s" % (form, vshort(vals)))
    kw = {"listen": " ".join(vals)}
    argv = []
    for v in vals:
        argv += ["--listen=" + v] if form == "eq" else ["--listen", v]
    kwf = construct(kw)
    cli = from_cli(argv)
    vs, compared = compare_cli(kwf, cli, "listen")
    for k, w in vs:
        r.v(k, "keyword %s vs argv %s (repeated --listen must accumulate): %s" % (js(kw), js(argv), w))
    if compared:
        r.c("cli:compared")
        r.c("cli:listen-repeated")
    if cli[0] == "ok":
        bad, _ = reflect(cli[1], kw)
        for attr, got, wv in bad:
            r.v("cast-mismatch:" + attr, "argv %s gives %s=%s, documented %s" % (js(argv), attr, js(got), js(wv)))
    r.verdict = "keyword %s / command line %s%s" % (kwf[0], cli[0], ", DIFFER" if vs else ", identical")
    return r


def eval_cli_sockets(case):
    """--sockets=STRING: the option exists in the getopt table but cannot carry sockets."""
    r = R("cli|sockets|eq|x")
    st, res = from_cli(["--sockets=x"])
    if st == "exc":
        r.v("exception:" + type(res).__name__, "--sockets=x raised %r" % (res,))
    r.c("unjudged:cli-sockets-string")
    r.verdict = "unjudged, " + st
    return r


# ------------------------------------------------------ G: docs vs _params


def docs_dir():
    return os.path.join(os.path.dirname(os.path.realpath(core.WAITRESS_SRC)), "docs")


def read_docs(fn):
    with open(os.path.join(docs_dir(), fn), encoding="utf-8") as f:
        return f.read()


def arguments_entries(text):
    # definition-list terms: a bare identifier at column 0 followed by an indented line
    return re.findall(r"^([A-Za-z_][A-Za-z0-9_]*)[ \t]*\n[ \t]+\S", text, re.M)


def help_entries(text):
    # option headings are indented by exactly four blanks; examples are deeper
    out = []
    for neg, name, arg in re.findall(r"^ {4}--(\[no-\])?([A-Za-z0-9][A-Za-z0-9_-]*)(=\S+)?[ \t]*$", text, re.M):
        out.append((name, bool(neg), bool(arg)))
    return out


def runner_rst_entries(text):
    out = []
    for neg, name, arg in re.findall(r"^``--(\[no-\])?([A-Za-z0-9][A-Za-z0-9_-]*)(=[^`]*)?``[ \t]*$", text, re.M):
        out.append((name, bool(neg), bool(arg)))
    return out


def eval_docs(case=None):
    """-> list of R, one per (table, name)."""
    from waitress import runner

    params = param_names()
    results = []

    def one(dkey):
        r = R(dkey)
        results.append(r)
        return r

    try:
        entries = arguments_entries(read_docs("arguments.rst"))
    except OSError as e:
        r = one("docs|arguments.rst")
        r.c("inconclusive:docs-unreadable")
        r.verdict = "cannot read arguments.rst: %s" % e
        r.inconclusive = "cannot read %s: %s" % (os.path.join(docs_dir(), "arguments.rst"), e)
        return results
    if len(set(entries)) != len(entries):
        dup = sorted({e for e in entries if entries.count(e) > 1})
        r = one("docs|arguments.rst|duplicates")
        r.c("docs:duplicate-entries-not-judged", len(dup))
        r.verdict = "duplicate entries (not judged, O-4): %s" % dup
    for n in params:
        r = one("docs|arguments.rst|param|" + n)
        r.c("docs:params_checked")
        if n in entries:
            r.verdict = "documented"
        else:
            r.v("undocumented-param:" + n, "adjustment %r is implemented (_params) but has no entry in docs/arguments.rst" % n)
            r.verdict = "UNDOCUMENTED"
        if n not in DOC:
            r.c("docs:param-without-reference-type")
    for e in dict.fromkeys(entries):
        r = one("docs|arguments.rst|entry|" + e)
        r.c("docs:entries_checked")
        if e in params:
            r.verdict = "implemented"
        else:
            r.v("doc-without-param:" + e, "docs/arguments.rst documents %r which is not an adjustment" % e)
            r.verdict = "NOT IMPLEMENTED"

    tables = [("help", "runner.HELP", help_entries(runner.HELP), "help-missing:", "help-without-param:", "help-form:")]
    try:
        tables.append(("runner.rst", "docs/runner.rst", runner_rst_entries(read_docs("runner.rst")),
                       "runner-doc-missing:", "runner-doc-without-param:", "runner-doc-form:"))
    except OSError:
        pass
    for tag, label, ents, kmiss, kextra, kform in tables:
        names = {}
        for name, neg, arg in ents:
            if name.startswith("no-") and not arg:
                name, neg = name[3:], True
            names.setdefault(name.replace("-", "_"), (neg, arg))
        dup = sorted({n for n, _, _ in ents if [x[0] for x in ents].count(n) > 1})
        if dup:
            r = one("docs|%s|duplicates" % tag)
            r.c("docs:duplicate-entries-not-judged", len(dup))
            r.verdict = "duplicate entries (not judged, O-4): %s" % dup
        for n in params:
            if n in NOT_CLI:
                continue
            r = one("docs|%s|param|%s" % (tag, n))
            r.c("help:options_checked" if tag == "help" else "runner_rst:options_checked")
            if n not in names:
                r.v(kmiss + n, "adjustment %r is accepted by parse_args but --%s is not listed in %s"
                    % (n, n.replace("_", "-"), label))
                r.verdict = "MISSING"
                continue
            neg, arg = names[n]
            kind = DOC.get(n)
            if kind == "bool" and arg:
                r.v(kform + n, "%s documents boolean flag --%s as taking a value" % (label, n.replace("_", "-")))
            elif kind is not None and kind != "bool" and not arg:
                r.v(kform + n, "%s documents --%s without a value" % (label, n.replace("_", "-")))
            r.verdict = "listed"
        for n in names:
            if n in NON_ADJUSTMENT_OPTIONS:
                continue
            r = one("docs|%s|entry|%s" % (tag, n))
            r.c("help:entries_checked" if tag == "help" else "runner_rst:entries_checked")
            if n in params and n not in NOT_CLI:
                r.verdict = "implemented"
            else:
                r.v(kextra + n, "%s lists --%s which is not a command-line adjustment" % (label, n.replace("_", "-")))
                r.verdict = "NOT IMPLEMENTED"
    return results


# --------------------------------------------------------------------- driver

EVAL = {
    "excl": eval_excl,
    "proxy": eval_proxy,
    "unknown": eval_unknown,
    "sockets": eval_sockets,
    "cast": eval_cast,
    "cli": eval_cli,
    "cli-repeat": eval_cli_repeat,
    "cli-sockets": eval_cli_sockets,
    "applied": eval_applied,
}

NPARTS = 8


def plan(tier, seed):
    # the spaces are enumerated completely; the seed does not select anything
    specs = [{"mode": "rules", "tier": tier}, {"mode": "docs", "tier": tier}]
    for i in range(NPARTS):
        specs.append({"mode": "cast", "tier": tier, "part": i, "parts": NPARTS})
    return specs


def required_counters(tier):
    return [
        "excl:accepted",
        "excl:refused",
        "proxy:accepted",
        "proxy:refused",
        "sockets:accepted",
        "sockets:refused",
        "cast:checked",
        "cli:compared",
        "docs:params_checked",
        "help:options_checked",
        "unknown:refused",
        "applied:unix-perms",
        "applied:threads",
        "applied:listen",
        "applied:sockets",
    ]


def account(acc, r, case, sample=False, limit=1):
    acc.evaluations += r.evals
    if r.evals:
        acc.distinct.add(r.dkey)
    for name, n in r.counts:
        acc.count(name, n)
    for key, what in r.violations:
        acc.violation(key, what, case)
    if getattr(r, "inconclusive", None):
        acc.inconclusive.append(r.inconclusive)
    if sample:
        acc.sample({"case": case, "config": r.dkey, "verdict": r.verdict}, limit=limit)


def run_shard(spec):
    core.use_waitress()
    acc = Acc()
    tier = spec.get("tier", "quick")
    if spec["mode"] == "rules":
        for gen in (excl_cases, proxy_cases, unknown_cases, socket_cases, applied_cases):
            want = "accepted" if gen is excl_cases else "refused"
            shown = False
            for case in gen(tier):
                r = EVAL[case["t"]](case)
                pick = not shown and r.verdict.startswith(want) and len(case.get("names", case.get("headers", "xx"))) > 1
                shown = shown or pick
                account(acc, r, case, sample=pick, limit=2)
                acc.count("space:" + case["t"])
    elif spec["mode"] == "cast":
        names = sorted(param_names())[spec["part"] :: spec["parts"]]
        for name in names:
            for i, case in enumerate(cast_cases(name, tier)):
                r = EVAL[case["t"]](case)
                account(acc, r, case, sample=(case["t"] == "cli" and i % 7 == 3))
                acc.count("space:" + case["t"])
            if name == "sockets":
                case = {"t": "cli-sockets"}
                account(acc, eval_cli_sockets(case), case)
        acc.count("params_enumerated", len(names))
    else:
        case = {"t": "docs"}
        for i, r in enumerate(eval_docs(case)):
            account(acc, r, case, sample=(i == 40))
    return acc.out()


def finish(agg, tier, coverage):
    c = agg["counters"]
    coverage["exhaustive"] = True
    coverage["exhaustive_note"] = (
        "every space named by the property is enumerated completely, none is sampled: "
        "all 2^5 subsets of {listen, host, port, sockets, unix_socket} x 5 ipv4/ipv6 toggle states "
        "(absent, ipv6 off, ipv4 off, both off, both on; this contains the 2^6 subsets with the toggle as sixth "
        "element) x IPv4/IPv6 literal addresses = %d configurations; all 2^6 subsets of the six proxy header "
        "kinds x trusted_proxy {unset,set} x trusted_proxy_count {unset,set} = 2^8, and the same 2^8 with an "
        "unknown seventh kind (%d configurations incl. newline-separated, empty and mixed-case forms); %d unknown "
        "option names/forms; every socket list of length 0..3 over the socket kinds (%d); every name in "
        "Adjustments._params (%d) x the representative values of its documented type (every accepted boolean "
        "spelling in three casings, ints as int and decimal string, octal strings, lists with spaces / newlines / "
        "both) x {keyword, --x=v, '--x v' or --x/--no-x} = %d keyword casts and %d command-line comparisons "
        "(every exclusion and proxy configuration expressible on the command line is compared as well); every "
        "option name of docs/arguments.rst, docs/runner.rst and runner.HELP against _params in both directions. "
        "`sockets` is excluded from the command-line forms (objects cannot be passed). The seed selects nothing."
        % (
            c.get("space:excl", 0),
            c.get("space:proxy", 0),
            c.get("space:unknown", 0),
            c.get("space:sockets", 0),
            c.get("params_enumerated", 0),
            c.get("cast:checked", 0),
            c.get("cli:compared", 0),
        )
    )
    coverage["unjudged"] = {k: v for k, v in sorted(c.items()) if k.startswith("unjudged:")}
    kinds = [k for k in c if k.startswith("cast:kind:")]
    if len(kinds) < 9:
        coverage["inconclusive"].append("only %d of 9 documented option types exercised" % len(kinds))
    if c.get("params_enumerated", 0) < len(DOC):
        coverage["inconclusive"].append(
            "only %d parameters enumerated, the reference table has %d" % (c.get("params_enumerated", 0), len(DOC))
        )
    if c.get("cli:listen-repeated", 0) == 0:
        coverage["inconclusive"].append("repeated --listen never compared")


def replay(case):
    core.use_waitress()
    if case.get("t") == "docs":
        rs = eval_docs(case)
    else:
        rs = [EVAL[case["t"]](case)]
    return [{"key": k, "what": w, "case": case} for r in rs for k, w in r.violations]
