"""C16 -- trusted proxy headers: only trusted kinds, only trusted hops, never a
crash.

Every hop of a generated X-Forwarded-For / X-Forwarded-Host / Forwarded list
carries markers unique to its position (vf/gen/proxyvals.py); the oracle
checks which hop the application-visible variables came from, that no marker of
a hop left of the trusted suffix occurs in any environ value, that untrusted
kinds neither influence the variables (relational) nor survive clearing, that
the malformed classes named by the property give 400, and that nothing gives a
500 / an exception."""

import random

from vf import core
from vf.core import Acc, b2s, s2b

ID = "C16"
LEVEL = "exploration"
RULE = (
    "cases on the real server-installed middleware (SyncHarness), peer = trusted proxy (10.0.0.1; '*' with a foreign "
    "peer; unix server with trusted_proxy=localhost). (hops) every allowed trusted_proxy_headers value (32 subsets of "
    "X-Forwarded-*, 'forwarded') x trusted_proxy_count 1..4 x clear on/off, hop lists of length 0..5 with per-hop unique "
    "markers in all address/host forms, untrusted kinds present with an 'evil' namespace, one untrusted kind varied in a "
    "second run; (malformed) the catalogue of the six classes the property names at every list position of lists of "
    "length 1..5 x count 1..4; (degenerate) the unclassified catalogue likewise; (neighbourhood) every single-byte "
    "insert/replace/delete over a 41-byte alphabet of 10 base header values x count 1..4. Oracle: status in {200,400}, no "
    "exception, wire parses; REMOTE_ADDR/HOST/PORT, SERVER_NAME, HTTP_HOST, SERVER_PORT, wsgi.url_scheme come from hop "
    "max(0,n-count) (Forwarded: oldest element of the last `count` carrying the parameter); no marker of a hop left of the "
    "trusted suffix in any environ value; untrusted kinds: no influence, absent when clearing; named malformed classes "
    "inside the trusted suffix -> 400. distinct = (mode, trusted kinds, n, count, form/class, config class)"
)
ASSUMPTIONS = [
    "hop selection rule implemented: X-Forwarded-For / X-Forwarded-Host are split at ',' and the element at index max(0, n - trusted_proxy_count) (0 = leftmost) supplies the client address / host; each header is sliced independently",
    "Forwarded rule implemented (docs/reverse-proxy.rst + the comment in proxy_headers.py 'the oldest entry that contains the information we expect is the one we use'): the elements are sliced to the last trusted_proxy_count; for, host and proto are each taken from the OLDEST (leftmost) element of that slice that carries the parameter; a parameter carried by no trusted element leaves the variable at the peer's / server's value",
    "a host with an explicit port sets HTTP_HOST verbatim, SERVER_NAME to the host part and SERVER_PORT to that port; a host without port gives HTTP_HOST in {host, host:port}; SERVER_PORT is X-Forwarded-Port if trusted and present, else the scheme's default port or the server's own (both accepted)",
    "a malformed element is required to give 400 only when it lies inside the trusted suffix (bad quoting, missing '=', padding) or is the element the value is actually taken from (unsupported scheme, empty host); left of the suffix both 400 and 200 are accepted",
    "X-Forwarded-For ':80' is read by waitress as a bare IPv6 literal (the code assumes X-Forwarded-For IPv6 elements carry no port) and is therefore in the unclassified catalogue; the empty-host class is exercised through Forwarded for=\":<port>\"",
    "forms marked strict=False in vf/gen/proxyvals.py (extension parameters, stray ';', unquoted host:port in Forwarded, '[v6]:port' in X-Forwarded-For) may be refused with 400; if accepted the hop and taint oracles still apply",
    "values are legal HTTP field values; header names use '-' (underscore spellings never reach the middleware, see C15)",
]

TRUSTED = "10.0.0.1"
PEER = [TRUSTED, 50000]
FOREIGN_PEER = ["203.0.113.50", 50000]
BASE_REQ = b"GET /c16?x=1 HTTP/1.1\r\nHost: orig.example:8080\r\nX-Other: keep\r\n\r\n"


def required_counters(tier):
    from vf.gen import proxyvals as P

    need = ["status:200", "status:400"]
    need += ["malformed:" + c for c in P.MALFORMED_CLASSES]
    need += ["unclassified", "hops:xff", "hops:forwarded", "hops:xfh", "untrusted-present", "neighbourhood",
             "kinds:forwarded", "variant-runs", "taint-checked", "trust:star", "trust:unix", "crash-monitor"]
    need += ["kinds:subset:%d" % k for k in range(1, 6)]
    need += ["hopsel:%d/%d" % (n, c) for n in range(1, 6) for c in range(1, 5)]
    return need


# --------------------------------------------------------------------- plan


def hop_confs():
    from vf.gen import proxyvals as P

    out = []
    i = 0
    sets = P.allowed_kind_sets()
    # 'forwarded' is one value of trusted_proxy_headers out of 33 but has by far
    # the richest grammar: give it the weight of six subsets
    sets = sets + [("forwarded",)] * 5
    for kinds in sets:
        for c in (1, 2, 3, 4):
            for clear in (True, False):
                # the names as an operator writes them: any letter case, a set or one whitespace-separated string
                out.append({"kinds": list(kinds), "count": c, "clear": clear, "trust": "addr", "spell": i % 5})
                if i % 4 == 0:
                    out.append({"kinds": list(kinds), "count": c, "clear": clear, "trust": "star"})
                if i % 8 == 3:
                    out.append({"kinds": list(kinds), "count": c, "clear": clear, "trust": "unix"})
                i += 1
    return out


def plan(tier, seed):
    from vf.gen import proxyvals as P

    quick = tier == "quick"
    confs = hop_confs()
    rng = random.Random(seed * 6007 + 16)
    rng.shuffle(confs)
    specs = []
    for i, part in enumerate(core.split(confs, 24 if quick else 48)):
        specs.append({"mode": "hops", "confs": part, "per": 800 if quick else 8000, "seed": seed * 100019 + i})
    for p in range(2 if quick else 4):
        specs.append({"mode": "malformed", "part": p, "parts": 2 if quick else 4, "variants": 1 if quick else 3})
    for p in range(3 if quick else 6):
        specs.append({"mode": "degenerate", "part": p, "parts": 3 if quick else 6, "variants": 1 if quick else 3})
    for b in range(len(P.NEIGHBOUR_BASES)):
        parts = 1 if quick else 4
        for p in range(parts):
            specs.append({"mode": "neighbourhood", "base": b, "part": p, "parts": parts, "variants": 1 if quick else 4})
    specs.append({"mode": "probe"})
    return specs


# ------------------------------------------------------------------ harness

_harnesses = {}
_base = {}


def spelled(kinds, spell):
    kinds = list(kinds)
    if spell == 3:
        return [k.title() for k in kinds]
    if spell == 4 and kinds:
        return " ".join(k.upper() if j % 2 else k.title() for j, k in enumerate(kinds))
    return kinds


def make_config(conf):
    trust = conf.get("trust", "addr")
    cfg = {
        "trusted_proxy": {"addr": TRUSTED, "star": "*", "unix": "localhost"}[trust],
        "trusted_proxy_headers": spelled(conf["kinds"], conf.get("spell", 0)),
        "trusted_proxy_count": conf["count"],
        "clear_untrusted_proxy_headers": bool(conf["clear"]),
    }
    unix = trust == "unix"
    addr = FOREIGN_PEER if trust == "star" else PEER
    return cfg, unix, addr


def harness(cfg, unix):
    from vf.sync import SyncHarness

    kw = dict(cfg)
    if not isinstance(kw.get("trusted_proxy_headers"), str):
        kw["trusted_proxy_headers"] = set(kw.get("trusted_proxy_headers") or ())
    key = (bool(unix), tuple(sorted((k, repr(sorted(v)) if isinstance(v, set) else repr(v)) for k, v in kw.items())))
    h = _harnesses.get(key)
    if h is None:
        if len(_harnesses) >= 48:
            # keep this cache and SyncHarness's own server cache (which closes
            # and evicts everything beyond 60 entries) in step, so that no
            # harness held here ever refers to a closed server
            for srv in list(SyncHarness._servers.values()):
                try:
                    srv.close()
                except Exception:
                    pass
            SyncHarness._servers.clear()
            _harnesses.clear()
            _base.clear()
        h = SyncHarness(unix=bool(unix), **kw)
        h._vf_key = key
        _harnesses[key] = h
    return h


def base_env(h, addr):
    """the environ of the same request without any proxy header"""
    from vf.gen import proxyvals as P

    k = (h._vf_key, addr[0], addr[1])
    e = _base.get(k)
    if e is None:
        o = P.observe(h, BASE_REQ, addr)
        if o.status != 200 or o.env is None:
            raise RuntimeError("base request not answered 200: %r" % (o.status,))
        e = P.plain(o.env)
        _base[k] = e
    return e


def render(lines):
    """lines: [[name, value], ...] -> request bytes"""
    out = [b"GET /c16?x=1 HTTP/1.1", b"Host: orig.example:8080"]
    for name, value in lines:
        out.append(name.encode("latin-1") + b": " + value.encode("latin-1"))
    out.append(b"X-Other: keep")
    return b"\r\n".join(out) + b"\r\n\r\n"


# -------------------------------------------------------------------- judge


def _fold(s):
    return s.lower() if isinstance(s, str) else s


def judge(acc, case, count=True):
    """Run case (and its variant); record violations.  Returns the Obs."""
    from vf.gen import proxyvals as P

    cfg, unix, addr = case["config"], case.get("unix", False), case["addr"]
    h = harness(cfg, unix)
    base = base_env(h, addr)
    exp = case["expect"]
    o = P.observe(h, s2b(case["request"]), addr)
    acc.evaluations += 1

    def viol(key, what):
        acc.violation(key, what, case)

    if count:
        acc.count("status:%s" % o.status)
    bad = totality(o, viol, "")
    if bad:
        return o
    want = exp.get("status", "any")
    cls = exp.get("cls") or "?"
    if want == 400:
        if o.status != 400:
            viol("malformed-accepted:" + cls,
                 f"{cls}: {exp.get('what', '')} answered {o.status}; seven variables: "
                 + repr({v: (o.env or {}).get(v) for v in P.SEVEN}))
        return o
    if want == 200 and o.status != 200:
        if exp.get("strict", True):
            viol("wellformed-refused:" + cls, f"well-formed {exp.get('what', '')} refused with {o.status}: {o.reply!r}")
        elif count:
            acc.count("lenient-refused")
        return o
    if o.status != 200 or o.env is None:
        return o
    env = P.plain(o.env)
    # (3) hop selection
    for var, (op, val) in sorted(exp.get("vars", {}).items()):
        got = env.get(var)
        if op == "base":
            ok = got == base.get(var)
            val = base.get(var)
        elif op == "eq":
            ok = _fold(got) == _fold(val)
        elif op == "has":
            ok = isinstance(got, str) and _fold(val) in _fold(got)
        elif op == "in":
            cands = [base.get(var) if v == "@base" else v for v in val]
            ok = _fold(got) in [_fold(v) for v in cands]
            val = cands
        else:
            ok = True
        if not ok:
            viol("wrong-hop:" + var, f"{var}: expected {op} {val!r}, application saw {got!r} ({exp.get('what', '')})")
    # taint
    taint = exp.get("taint") or []
    if taint:
        if count:
            acc.count("taint-checked")
        for k, v in sorted(env.items()):
            if not isinstance(v, str):
                continue
            lv = v.lower()
            for m in taint:
                if m.lower() in lv:
                    viol("left-hop-leaked", f"marker {m!r} of a hop left of the trusted suffix occurs in {k}={v[:160]!r}")
                    break
    # (2) kinds
    for kind in exp.get("absent", ()):
        if P.ENVKEY[kind] in env:
            viol("untrusted-kind-not-stripped:" + kind,
                 f"{P.ENVKEY[kind]}={env[P.ENVKEY[kind]][:100]!r} reached the application; trusted kinds {cfg['trusted_proxy_headers']}")
    for kind in exp.get("present", ()):
        if P.ENVKEY[kind] not in env:
            viol("trusted-kind-stripped:" + kind, f"{P.ENVKEY[kind]} (trusted) missing from the environ")
    var = case.get("variant")
    if var:
        o2 = P.observe(h, s2b(var["request"]), addr)
        acc.evaluations += 1
        if count:
            acc.count("variant-runs")
        kind = var["kind"]
        if not totality(o2, viol, "variant: "):
            if o2.status != o.status:
                viol(f"untrusted-kind-influence:{kind}:status",
                     f"changing untrusted {kind} changed the status {o.status} -> {o2.status}")
            elif o2.env is not None:
                for v in P.SEVEN:
                    if o2.env.get(v) != o.env.get(v):
                        viol(f"untrusted-kind-influence:{kind}:{v}",
                             f"changing untrusted {kind} changed {v}: {o.env.get(v)!r} -> {o2.env.get(v)!r}")
    return o


def totality(o, viol, tag):
    bad = False
    for c in o.crashes:
        viol(f"proxy-crash:{c['type']}@{c['func']}", f"{tag}{c['type']}({c['msg']}) at {c['where']} -> status {o.status}")
        bad = True
    for e in o.exceptions:
        viol("exception:" + e["type"], f"{tag}{e['type']}: {e['msg']} {e['where']}")
        bad = True
    if o.werr or o.hung or o.nresp != 1:
        viol("wire-unparseable", f"{tag}responses={o.nresp} error={o.werr} hung={o.hung}")
        bad = True
    elif o.status == 500:
        if not o.crashes:
            viol("status-500", f"{tag}500 response: {o.reply!r}")
        bad = True
    elif o.status not in (200, 400):
        viol("status-other:%s" % o.status, f"{tag}status {o.status}: {o.reply!r}")
        bad = True
    elif (o.status == 200) != (o.ncalls == 1):
        viol("status-other:call-count", f"{tag}status {o.status} with {o.ncalls} application calls")
        bad = True
    return bad


# --------------------------------------------------------------- hops mode

DEFAULT_PORT = {"http": "80", "https": "443"}


def untrusted_value(kind, rng, alt=False):
    """value of an untrusted kind: 'evil' namespace, well-formed or hostile"""
    from vf.gen import proxyvals as P

    j = 1 if alt else 0
    r = rng.random()
    if not alt and rng.random() < 0.12:
        # present but empty (or blank): an untrusted kind all the same
        return rng.choice(["", "", " ", "\t"])
    if kind == "x-forwarded-for":
        return [P.EVIL_ADDR, "203.0.113.67:6%d66" % j, '"203.0.113.66', ":80", "[2001:db8::66]"][int(r * 5)] if not alt else "203.0.113.68"
    if kind == "x-forwarded-host":
        return [P.EVIL_HOSTS[j], P.EVIL_HOSTS[j] + ":" + P.EVIL_PORTS[j], '"evil0.example', ":80"][int(r * 4)] if not alt else P.EVIL_HOSTS[1]
    if kind == "x-forwarded-proto":
        return ["https", "ftp", "http, https", '"https'][int(r * 4)] if not alt else "HTTPS"
    if kind == "x-forwarded-port":
        return [P.EVIL_PORTS[0], "80, 81", '"80'][int(r * 3)] if not alt else P.EVIL_PORTS[1]
    if kind == "x-forwarded-by":
        return ["evilby", '"'][int(r * 2)] if not alt else "evilby2"
    if kind == "forwarded":
        if alt:
            return "for=203.0.113.68;host=evil1.example:6166;proto=https"
        return [
            "for=203.0.113.66;host=evil0.example;proto=https", "for=:80", 'for="203.0.113.66', "for = 203.0.113.66",
            "proto=ftp", "evil", 'for="[2001:db8::66]:6066";host="evil0.example:6066";proto=https;by=_evil',
        ][int(r * 7)]
    raise ValueError(kind)


def gen_hops_case(rng, n, conf):
    from vf.gen import proxyvals as P

    cfg, unix, addr = make_config(conf)
    c = conf["count"]
    T = set(conf["kinds"]) or {"x-forwarded-proto"}
    lines = []
    what = []
    strict = True
    taint = []
    vars_ = {}
    sel_for = sel_host = None
    proto = port = None
    hopkinds = []
    forms = []

    if "forwarded" in T:
        if n:
            elems = P.fwd_list(n, rng)
            if rng.random() < 0.5:
                # make sure the newest element carries everything, so that
                # "oldest trusted that carries it" is exercised against it
                elems[-1] = P.fwd_elem(n - 1, rng, params=("for", "host", "proto", "by"))
            lines.append(["Forwarded", P.join_hops(elems, rng)])
            strict = strict and all(e["strict"] for e in elems)
            cut = max(0, n - c)
            for e in elems[:cut]:
                taint += e["marks"]
            for e in elems[cut:]:
                if sel_for is None and e["for_"]:
                    sel_for = e["for_"]
                if sel_host is None and e["host"]:
                    sel_host = e["host"]
                if proto is None and e["proto"]:
                    proto = e["proto"]
            hopkinds.append("forwarded")
            forms.append(elems[cut]["form"].split("+")[0])
            what.append(f"Forwarded n={n} count={c} -> element {cut}")
    else:
        if "x-forwarded-for" in T and n:
            hops = P.xff_list(n, rng)
            lines.append(["X-Forwarded-For", P.join_hops(hops, rng)])
            strict = strict and all(h_["strict"] for h_ in hops)
            cut = max(0, n - c)
            sel_for = hops[cut]
            for h_ in hops[:cut]:
                taint += h_["marks"]
            hopkinds.append("xff")
            forms.append("xff:" + sel_for["form"])
            what.append(f"X-Forwarded-For n={n} count={c} -> hop {cut}")
        if "x-forwarded-host" in T:
            n2 = n if rng.random() < 0.75 else rng.randint(0, 5)
            if n2:
                hops = P.xfh_list(n2, rng)
                lines.append(["X-Forwarded-Host", P.join_hops(hops, rng)])
                cut = max(0, n2 - c)
                sel_host = hops[cut]
                for h_ in hops[:cut]:
                    taint += h_["marks"]
                hopkinds.append("xfh:%d" % n2)
                forms.append("xfh:" + sel_host["form"])
                what.append(f"X-Forwarded-Host n={n2} count={c} -> hop {cut}")
        if "x-forwarded-proto" in T and rng.random() < 0.7:
            v = rng.choice(P.XF_PROTO_OK)
            lines.append(["X-Forwarded-Proto", v])
            proto = v.strip('"').lower()
        if "x-forwarded-port" in T and rng.random() < 0.6:
            v = rng.choice(P.XF_PORT_OK)
            lines.append(["X-Forwarded-Port", v])
            port = v.strip('"')
        if "x-forwarded-by" in T and rng.random() < 0.5:
            lines.append(["X-Forwarded-By", rng.choice(("203.0.113.9", "_gw, _edge", '"px"'))])
    present = [k for k in P.KINDS if any(P.NAME[k] == ln[0] for ln in lines)]

    # expectation for the seven variables
    if sel_for:
        op = "eq" if sel_for["exact"] else "has"
        vars_["REMOTE_ADDR"] = [op, sel_for["sel"]]
        vars_["REMOTE_HOST"] = [op, sel_for["sel"]]
        if sel_for.get("port_any"):
            pass
        elif sel_for["port"]:
            vars_["REMOTE_PORT"] = ["eq", sel_for["port"]]
        else:
            vars_["REMOTE_PORT"] = ["base", None]
    else:
        for v in ("REMOTE_ADDR", "REMOTE_HOST", "REMOTE_PORT"):
            vars_[v] = ["base", None]
    vars_["wsgi.url_scheme"] = ["eq", proto] if proto else ["base", None]
    cand = port or (DEFAULT_PORT.get(proto) if proto else None)
    if sel_host:
        vars_["SERVER_NAME"] = ["eq", sel_host["sel"]]
        if sel_host["port"]:
            vars_["HTTP_HOST"] = ["eq", sel_host["sel"] + ":" + sel_host["port"]]
            vars_["SERVER_PORT"] = ["eq", sel_host["port"]]
        else:
            vars_["HTTP_HOST"] = ["in", [sel_host["sel"]] + ([sel_host["sel"] + ":" + cand] if cand else [])]
            if port:
                vars_["SERVER_PORT"] = ["eq", port]
            elif cand:
                vars_["SERVER_PORT"] = ["in", [cand, "@base"]]
            else:
                vars_["SERVER_PORT"] = ["base", None]
    else:
        vars_["SERVER_NAME"] = ["base", None]
        vars_["HTTP_HOST"] = ["base", None]
        if port:
            vars_["SERVER_PORT"] = ["eq", port]
        elif cand:
            vars_["SERVER_PORT"] = ["in", [cand, "@base"]]
        else:
            vars_["SERVER_PORT"] = ["base", None]

    # untrusted kinds, one of them varied in the second run
    U = [k for k in P.KINDS if k not in T]
    upresent = [k for k in U if rng.random() < 0.5]
    ulines = [[P.NAME[k], untrusted_value(k, rng)] for k in upresent]
    variant = None
    all_lines = list(lines)
    for ul in ulines:
        all_lines.insert(rng.randrange(len(all_lines) + 1), ul)
    if rng.random() < 0.3:
        all_lines = [[nm.upper() if rng.random() < 0.5 else nm.lower(), v] for nm, v in all_lines]
    if upresent:
        k = rng.choice(upresent)
        if rng.random() < 0.5:
            vl = [ln for ln in all_lines if ln[0].lower() != P.NAME[k].lower()]
        else:
            vl = [[nm, untrusted_value(k, rng, alt=True)] if nm.lower() == P.NAME[k].lower() else [nm, v] for nm, v in all_lines]
        variant = {"kind": k, "request": b2s(render(vl))}
    elif U and rng.random() < 0.3:
        # the untrusted kind appears only in the second run
        k = rng.choice(U)
        vl = list(all_lines) + [[P.NAME[k], untrusted_value(k, rng)]]
        variant = {"kind": k, "request": b2s(render(vl))}
    expect = {
        "status": 200, "strict": strict, "cls": "+".join(h_.split(":")[0] for h_ in hopkinds) or "no-hops",
        "what": "; ".join(what) or "no hop list", "vars": vars_, "taint": taint,
        "absent": upresent if conf["clear"] else [], "present": present,
    }
    case = {"config": cfg, "unix": unix, "addr": addr, "request": b2s(render(all_lines)), "expect": expect}
    if variant:
        case["variant"] = variant
    meta = {"hopkinds": hopkinds, "forms": forms, "untrusted": bool(upresent), "strict": strict}
    return case, meta


def run_hops(acc, spec):
    rng = random.Random(spec["seed"])
    for conf in spec["confs"]:
        kinds = conf["kinds"]
        kcls = "fwd" if kinds == ["forwarded"] else "x%d" % len(kinds)
        for i in range(spec["per"]):
            n = i % 6
            case, meta = gen_hops_case(rng, n, conf)
            judge(acc, case)
            c = conf["count"]
            for hk in meta["hopkinds"]:
                name = hk.split(":")[0]
                acc.count("hops:" + name)
                nn = int(hk.split(":")[1]) if ":" in hk else n
                if nn:
                    acc.count("hopsel:%d/%d" % (nn, c))
            if kinds == ["forwarded"]:
                acc.count("kinds:forwarded")
            else:
                acc.count("kinds:subset:%d" % len(kinds) if kinds else "kinds:subset:0-default-proto")
            if meta["untrusted"]:
                acc.count("untrusted-present")
            if not meta["strict"]:
                acc.count("form-lenient")
            acc.count("trust:" + conf["trust"])
            acc.distinct.add("hops|%s|%s|n%d|c%d|%s|clear%d|%s|u%d" % (
                kcls, "+".join(sorted(kinds)) if len(kinds) < 3 else kcls, n, c, "+".join(meta["forms"]),
                int(conf["clear"]), conf["trust"], int(meta["untrusted"])))
            if i == 7:
                acc.sample({"mode": "hops", "config": case["config"], "request": case["request"],
                            "expect": case["expect"]["what"]}, limit=2)


# --------------------------------------------- malformed / degenerate modes


def marker_hops(kind, n, rng):
    """n plain strict marker elements of `kind` (Forwarded: full elements)"""
    from vf.gen import proxyvals as P

    if kind == "x-forwarded-for":
        return [P.xff_hop(i, ("ip4", "ip4port", "ip6br")[i % 3]) for i in range(n)]
    if kind == "x-forwarded-host":
        return [P.xfh_hop(i, ("host", "hostport")[i % 2]) for i in range(n)]
    out = []
    for i in range(n):
        f = P.fwd_for(i, ("ip4", "ip6portq")[i % 2])
        hh = P.fwd_host(i, ("host", "hostportq")[i % 2])
        out.append({"text": "for=%s;host=%s;proto=http;by=%s" % (f["val"], hh["val"], P.m_by(i)),
                    "marks": f["marks"] + hh["marks"] + [P.m_by(i)]})
    return out


def positioned_cases(kind, value, cls, status_rule, variants):
    """value placed at every position of marker lists of length 1..5, count
    1..4.  status_rule: 'suffix' (400 iff inside the trusted suffix),
    'selected' (400 iff it is the element the value is taken from), 'any'."""
    from vf.gen import proxyvals as P

    rng = random.Random(1)
    tsets = [[kind]]
    if kind != "forwarded" and variants > 1:
        tsets.append(list(P.XKINDS))
    for T in tsets:
        for vi in range(variants):
            clear = vi % 2 == 0
            trust = ("addr", "star", "addr")[vi % 3]
            for n in range(1, 6):
                base_hops = marker_hops(kind, n, rng)
                for pos in range(n):
                    for c in (1, 2, 3, 4):
                        texts = [h_["text"] for h_ in base_hops]
                        texts[pos] = value
                        cut = max(0, n - c)
                        if status_rule == "suffix":
                            want = 400 if pos >= cut else "any"
                        elif status_rule == "selected":
                            want = 400 if pos == cut else "any"
                        else:
                            want = "any"
                        # hops that are left of the trusted suffix whether or
                        # not the odd element is counted as a hop
                        taint = []
                        for j, h_ in enumerate(base_hops):
                            if j == pos:
                                continue
                            # an EMPTY element of an X-Forwarded-For / -Host list is a hop like any other
                            # (a trusted proxy that appends nothing usable must not shift the selection to
                            # the element left of it); other odd elements may or may not be counted
                            vanish = not (value.strip() == "" and kind in ("x-forwarded-for", "x-forwarded-host"))
                            right = (n - 1 - j) - (1 if (pos > j and vanish) else 0)
                            if right >= c:
                                taint += h_["marks"]
                        lines = [[P.NAME[kind], ", ".join(texts)]]
                        if kind != "forwarded" and len(T) > 1:
                            lines.append(["X-Forwarded-Proto", "https"])
                            if kind != "x-forwarded-host":
                                lines.append(["X-Forwarded-Host", "h9.example"])
                        conf = {"kinds": T, "count": c, "clear": clear, "trust": trust}
                        cfg, unix, addr = make_config(conf)
                        expect = {"status": want, "cls": cls, "taint": taint,
                                  "what": f"{P.NAME[kind]} element {value!r} at position {pos} of {n}, count {c}"}
                        yield ({"config": cfg, "unix": unix, "addr": addr, "request": b2s(render(lines)), "expect": expect},
                               f"{P.SHORT[kind]}|n{n}|p{pos}|c{c}|T{len(T)}|{want}")


def whole_cases(kind, values, cls, want, variants):
    """the header value as a whole (X-Forwarded-Proto / -Port / -By)"""
    from vf.gen import proxyvals as P

    tsets = [[kind], list(P.XKINDS)] if kind != "forwarded" else [[kind]]
    for T in tsets[: 1 + (variants > 0)]:
        for c in (1, 2, 3, 4):
            for comp in range(4):
                lines = [[P.NAME[kind], v] for v in values]
                if comp >= 1 and len(T) > 1:
                    lines.insert(0, ["X-Forwarded-For", "198.51.100.10, 198.51.100.11"])
                    # (comp 3: the forwarded hosts carry ports of their own, which take precedence over
                    # X-Forwarded-Port -- the malformed header is malformed all the same)
                    lines.append(["X-Forwarded-Host", "h0.example, h1.example" if comp < 3 else "h0.example:8080, h1.example:8081"])
                elif comp >= 1:
                    continue
                if comp == 2:
                    lines.append(["X-Forwarded-Port" if kind != "x-forwarded-port" else "X-Forwarded-Proto",
                                  "8443" if kind != "x-forwarded-port" else "https"])
                conf = {"kinds": T, "count": c, "clear": c % 2 == 1, "trust": "addr"}
                cfg, unix, addr = make_config(conf)
                expect = {"status": want, "cls": cls, "what": f"{P.NAME[kind]}: {values!r}, count {c}"}
                yield ({"config": cfg, "unix": unix, "addr": addr, "request": b2s(render(lines)), "expect": expect},
                       f"{P.SHORT[kind]}|whole|c{c}|T{len(T)}|comp{comp}|{want}")


def run_malformed(acc, spec):
    from vf.gen import proxyvals as P

    k = 0
    for idx, (cls, kind, scope, value) in enumerate(P.MALFORMED):
        if idx % spec["parts"] != spec["part"]:
            continue
        if scope == "elem":
            rule = "selected" if cls in ("bad-scheme", "empty-host") else "suffix"
            gen = positioned_cases(kind, value, cls, rule, spec["variants"])
        elif scope == "whole":
            gen = whole_cases(kind, [value], cls, 400, spec["variants"])
        else:
            gen = whole_cases(kind, list(value), cls, 400, spec["variants"])
        for case, dkey in gen:
            if not P.legal_field_value(s2b(case["request"]).replace(b"\r\n", b"")):
                continue
            judge(acc, case)
            if case["expect"]["status"] == 400:
                acc.count("malformed:" + cls)
            else:
                acc.count("unclassified")
                acc.count("unclassified:outside-selection")
            acc.distinct.add(f"malformed|{cls}|{idx}|{dkey}")
            k += 1
            if k == 5:
                acc.sample({"mode": "malformed", "class": cls, "config": case["config"], "request": case["request"]}, limit=1)


def run_degenerate(acc, spec):
    from vf.gen import proxyvals as P

    idx = 0
    for kind in P.KINDS:
        for value in P.DEGENERATE[kind]:
            idx += 1
            if idx % spec["parts"] != spec["part"]:
                continue
            gens = []
            if kind in ("x-forwarded-for", "x-forwarded-host", "forwarded"):
                gens.append(positioned_cases(kind, value, "degenerate", "any", spec["variants"]))
            if kind in ("x-forwarded-proto", "x-forwarded-port", "x-forwarded-by"):
                gens.append(whole_cases(kind, [value], "degenerate", "any", spec["variants"]))
            else:
                # also as the whole value
                gens.append(whole_cases(kind, [value], "degenerate", "any", 0))
            for gen in gens:
                for case, dkey in gen:
                    if not P.legal_field_value(s2b(case["request"]).replace(b"\r\n", b"")):
                        continue
                    o = judge(acc, case)
                    acc.count("unclassified")
                    acc.count("unclassified:%s" % o.status)
                    if value in P.EMPTY_NAME_VARIANTS:
                        # candidates for the "empty host" class, see ASSUMPTIONS
                        acc.count("unclassified:empty-name-variant:%s" % o.status)
                    acc.distinct.add(f"degenerate|{kind}|{idx}|{dkey}")
    acc.sample({"mode": "degenerate", "catalogue": {k: len(v) for k, v in P.DEGENERATE.items()}}, limit=1)


# ------------------------------------------------------- neighbourhood mode

NB_VARIANTS = [
    # (trusted kinds: 'all' or 'single', clear, trust)
    ("all", True, "addr"),
    ("single", False, "addr"),
    ("all", False, "star"),
    ("single", True, "unix"),
]


def neighbourhood_case(kind, value_b, c, variant):
    from vf.gen import proxyvals as P

    tk, clear, trust = NB_VARIANTS[variant]
    if kind == "forwarded":
        T = ["forwarded"]
    else:
        T = list(P.XKINDS) if tk == "all" else [kind]
    lines = [[P.NAME[kind], value_b.decode("latin-1")]]
    if kind != "forwarded" and tk == "all":
        if kind != "x-forwarded-for":
            lines.append(["X-Forwarded-For", "198.51.100.20, 198.51.100.21:41077"])
        if kind != "x-forwarded-host":
            lines.append(["X-Forwarded-Host", "h8.example, h9.example"])
        if kind != "x-forwarded-proto":
            lines.append(["X-Forwarded-Proto", "https"])
    conf = {"kinds": T, "count": c, "clear": clear, "trust": trust}
    cfg, unix, addr = make_config(conf)
    return {"config": cfg, "unix": unix, "addr": addr, "request": b2s(render(lines)),
            "expect": {"status": "any", "cls": "neighbourhood", "what": f"{P.NAME[kind]}: {value_b!r}"}}


def run_neighbourhood(acc, spec):
    from vf.gen import proxyvals as P

    kind, value = P.NEIGHBOUR_BASES[spec["base"]]
    vb = value.encode("latin-1")
    k = 0
    for op, off, byte, mut in P.neighbourhood(vb):
        k += 1
        if k % spec["parts"] != spec["part"]:
            continue
        if not P.legal_field_value(mut):
            continue
        acc.count("neighbourhood-values")
        for variant in range(spec["variants"]):
            for c in (1, 2, 3, 4):
                case = neighbourhood_case(kind, mut, c, variant)
                o = judge(acc, case)
                acc.count("neighbourhood")
                acc.distinct.add(f"nb|{spec['base']}|{op}|{off}|{byte}|{o.status}")
    acc.sample({"mode": "neighbourhood", "base": value, "kind": kind, "mutants": k}, limit=1)


def run_probe(acc):
    """the crash monitor must see an exception raised inside the middleware
    and the 500 it causes"""
    from vf.gen import proxyvals as P
    import waitress.proxy_headers as ph

    conf = {"kinds": ["x-forwarded-for"], "count": 1, "clear": True, "trust": "addr"}
    cfg, unix, addr = make_config(conf)
    h = harness(cfg, unix)
    orig = ph.undquote

    def boom(value):
        raise KeyError("vf-probe")

    ph.undquote = boom
    try:
        # KeyError inside the X-Forwarded-For block is converted to 400 ...
        o1 = P.observe(h, render([["X-Forwarded-For", "198.51.100.10"]]), addr)
    finally:
        ph.undquote = orig
    orig_c = ph.clear_untrusted_headers

    def boom2(*a, **kw):
        raise KeyError("vf-probe")

    ph.clear_untrusted_headers = boom2
    try:
        # ... an exception outside the guarded blocks must surface as a crash
        o2 = P.observe(h, render([["X-Forwarded-For", "198.51.100.10"]]), addr)
    finally:
        ph.clear_untrusted_headers = orig_c
    acc.evaluations += 2
    acc.distinct.add("probe")
    if o1.status == 400 and o2.status == 500 and o2.crashes and o2.crashes[0]["type"] == "KeyError":
        acc.count("crash-monitor")
    else:
        acc.inconclusive.append(
            f"crash monitor probe: statuses {o1.status}/{o2.status}, crashes {o2.crashes} (expected 400/500 + KeyError)")


def run_shard(spec):
    acc = Acc()
    mode = spec["mode"]
    if mode == "hops":
        run_hops(acc, spec)
    elif mode == "malformed":
        run_malformed(acc, spec)
    elif mode == "degenerate":
        run_degenerate(acc, spec)
    elif mode == "neighbourhood":
        run_neighbourhood(acc, spec)
    elif mode == "probe":
        run_probe(acc)
    return acc.out()


def finish(agg, tier, coverage):
    from vf.gen import proxyvals as P

    coverage["exhaustive"] = False
    coverage["exhaustive_note"] = (
        "the single-byte neighbourhoods (every insert / replace / delete at every offset over the %d-byte alphabet) of the "
        "%d base header values are enumerated completely x trusted_proxy_count 1..4%s; the malformed and degenerate "
        "catalogues are placed at every position of lists of length 1..5 x count 1..4; hop lists, forms and untrusted "
        "kinds are sampled over the complete configuration product" % (
            len(P.ALPHABET), len(P.NEIGHBOUR_BASES),
            " x 4 configuration variants" if tier == "thorough" else " (all X-Forwarded-* trusted / forwarded, clearing on)")
    )


def replay(case):
    acc = Acc()
    judge(acc, case, count=False)
    return acc.violations
