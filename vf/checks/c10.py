"""C10 -- framing-critical tokens are accepted exactly per grammar.

Bounded-exhaustive differential run of every lexical gate *through its call
site* (HTTPRequestParser.received -> parse_header / ChunkedReceiver.received)
against hand-written recognisers (vf/ref/request.py, no `re`).
"""

import itertools
import random

from vf import core
from vf.core import Acc, b2s, s2b

ID = "C10"
LEVEL = "exploration"
RULE = (
    "for each gate (content-length, chunk-size+ext, header-line, request-line): every byte string of length <= 2 "
    "over all 256 bytes (<= 3 for the numeric gates in the thorough tier), every string up to the stated length over "
    "a per-gate class alphabet (one representative per byte class the grammars distinguish plus boundary "
    "neighbours), and pumped variants (one segment repeated to 10..10^5 bytes) of accepted short strings, placed in "
    "the token position of a real message and parsed by the real parser; accept/reject and the resulting value are "
    "compared with an independent recogniser. distinct = (gate, byte-class pattern of the string)"
)
ASSUMPTIONS = [
    "vf/ref/request.py recognisers implement 1*DIGIT, 1*HEXDIG, chunk-ext, field-line and request-line of RFC 9110/9112",
    "bounded-exhaustive + pumping, not an automata decision procedure (DESIGN.md 4 C10, 9)",
]

# ---- alphabets ------------------------------------------------------------
COMMON = b" \t\r\n\x0b\x0c\x00\x7f\x80\xff"
ALPHABETS = {
    "cl": b"059/:" + COMMON + b"+-_.xaAfF,;\xb2",
    "chunk": b"059/:@AFGafg`" + COMMON + b'+-_.x;="\\',
    "hline": b"aZ0:-_!(" + COMMON + b',;="',
    "tline": b"aZ0:-_!(" + COMMON + b',;="',
    "rline": b"GgT0/:.*HP1" + COMMON + b"?#%[",
}
MAXLEN = {
    "quick": {"cl": 4, "chunk": 4, "hline": 4, "rline": 4, "tline": 3},
    "thorough": {"cl": 5, "chunk": 5, "hline": 5, "rline": 5, "tline": 4},
}
ALLBYTES_LEN = {
    "quick": {"cl": 2, "chunk": 2, "hline": 2, "rline": 2, "tline": 2},
    "thorough": {"cl": 3, "chunk": 3, "hline": 2, "rline": 2, "tline": 2},
}
GATES = ["cl", "chunk", "hline", "rline", "tline"]  # tline: a field line in the trailer section of a chunked body

# prefixes / suffixes that put the enumerated string next to valid context
CONTEXTS = {
    "cl": [(b"", b""), (b"5", b""), (b"", b"5")],
    "chunk": [(b"", b""), (b"5", b""), (b"", b"5"), (b"5;a", b""), (b"5;a=", b""), (b'5;a="', b'"')],
    "hline": [(b"", b""), (b"X-A:", b""), (b"X-A", b": v"), (b"X-A: v", b"")],
    "tline": [(b"", b""), (b"X-A:", b""), (b"X-A", b": v"), (b"X-A: v", b""), (b"X-A: v\r\n", b""), (b"", b"\r\nX-B: w")],
    "rline": [(b"", b""), (b"GET / HTTP/1.1", b""), (b"", b"GET / HTTP/1.1"), (b"GET /", b" HTTP/1.1"), (b"GET ", b" HTTP/1.1"),
              (b"GET / HTTP/1.", b""), (b"GET / HTTP/", b".1"), (b"GET / HTTP/1", b"1"), (b"GET / HTTP", b"1.1"),
              (b"GET / ", b"/1.1"), (b"GET /", b"HTTP/1.1")],
}


def wrap(gate, s):
    if gate == "cl":
        return b"POST / HTTP/1.1\r\nContent-Length:" + s + b"\r\n\r\n"
    if gate == "chunk":
        return b"POST / HTTP/1.1\r\nTransfer-Encoding: chunked\r\n\r\n" + s + b"\r\n"
    if gate == "hline":
        return b"GET / HTTP/1.1\r\nHost: h\r\n" + s + b"\r\n\r\n"
    if gate == "rline":
        return s + b"\r\nHost: h\r\n\r\n"
    if gate == "tline":
        return b"POST / HTTP/1.1\r\nTransfer-Encoding: chunked\r\n\r\n1\r\nx\r\n0\r\n" + s + b"\r\n\r\n"
    raise ValueError(gate)


_adj = None


def adj():
    global _adj
    if _adj is None:
        core.use_waitress()
        from waitress.adjustments import Adjustments

        _adj = Adjustments(max_request_header_size=10**7, max_request_body_size=10**12)
    return _adj


def observe(data):
    """run the real parser; returns (kind, detail)"""
    from waitress.parser import HTTPRequestParser

    p = HTTPRequestParser(adj())
    try:
        # as HTTPChannel.received does: offer the rest until the message is
        # complete; an "empty" request (leading CRLFs) is followed by a new parser
        while data:
            n = p.received(data)
            data = data[n:]
            if p.completed:
                if p.empty and data:
                    p = HTTPRequestParser(adj())
                    continue
                break
            if n == 0:
                break
    except Exception as e:  # noqa
        import traceback

        tb = traceback.extract_tb(e.__traceback__)
        site = "?"
        for fr in tb:
            fn = fr.filename.rsplit("/", 1)[-1]
            if "/waitress/" in fr.filename:
                site = fn + ":" + fr.name
        return ("exception", type(e).__name__ + "@" + site, p)
    if p.error is not None:
        return ("refuse", p.error.code, p)
    if p.empty:
        return ("empty", None, p)
    if not p.headers_finished:
        return ("incomplete-head", None, p)
    return ("accept", None, p)


def class_of(b):
    if 0x30 <= b <= 0x39:
        return "d"
    if b in b"abcdefABCDEF":
        return "h"
    if 0x41 <= b <= 0x5A or 0x61 <= b <= 0x7A:
        return "a"
    if b in b"!#$%&'*+-.^_`|~":
        return "t"
    if b in b" \t":
        return "w"
    if b in b"\r\n":
        return "n"
    if b < 0x20 or b == 0x7F:
        return "c"
    if b >= 0x80:
        return "o"
    return chr(b)


def pattern(s):
    return "".join(class_of(b) for b in s[:12]) + ("+%d" % len(s) if len(s) > 12 else "")


def judge_case(gate, s, acc, label=""):
    from vf import oracle
    from vf.ref import request as rq

    data = wrap(gate, s)
    outs = rq.parse_stream(data, None, None, limit=1)
    o = outs[0] if outs else None
    kind, detail, p = observe(data)
    acc.evaluations += 1
    acc.distinct.add(gate + "|" + pattern(s))

    def bad(key, what):
        acc.violation(key, what, {"gate": gate, "s": b2s(s) if len(s) <= 400 else None,
                                  "pump": label if len(s) > 400 else "", "len": len(s)})

    if kind == "exception":
        bad("exception:" + detail, f"gate {gate}: parser raised {detail} on {s[:60]!r}")
        return
    if o is None:
        return
    if gate == "tline":
        # the head is fine by construction: the verdict is on the whole message
        if o.kind == "refuse":
            acc.count("expect-reject:" + gate)
            if p.error is None and p.completed:
                bad("accepts-nonmember:tline", f"trailer line(s) {s[:80]!r} accepted; reference: {o.reason}")
            elif p.error is not None and p.error.code not in o.statuses:
                bad("refusal-status:tline", f"status {p.error.code} not in {sorted(o.statuses)} for {s[:60]!r}")
            elif p.error is None:
                bad("accepts-nonmember:tline:waits", f"parser waits on trailer {s[:80]!r}; reference refuses: {o.reason}")
        elif o.kind == "deliver":
            acc.count("expect-accept:" + gate)
            if p.error is not None:
                if p.error.code not in o.may_refuse:
                    bad("rejects-member:tline", f"valid trailer {s[:80]!r} refused with {p.error.code}")
            elif not p.completed:
                bad("rejects-member:tline", f"parser still waits after a complete message with trailer {s[:80]!r}")
        else:
            acc.count("expect-incomplete:" + gate)
            if p.error is None and p.completed:
                bad("accepts-nonmember:tline", f"message with unfinished trailer {s[:80]!r} delivered")
        return
    if o.kind == "refuse":
        acc.count("expect-reject:" + gate)
        if kind == "accept":
            sub = gate
            if gate == "chunk" and s == b"":
                sub = "chunk-size-empty"
            bad("accepts-nonmember:" + sub, f"gate {gate} accepted {s[:80]!r} (len {len(s)}); reference: {o.reason}")
        elif kind == "refuse":
            if detail not in o.statuses:
                bad("refusal-status:" + gate, f"status {detail} not in {sorted(o.statuses)} for {s[:60]!r}")
        elif kind in ("incomplete-head", "empty"):
            # the reference refused at a complete unit; the parser still waits
            bad("accepts-nonmember:" + gate + ":waits", f"gate {gate}: parser waits on {s[:80]!r}; reference refuses: {o.reason}")
        return
    if o.kind == "incomplete" and o.head_end == 0:
        # head not complete for the reference either
        acc.count("expect-incomplete-head:" + gate)
        if kind == "accept":
            bad("accepts-nonmember:" + gate, f"gate {gate}: delivered on an incomplete head {s[:80]!r}")
        elif kind == "refuse" and detail not in o.may_refuse and not oracle.doomed(data):
            bad("rejects-member:" + gate, f"gate {gate}: refused ({detail}) a still-valid prefix {s[:80]!r}")
        return
    # head accepted by the reference (deliver, or body incomplete)
    acc.count("expect-accept:" + gate)
    if kind == "refuse":
        if detail in o.may_refuse:
            acc.count("grey-refused:" + gate)
            return
        bad("rejects-member:" + gate, f"gate {gate} rejected {s[:80]!r} (status {detail}); reference accepts")
        return
    if kind != "accept":
        bad("rejects-member:" + gate, f"gate {gate}: parser state {kind} on {s[:80]!r}; reference accepts")
        return
    # value comparison
    if gate == "cl":
        want = 0
        cl = [v for k, v in _head_fields(data) if k.lower() == b"content-length"]
        if cl:
            want = int(cl[0]) if (len(cl[0]) < 4000 and rq.is_digits(cl[0])) else None
        if want is not None and p.content_length != want:
            bad("value-mismatch:cl", f"content_length {p.content_length} != {want} for {s[:60]!r}")
    elif gate == "chunk":
        line = (s + b"\r\n").split(b"\r\n", 1)[0]
        if b"\r\n" not in s:
            size = rq.parse_chunk_line(line)
            br = p.body_rcv
            got = br.chunk_remainder if not br.all_chunks_received else 0
            if br.error is not None:
                bad("rejects-member:chunk", f"receiver error on {s[:60]!r}")
            elif size != got:
                bad("value-mismatch:chunk", f"chunk size {got} != {size} for {s[:60]!r}")
            elif (size == 0) != bool(br.all_chunks_received):
                bad("value-mismatch:chunk", f"last-chunk flag wrong for {s[:60]!r}")
    elif gate in ("hline", "rline"):
        if o.kind == "deliver" or o.head_end:
            # compare the parsed head
            ho = o if o.kind == "deliver" else None
            if ho is not None:
                img = rq.field_image(ho)
                got = dict(p.headers)
                if ho.framing == "chunked":
                    img.pop("CONTENT_LENGTH", None)
                    got.pop("CONTENT_LENGTH", None)
                if "empty-te" in ho.zones:
                    img.pop("TRANSFER_ENCODING", None)
                    got.pop("TRANSFER_ENCODING", None)
                if ho.fold:
                    img = {k: oracle.collapse_ws(v) for k, v in img.items()}
                    got = {k: oracle.collapse_ws(v) for k, v in got.items()}
                if ho.drop_cl:
                    img.pop("CONTENT_LENGTH", None)
                if (p.command != ho.method.decode("latin-1") or p.request_uri != ho.target.decode("latin-1")
                        or p.version != ho.version):
                    bad("value-mismatch:" + gate,
                        f"request line parsed as {p.command!r} {p.request_uri!r} {p.version!r}; reference {ho.method!r} {ho.target!r} {ho.version!r}")
                elif img != got:
                    bad("value-mismatch:" + gate, f"fields {got} != {img} for {s[:60]!r}")


def _head_fields(data):
    from vf.ref import request as rq

    term = data.find(b"\r\n\r\n")
    out = []
    for ln in data[:term].split(b"\r\n")[1:]:
        f = rq.parse_field_line(ln)
        if f:
            out.append(f)
    return out


# ---- workload ---------------------------------------------------------------


def plan(tier, seed):
    specs = []
    for gate in GATES:
        # all-bytes enumeration
        L = ALLBYTES_LEN[tier][gate]
        parts = 12 if L <= 2 else 96
        for part in range(parts):
            specs.append({"mode": "allbytes", "gate": gate, "L": L, "part": part, "parts": parts})
        # class alphabet enumeration, split by first symbols
        M = MAXLEN[tier][gate]
        n = len(ALPHABETS[gate])
        parts = 16 if tier == "quick" else 96
        for part in range(parts):
            specs.append({"mode": "classes", "gate": gate, "L": M, "part": part, "parts": parts})
        specs.append({"mode": "pump", "gate": gate, "seed": seed})
        specs.append({"mode": "random", "gate": gate, "seed": seed * 7919 + 13, "n": 20000 if tier == "quick" else 200000})
    return specs


def required_counters(tier):
    need = []
    for g in GATES:
        need += ["expect-accept:" + g, "expect-reject:" + g, "pumped:" + g]
    return need


def run_shard(spec):
    acc = Acc()
    gate = spec["gate"]
    mode = spec["mode"]
    if mode == "allbytes":
        L = spec["L"]
        i = 0
        for n in range(0, L + 1):
            for tup in itertools.product(range(256), repeat=n):
                i += 1
                if i % spec["parts"] != spec["part"]:
                    continue
                s = bytes(tup)
                for pre, suf in CONTEXTS[gate][:2] if n >= 3 else CONTEXTS[gate]:
                    judge_case(gate, pre + s + suf, acc)
        acc.count("allbytes:" + gate, acc.evaluations)
        acc.sample({"gate": gate, "mode": "allbytes", "maxlen": L, "cases": acc.evaluations})
    elif mode == "classes":
        alpha = ALPHABETS[gate]
        L = spec["L"]
        i = 0
        for n in range(0, L + 1):
            for tup in itertools.product(alpha, repeat=n):
                i += 1
                if i % spec["parts"] != spec["part"]:
                    continue
                judge_case(gate, bytes(tup), acc)
        acc.count("classes:" + gate, acc.evaluations)
        acc.sample({"gate": gate, "mode": "classes", "alphabet": b2s(alpha), "maxlen": L, "cases": acc.evaluations})
    elif mode == "pump":
        seeds = {
            "cl": [b"5", b"05", b"50", b" 5", b"5 ", b"5\t"],
            "chunk": [b"5", b"a", b"0", b"05", b"5;a", b"5;a=b", b'5;a="q"', b"0;a", b'5;a="\\q"', b"5;a;b"],
            "hline": [b"X-A: v", b"X-A:v", b"X-A: a b", b"X: \xff", b"X-A:", b"X-A: v "],
            "tline": [b"X-A: v", b"X-A:v", b"X: \xff", b"X-A: v\r\nX-B: w"],
            "rline": [b"GET / HTTP/1.1", b"GET /a HTTP/1.0", b"X /a", b"GET /a?b HTTP/1.1", b"OPTIONS * HTTP/1.1"],
        }[gate]
        for base in seeds:
            for i in range(len(base)):
                for j in range(i + 1, min(len(base), i + 3) + 1):
                    seg = base[i:j]
                    for k in (10, 100, 1000, 10000, 100000):
                        reps = max(2, k // len(seg))
                        s = base[:i] + seg * reps + base[j:]
                        judge_case(gate, s, acc, label=f"{b2s(base)}|{i}:{j}|x{reps}")
                        acc.count("pumped:" + gate)
        # the letter case of every single letter, and of the whole string (keywords such as HTTP, chunk extension
        # names and field names differ in what case they admit)
        for base in seeds:
            variants = {base.lower(), base.upper(), base.swapcase()}
            for i in range(len(base)):
                if base[i:i + 1].isalpha():
                    variants.add(base[:i] + base[i:i + 1].swapcase() + base[i + 1:])
            variants.discard(base)
            for v in sorted(variants):
                judge_case(gate, v, acc, label=f"{b2s(base)}|case")
                acc.count("caseflips:" + gate)
        acc.sample({"gate": gate, "mode": "pump", "seeds": [b2s(x) for x in seeds]})
    elif mode == "random":
        rng = random.Random(spec["seed"])
        alpha = ALPHABETS[gate]
        for _ in range(spec["n"]):
            n = rng.randint(5, 14)
            s = bytes(rng.choice(alpha) for _ in range(n))
            pre, suf = rng.choice(CONTEXTS[gate])
            judge_case(gate, pre + s + suf, acc)
        acc.count("random:" + gate, spec["n"])
    return acc.out()


def finish(agg, tier, coverage):
    coverage["exhaustive"] = True
    coverage["exhaustive_note"] = (
        "complete enumeration per gate of all byte strings up to length "
        + str(ALLBYTES_LEN[tier]) + " over 256 bytes and up to length " + str(MAXLEN[tier])
        + " over the class alphabets; pumping and random strings beyond are sampled"
    )


def replay(case):
    acc = Acc()
    if case.get("s") is None:
        base, rng, reps = case["pump"].rsplit("|", 2)
        i, j = map(int, rng.split(":"))
        base = s2b(base)
        s = base[:i] + base[i:j] * int(reps[1:]) + base[j:]
    else:
        s = s2b(case["s"])
    judge_case(case["gate"], s, acc)
    return acc.violations


def explain(case):
    from vf.ref import request as rq

    if case.get("s") is None:
        return
    data = wrap(case["gate"], s2b(case["s"]))
    for o in rq.parse_stream(data, None, None, limit=1):
        print("   EXPECT", o.brief())
    k, d, p = observe(data)
    print("   OBSERVED", k, d, getattr(p, "headers", None))
