"""C11 -- nothing is executed after the server has decided to close a connection."""

import errno
import random

from vf import core
from vf.core import Acc

ID = "C11"
LEVEL = "exploration"
RULE = (
    "one connection whose stream contains a closing message M -- refused (malformed / oversize), Connection: close, "
    "HTTP/1.0 without keep-alive, response that cannot be delimited (too few bytes, no length on 1.0/1.1), application "
    "failure before/after output, Transfer-Encoding on HTTP/1.0 keep-alive, declared length without any byte, client fault "
    "surfacing in the worker's flush (injected send errno), in the I/O thread's recv() while the only worker is busy with "
    "another connection, or while the 100 Continue is written (by the I/O thread, or by the worker at the end of the request "
    "in front), TCP urgent data while a response is pending -- followed by "
    "{one complete request, two requests, a partial request, garbage}, arriving {in the same segment, in the next "
    "segment, after M's response started, after a delay}; lookahead {0,1,2,5}; 1-2 workers; select/poll. Schedules: "
    "complete single-pre-emption neighbourhoods (the GHSA-9298-4cf8-g4wj window is one pre-emption between readable() "
    "and received()), targeted two-pre-emption shapes (inside received(); service window; stale readable() without "
    "look-ahead, per bytecode), one chained three-pre-emption shape (body sent / I/O thread waits for requests_lock while the "
    "worker's 100 Continue fails / worker runs before the I/O thread closes), random walk, PCT. Oracle: no application invocation for anything after M. distinct = trace hash"
)
ASSUMPTIONS = [
    "which message is closing is known from the scenario (reference semantics of vf/sim/scenario.closes_connection and the injected fault)",
    "for every fault kind (failing send() in the worker's or the I/O thread's flush, failing recv(), unwritable 100 Continue) the decision point is the step at which a closing "
    "flag is set or `connected` is cleared, and a request starts when a worker enters service() for it (a worker that had already passed "
    "the channel's connected test goes on legitimately)",
]
SHARD_TIMEOUT = {"quick": 600, "thorough": 3000}

KINDS = ["urgent", "conn-close", "http10", "http10-te", "refused-400", "refused-431", "short", "short0", "nocl", "raise0", "raise1", "send-fault",
         "recv-fault", "continue-send-fault", "refused-400-head", "raise0-head", "te-plus-empty-cl", "refused-proxy-400"]
FOLLOW = ["one", "two", "partial", "garbage"]
ARRIVAL = ["same", "next", "after-response", "delay", "during-execution"]


def required_counters(tier):
    need = ["runs:forced", "runs:forced2", "runs:random", "runs:pct",
            "data-arrived-between-decision-and-readable", "received-returned-early-because-closing",
            "queued-requests-discarded", "followup-never-executed"]
    need += ["kind:" + k for k in KINDS]
    need += ["follow:" + f for f in FOLLOW]
    need += ["arrival:" + a for a in ARRIVAL]
    return need


def build(kind, follow, arrival, lookahead, threads, poll, pre, sndbuf=4096):
    """-> scenario dict; the closing message has index len(pre)"""
    reqs = [dict(r) for r in pre]
    m_index = len(reqs)
    adj = {"threads": threads, "channel_request_lookahead": lookahead, "asyncore_use_poll": poll, "send_bytes": 1}
    faults = {}
    M = {"n": 600, "k": "cl"}
    if kind == "conn-close":
        M["close"] = True
    elif kind == "http10":
        M["v"] = "1.0"
    elif kind == "refused-400":
        M = {"raw": "POST /bad HTTP/1.1\r\nHost: h\r\nContent-Length: x\r\n\r\n"}
    elif kind == "refused-400-head":
        # the refused message is a HEAD (its error response has no body)
        M = {"raw": "HEAD /bad HTTP/1.1\r\nHost: h\r\nContent-Length: x\r\n\r\n"}
    elif kind == "raise0-head":
        M = {"m": "HEAD", "n": 600, "k": "raise0", "w": 100}
    elif kind == "te-plus-empty-cl":
        # Transfer-Encoding together with a Content-Length field (here an empty one): processed or
        # refused, the connection ends after this message
        M = {"raw": "POST /r?c=0&i=%d&n=600&k=cl&w=0 HTTP/1.1\r\nHost: h\r\nTransfer-Encoding: chunked\r\nContent-Length:\r\n\r\n"
                    "3\r\nabc\r\n0\r\n\r\n" % m_index, "refused": True}
    elif kind == "refused-proxy-400":
        # refused by the proxy-headers middleware (the peer is the trusted proxy, the header is malformed)
        adj["trusted_proxy"] = "127.0.0.1"
        adj["trusted_proxy_headers"] = "x-forwarded-proto"
        M = {"raw": "GET /r?c=0&i=%d&n=600&k=cl&w=0 HTTP/1.1\r\nHost: h\r\nX-Forwarded-Proto: http, https\r\n\r\n" % m_index, "refused": True}
    elif kind == "refused-431":
        adj["max_request_header_size"] = 200
        M = {"raw": "GET /big HTTP/1.1\r\nHost: h\r\nX-Pad: " + "p" * 220 + "\r\n\r\n"}
    elif kind == "http10-te":
        # Transfer-Encoding on a non-1.1 request: whatever is done with the message itself, the
        # connection must be closed after it (RFC 9112 6.1), keep-alive or not
        ver = (" HTTP/1.0", " HTTP/1.2", " HTTP/0.9", " HTTP/2.0", "")[(m_index + lookahead + threads + int(poll)) % 5]
        M = {"raw": "POST /r?c=0&i=%d&n=600&k=cl&w=0%s\r\nHost: h\r\nConnection: keep-alive\r\n"
                    "Transfer-Encoding: chunked\r\n\r\n" % (m_index, ver), "refused": True}
    elif kind in ("short", "short0", "nocl", "raise0", "raise1"):
        M = {"n": 600, "k": kind, "w": 100}
    elif kind == "send-fault":
        # a non-disconnect errno in the worker's flush: the channel decides to
        # close (will_close) while the request is still executing
        M = {"n": 3000, "k": "write", "w": 500}
        faults["0:send:%d" % (2 + len(pre))] = errno.ETIMEDOUT
    elif kind == "continue-send-fault":
        # the 100 Continue for M cannot be written (non-disconnect errno) while M's body is already
        # there (same read): the connection is given up before M is complete
        M = {"m": "POST", "body": 40, "expect": True, "n": 600, "k": "cl"}
        faults["0:send:%d" % (1 if pre else 0)] = errno.ETIMEDOUT
    elif kind == "recv-fault":
        return build_recv_fault(follow, lookahead, threads, poll, sndbuf)
    elif kind == "urgent":
        return build_urgent(follow, lookahead, threads, poll)
    reqs.append(M)
    after = []
    if follow == "one":
        after = [{"n": 10, "k": "cl"}]
    elif follow == "two":
        after = [{"n": 10, "k": "cl"}, {"n": 20, "k": "cl"}]
    elif follow == "partial":
        after = [{"raw": "GET /r?c=0&i=%d&n=5&k=cl&w=0 HTTP/1.1\r\nHost: h\r\nX-Par" % (m_index + 1), "refused": False}]
    elif follow == "garbage":
        after = [{"raw": "\x00\xff garbage \r\n\r\nGET /r?c=0&i=%d&n=5&k=cl&w=0 HTTP/1.1\r\n\r\n" % (m_index + 2), "refused": True}]
    reqs += after
    from vf.sim import scenario as SC

    head_len = sum(len(b"".join(SC.request_bytes(0, i, r))) for i, r in enumerate(reqs[: m_index + 1]))
    c = {"requests": reqs, "sndbuf": sndbuf}
    if arrival == "next":
        c["plan"] = [[head_len, "yield", 3]]
    elif arrival == "after-response":
        c["plan"] = [[head_len, "recv", 20 + 150 * len(pre)]]
    elif arrival == "delay":
        c["plan"] = [[head_len, "sleep", 2.0]]
    elif arrival == "during-execution":
        # M's application blocks until the follow-up bytes are on their way: they are
        # received and parsed while M executes (needs lookahead >= 1 to be read at all)
        if "raw" not in M:
            M["gate"] = True
        total = sum(len(b"".join(SC.request_bytes(0, i, r))) for i, r in enumerate(reqs))
        head_len = sum(len(b"".join(SC.request_bytes(0, i, r))) for i, r in enumerate(reqs[: m_index + 1]))
        c["plan"] = [[head_len, "app-waiting" if "raw" not in M else "yield", 1], [total, "gate", 0]]
    if kind == "continue-send-fault" and pre and arrival == "body-after-response":
        # the body of the expecting request M is sent when the response in front of it has arrived: about when
        # the worker, at the end of that request, writes M's 100 Continue (which fails)
        before_body = sum(len(b"".join(SC.request_bytes(0, i, r))) for i, r in enumerate(reqs[:m_index])) + len(SC.request_bytes(0, m_index, M)[0])
        c["plan"] = [[before_body, "recv", 140 + sum(p_["n"] for p_ in pre)]]
        # (the response in front goes out in two sends, head and body; the third is the 100 Continue)
        faults.clear()
        faults["0:send:2"] = errno.ETIMEDOUT
    scn = {"adj": adj, "sndbuf": sndbuf, "conns": [c], "faults": faults, "m_index": m_index, "kind": kind}
    return scn


def build_recv_fault(follow, lookahead, threads, poll, sndbuf):
    """The only worker is occupied by another connection (gated request); the judged connection's
    first request B is complete and queued; then a recv() on it fails with a non-disconnect errno:
    the connection is given up while B has not started.  Nothing of it may be executed afterwards."""
    from vf.sim import scenario as SC

    adj = {"threads": 1, "channel_request_lookahead": max(1, lookahead), "asyncore_use_poll": poll, "send_bytes": 1}
    reqs = [{"n": 10, "k": "cl"}, {"n": 20, "k": "cl"}]
    if follow in ("partial", "garbage"):
        reqs[1] = {"raw": "GET /r?c=0&i=1&n=5&k=cl&w=0 HTTP/1.1\r\nHost: h\r\nX-Par", "refused": False}
    l0 = len(b"".join(SC.request_bytes(0, 0, reqs[0])))
    total = sum(len(b"".join(SC.request_bytes(0, i, r))) for i, r in enumerate(reqs))
    judged = {"requests": reqs, "sndbuf": sndbuf,
              "plan": [[0, "any-app-waiting", 0], [l0, "sleep", 0.05], [l0, "open-all-gates", 0], [total, "yield", 1]]}
    blocker = {"requests": [{"n": 30, "k": "cl", "gate": True}], "sndbuf": sndbuf, "delay": 0.01}
    # the judged client waits until the blocker occupies the worker, sends B, lets the server queue it,
    # then releases the blocker and sends on at once: the failing second recv and the worker's
    # next steps (finish the blocker, start B) race
    return {"adj": adj, "sndbuf": sndbuf, "conns": [judged, blocker], "faults": {"0:recv:1": errno.ETIMEDOUT},
            "m_index": -1, "kind": "recv-fault"}


def build_urgent(follow, lookahead, threads, poll):
    """The client does not read: the first response stays pending.  While the second request executes (gated)
    the client sends a byte of TCP urgent data, upon which the server gives the connection up.  Whatever of
    this connection starts after that is late."""
    from vf.sim import scenario as SC

    adj = {"threads": threads, "channel_request_lookahead": lookahead, "asyncore_use_poll": poll, "send_bytes": 1}
    reqs = [{"n": 5000, "k": "cl"}, {"n": 30, "k": "cl", "gate": True}, {"n": 10, "k": "cl"}]
    if follow == "two":
        reqs.append({"n": 20, "k": "cl"})
    total = sum(len(b"".join(SC.request_bytes(0, i, r))) for i, r in enumerate(reqs))
    c = {"requests": reqs, "sndbuf": 512, "plan": [[total, "app-waiting", 1], [total, "oob", 0], [total, "yield", 40], [total, "gate", 0]]}
    return {"adj": adj, "sndbuf": 512, "conns": [c], "faults": {}, "m_index": 1, "kind": "urgent"}


def stale_readable_scenario(kind):
    """No look-ahead.  The closing request M of connection 0 is a long poll released by a request of
    connection 1 (second worker); M's follow-up requests are already waiting, unread, in the socket.  While
    connection 1 is served the I/O thread makes passes -- evaluating readable() of connection 0 term by term,
    without a lock -- during which M's worker becomes runnable, takes the close decision and flushes."""
    from vf.sim import scenario as SC

    M = {"n": 600, "k": "cl", "gate": "peer"}
    if kind == "conn-close":
        M["close"] = True
    else:
        M["k"], M["w"] = kind, 100
    reqs = [M, {"n": 10, "k": "cl"}, {"n": 20, "k": "cl"}]
    head_len = len(b"".join(SC.request_bytes(0, 0, M)))
    c0 = {"requests": reqs, "sndbuf": 8192, "plan": [[head_len, "app-waiting", 1]]}
    c1 = {"requests": [{"n": 5, "k": "cl"}, {"n": 6, "k": "cl"}], "sndbuf": 8192, "delay": 0.01, "plan": [[0, "any-app-waiting", 0], [0, "yield", 40]]}
    return {"adj": {"threads": 2, "channel_request_lookahead": 0, "asyncore_use_poll": False, "send_bytes": 1}, "sndbuf": 8192,
            "conns": [c0, c1], "faults": {}, "m_index": 0, "kind": kind, "follow": "two", "arrival": "during-execution"}


def gen_scenario(rng):
    kind = rng.choice(KINDS)
    follow = rng.choice(FOLLOW)
    arrival = rng.choice(ARRIVAL)
    lookahead = rng.choice([0, 1, 2, 5])
    pre = []
    for _ in range(rng.choice([0, 0, 1, 2])):
        pre.append({"n": rng.choice([5, 300, 5000]), "k": rng.choice(["cl", "write", "gen"]), "w": 512})
    if kind in ("send-fault", "continue-send-fault") and len(pre) > 1:
        pre = pre[:1]
    if kind == "continue-send-fault":
        pre = []
        if arrival not in ("same", "next"):
            arrival = "same"
    scn = build(kind, follow, arrival, lookahead, rng.choice([1, 1, 2]), rng.random() < 0.4, pre,
                sndbuf=rng.choice([512, 4096]))
    if kind == "send-fault":
        # place the fault on a later send as well; half of the time the peer is gone for good (every
        # later send fails too)
        e = rng.choice([errno.ETIMEDOUT, errno.EINVAL, errno.ENOBUFS])
        scn["faults"] = {"0:send:%d" % rng.randrange(1 + len(pre), 5 + len(pre)): e if rng.random() < 0.5 else "DEAD:%d" % errno.ETIMEDOUT}
    if rng.random() < 0.2:
        scn["adj"]["log_socket_errors"] = False
    scn["follow"] = follow
    scn["arrival"] = arrival
    return scn


def directed():
    out = []
    for kind in ("conn-close", "refused-400", "raise0", "short", "send-fault", "short0", "http10-te", "continue-send-fault", "recv-fault"):
        for la in (0, 2):
            s = build(kind, "two", "next", la, 1, False, [{"n": 50, "k": "cl"}], sndbuf=512)
            s["follow"], s["arrival"] = "two", "next"
            out.append(s)
    for la in (1, 2):
        s = build("continue-send-fault", "one", "body-after-response", la, 1, False, [{"n": 50, "k": "cl"}], sndbuf=4096)
        s["follow"], s["arrival"] = "one", "body-after-response"
        out.append(s)
    for la in (0, 2):
        s = build("urgent", "two", "same", la, 1, False, [])
        s["follow"], s["arrival"] = "two", "same"
        out.append(s)
    # the peer of a worker-side flush is gone for good (every later send fails as well)
    for la in (0, 2):
        s = build("send-fault", "two", "next", la, 1, False, [{"n": 50, "k": "cl"}], sndbuf=512)
        s["faults"] = {k: "DEAD:%d" % errno.ETIMEDOUT for k in s["faults"]}
        s["follow"], s["arrival"] = "two", "next"
        out.append(s)
    for kind in ("conn-close", "short", "raise0", "http10"):
        for la in (1, 2):
            s = build(kind, "two", "during-execution", la, 1, la == 2, [], sndbuf=4096)
            s["follow"], s["arrival"] = "two", "during-execution"
            out.append(s)
    # the follow-up is read in many small pieces while the closing request executes: the I/O
    # thread is in the middle of recv()/received() cycles when the decision is taken
    for kind in ("conn-close", "raise0"):
        for la in (1, 2):
            s = build(kind, "one", "during-execution", la, 1, False, [], sndbuf=4096)
            s["adj"]["recv_bytes"] = 24
            s["follow"], s["arrival"] = "one", "during-execution"
            s["small_reads"] = True
            out.append(s)
    return out


def plan(tier, seed):
    specs = []
    nshards = 24 if tier == "quick" else 64
    per = 140 if tier == "quick" else 2500
    for i in range(nshards):
        specs.append({"mode": "random", "seed": seed * 1021 + i, "n": per})
    ds = directed()
    if tier == "quick":
        ds = [ds[i] for i in (0, 1, 3, 5, 9, 11, 13, 15, 17, 18, 19, 20, 21, 22, 23, 24, 25, 26, 29)]
    parts = 4
    for scn in ds:
        for p in range(parts):
            specs.append({"mode": "enum", "scn": scn, "part": p, "parts": parts, "cap": 450 if tier == "quick" else None})
    d2 = [d for d in directed() if d.get("arrival") == "during-execution" and not d.get("small_reads")]
    if tier == "quick":
        d2 = d2[:2]
    for scn in d2:
        for p in range(8):
            specs.append({"mode": "enum2", "scn": scn, "part": p, "parts": 8, "window": 40 if tier == "quick" else 120})
    d0 = [stale_readable_scenario(k) for k in ("conn-close", "raise0", "short")]
    for kind in ():
        # no look-ahead, and a send buffer that takes the whole closing response (nothing left pending)
        # ... and the follow-up requests arrive while the closing one executes: they wait, unread, in the socket
        s0 = build(kind, "two", "during-execution", 0, 1, False, [], sndbuf=8192)
        s0["follow"], s0["arrival"] = "two", "during-execution"
        d0.append(s0)
    for scn in (d0[:1] if tier == "quick" else d0):
        for p in range(8):
            specs.append({"mode": "enum2", "shape": "stale-readable", "scn": scn, "part": p, "parts": 8, "window": 40 if tier == "quick" else 80})
    # three chained pre-emptions around the worker's failing 100 Continue
    d4 = [d for d in directed() if d.get("arrival") == "body-after-response"]
    for scn in (d4[:1] if tier == "quick" else d4):
        for p in range(4):
            specs.append({"mode": "enum2", "shape": "lock-window-3", "scn": scn, "part": p, "parts": 4})
    d3 = [d for d in directed() if d.get("small_reads")]
    if tier == "quick":
        d3 = d3[:2]
    for scn in d3:
        for p in range(8):
            specs.append({"mode": "enum2", "scn": scn, "part": p, "parts": 8, "window": 30 if tier == "quick" else 80})
            specs.append({"mode": "enum2", "shape": "service-window", "scn": scn, "part": p, "parts": 8,
                          "window": 60 if tier == "quick" else 150})
    return specs


_probe = False


def install_probe():
    """label-only observations: when the close decision is taken and whether
    received() bailed out because of it (data descriptors on the flags are
    installed from the harness; no source edit)"""
    global _probe
    if _probe:
        return
    from vf.sim import shim
    import waitress.channel as ch

    orig_received = ch.HTTPChannel.received
    orig_service = ch.HTTPChannel.service

    def received(self, data):
        w = shim.W()
        closing_before = self.will_close or self.close_when_flushed
        r = orig_received(self, data)
        if w is not None and data and r is False:
            w.count("received-returned-early-because-closing")
        if w is not None and data and closing_before:
            w.count("data-arrived-between-decision-and-readable")
        return r

    def service(self):
        w = shim.W()
        nreq = len(self.requests)
        conn = getattr(getattr(self, "socket", None), "conn", None)
        if w is not None:
            # the step at which a worker commits to the next request of this channel
            w.__dict__.setdefault("c11_service_starts", {}).setdefault(getattr(conn, "cid", id(self)), []).append(w.sched.steps)
            me = w.sched.me()
            w.__dict__.setdefault("c11_service_threads", {}).setdefault(getattr(conn, "cid", id(self)), []).append(
                (w.sched.steps, getattr(me, "tid", None)))
            if conn is not None:
                w.__dict__.setdefault("c11_chan_cid", {})[id(self)] = conn.cid
        r = orig_service(self)
        if w is not None and (self.close_when_flushed or self.will_close) and nreq > 1 and not self.requests:
            w.count("queued-requests-discarded")
        return r

    class Flag:
        """data descriptor on a channel flag: remembers the step at which the flag first takes the
        value that means 'this connection is given up' (observation only)"""

        def __init__(self, name, default, closing_value):
            self.name, self.default, self.closing = "_vf_" + name, default, closing_value

        def __get__(self, obj, typ=None):
            if obj is None:
                return self.default
            return obj.__dict__.get(self.name, self.default)

        def __set__(self, obj, val):
            obj.__dict__[self.name] = val
            if val == self.closing:
                w = shim.W()
                conn = getattr(getattr(obj, "socket", None), "conn", None)
                if w is not None and conn is not None:
                    w.__dict__.setdefault("c11_decision", {}).setdefault(conn.cid, w.sched.steps)

    ch.HTTPChannel.received = received
    ch.HTTPChannel.service = service
    ch.HTTPChannel.will_close = Flag("will_close", False, True)
    ch.HTTPChannel.close_when_flushed = Flag("close_when_flushed", False, True)
    ch.HTTPChannel.connected = Flag("connected", False, False)
    _probe = True


def judge(scn, o):
    out = []
    if o.failed:
        return [("harness:" + o.failed, "run did not finish: " + o.failed)]
    w = o.world
    m = scn["m_index"]
    kind = scn["kind"]
    res = o.results[0]
    cid = res.get("cid", 0)
    entered = [(step, idx) for step, c, idx, what in o.log.events if what == "enter" and c == cid]
    idxs = [i for _, i in entered]
    late = [i for i in idxs if i > m]
    if kind == "send-fault":
        # the decision is taken when the injected errno surfaces; only what
        # *starts* after that is judged
        if getattr(w, "fault_step", None) is None:
            return out  # fault never reached (e.g. everything fitted before it)
        # the failing send() may be the I/O thread's (both threads flush): the decision is taken when
        # will_close is set, which a schedule can delay well beyond the failing call
        fstep = getattr(w, "c11_decision", {}).get(cid)
        if fstep is None:
            if not any(isinstance(v, str) and v.startswith("DEAD:") for v in (scn.get("faults") or {}).values()):
                return out
            # the peer is gone for good (every send fails) and the server never gave the connection
            # up: whatever of it starts after the first failure is late
            fstep = w.fault_step
        starts = sorted(getattr(w, "c11_service_starts", {}).get(cid, []))
        late = []
        for step, i in entered:
            began = max([x for x in starts if x <= step], default=None)
            if began is not None and began > fstep and i > m:
                late.append(i)
        # the thread that met the error itself: whatever it does next comes after the error in its own
        # program order (no schedule can excuse it) -- it must not go on to start a later request of this
        # connection
        ftid, frole = getattr(w, "fault_thread", (None, None))
        if frole == "worker":
            for step, tid in getattr(w, "c11_service_threads", {}).get(cid, []):
                if tid == ftid and step > w.fault_step:
                    for estep, i in entered:
                        if i > m and estep > step and i not in late:
                            began = max([x for x in starts if x <= estep], default=None)
                            if began == step:
                                late.append(i)
        if not [1 for step, i in entered if i == m]:
            return out
    if kind == "urgent":
        w.fault_step = getattr(w, "c11_decision", {}).get(cid)
    if kind in ("recv-fault", "continue-send-fault", "urgent"):
        # a client fault on the I/O thread: whatever of this connection STARTS after the server has
        # given the connection up (a closing flag set / connected cleared -- not the failing call
        # itself, a few steps earlier) is late, the message that was being received included
        if getattr(w, "fault_step", None) is None:
            return out
        fstep = getattr(w, "c11_decision", {}).get(cid)
        if fstep is None:
            return out
        # a request "starts" when a worker enters service() for it (where the server tests the
        # connection), not when the application's first line runs: a worker that had passed that test
        # before the decision legitimately goes on (the client may vanish at any time)
        starts = sorted(getattr(w, "c11_service_starts", {}).get(cid, []))
        late = []
        for step, i in entered:
            began = max([x for x in starts if x <= step], default=None)
            if began is not None and began > fstep and i >= max(m, 0):
                late.append(i)
    if late:
        out.append(("executed-after-close:" + kind,
                    f"requests {late} executed after the closing message {m} ({kind}); executions {idxs}"))
    for t in w.sched.threads:
        if t.exc is not None and t.role in ("worker", "io"):
            out.append(("thread-died:" + t.role, f"{t.name} raised {t.exc!r}"))
    return out


def fault_step_setup(w, results, log):
    orig = w.note_fault

    def note_fault(conn, op, n, f):
        if getattr(w, "fault_step", None) is None:
            w.fault_step = w.sched.steps
            me = w.sched.me()
            w.fault_thread = (getattr(me, "tid", None), getattr(me, "role", None))
        return orig(conn, op, n, f)

    w.note_fault = note_fault


def run_one(acc, scn, strat, label):
    from vf.sim import runner

    setup = fault_step_setup

    o = runner.run_scenario(scn, strat, trace=False, wall_timeout=120, setup=setup)
    try:
        vs = judge(scn, o)
        acc.evaluations += 1
        acc.count("runs:" + label)
        acc.count("end:" + str(o.reason))
        acc.count("kind:" + scn["kind"])
        acc.count("follow:" + scn.get("follow", "?"))
        acc.count("arrival:" + scn.get("arrival", "?"))
        acc.distinct.add("%08x" % (o.trace_hash & 0xFFFFFFFF))
        for k in ("data-arrived-between-decision-and-readable", "received-returned-early-because-closing", "queued-requests-discarded"):
            if o.counters.get(k):
                acc.count(k)
        if not vs:
            acc.count("followup-never-executed")
        for key, what in vs:
            if key.startswith("harness:"):
                acc.inconclusive.append(f"{key}: {what} [{strat}]")
                continue
            acc.violation(key, what, {"scn": scn, "strat": strat})
        return o, vs
    finally:
        leaked = runner.finish(o)
        if leaked:
            acc.count("leaked_threads", leaked)


def run_shard(spec):
    from vf.sim import runner

    install_probe()
    acc = Acc()
    if spec["mode"] == "random":
        rng = random.Random(spec["seed"])
        for n in range(spec["n"]):
            scn = gen_scenario(rng)
            if rng.random() < 0.65:
                strat = {"kind": "random", "seed": rng.randrange(1 << 30), "p": rng.choice([0.005, 0.02, 0.1, 0.3])}
                label = "random"
            else:
                strat = {"kind": "pct", "seed": rng.randrange(1 << 30), "d": 3, "len": rng.choice([1500, 4000])}
                label = "pct"
            o, vs = run_one(acc, scn, strat, label)
            if len(acc.samples) < 1:
                acc.sample({"scenario": scn, "strategy": strat, "end": o.reason})
    elif spec["mode"] == "enum2":
        scn = spec["scn"]
        k = 0
        if spec.get("shape") == "service-window":
            # first pre-emption: the I/O thread has just read data (between recv() and the end of
            # received()) and the worker takes over; second pre-emption: inside the worker's
            # service() (around its close decision), back to the I/O thread
            def first(site, cur):
                return isinstance(site, tuple) and site[0] in ("recv", "handle_read", "received", "sock")

            def second(site):
                return isinstance(site, tuple) and (site[0] == "service" or site[0] in ("lock", "unlock"))

            gen = runner.double_preemptions(scn, first, window=spec.get("window", 60), second="target", second_filter=second)
        elif spec.get("shape") == "lock-window-3":
            # three pre-emptions (DESIGN.md 7): (1) the worker has sent the response in front of the expecting
            # request M; the client, which has seen it, sends M's body.  (2) The worker is about to write M's
            # 100 Continue at the end of service() -- holding requests_lock; the write will fail -- when the I/O
            # thread reads the body and waits for that lock.  (3) The I/O thread has queued what it read; the
            # worker runs before the I/O thread gets to close the connection.
            def tup(names):
                return lambda site: isinstance(site, tuple) and site[0] in names

            stages = [
                {"site": tup(("service", "finish", "close", "execute")), "from": "worker", "to": "actor", "limit": 6, "stride": 7},
                {"site": tup(("send_continue",)), "from": "worker", "to": "io", "limit": 8},
                {"site": lambda site: True, "from": "io", "to": "worker", "limit": 60},
            ]
            gen = runner.chained_preemptions(scn, stages, setup=fault_step_setup, prefer_role="worker")
        elif spec.get("shape") == "body-into-lock-window":
            # first pre-emption: the worker has sent the response in front of the expecting request and is on its
            # way to the end of service(); the client, which has seen that response, sends the body.  Second
            # pre-emption: the worker is inside the locked region at the end of service() (about to write the
            # 100 Continue, which fails) when the I/O thread reads the body and waits for the lock.
            def first(site, cur):
                return isinstance(site, tuple) and site[0] in ("service", "finish", "close", "execute", "write_soon", "_flush_some")

            def second(site):
                return isinstance(site, tuple) and site[0] in ("service", "send_continue", "lock", "unlock")

            gen = runner.double_preemptions(scn, first, window=spec.get("window", 40), second="preempted", second_filter=second,
                                            first_roles=("actor",))
        elif spec.get("shape") == "stale-readable":
            # first pre-emption: the I/O thread is in the middle of readable() (it has read some of the terms) when
            # the worker executes the closing request and takes the decision; second pre-emption: the I/O thread,
            # acting on its stale answer, has just queued what it read -- the worker runs before the I/O thread
            # gets to close the connection
            def first(site, cur):
                # (the channel's readable() has a yield point per bytecode instruction: 'i<offset>')
                return isinstance(site, tuple) and site[0] == "readable" and isinstance(site[1], str)

            def second(site):
                return isinstance(site, tuple) and site[0] in ("add_task", "received")

            gen = runner.double_preemptions(scn, first, window=spec.get("window", 40), second="preempted", second_filter=second,
                                            first_roles=("worker",))
        else:
            # two pre-emptions: one inside the I/O thread's received() (between its
            # closing-flag test and its queue push), one shortly after it resumes
            def first(site, cur):
                return isinstance(site, tuple) and (site[0] == "received" or site == ("lock", "channel.py:__init__"))

            gen = runner.double_preemptions(scn, first, window=spec.get("window", 40))
        for sw in gen:
            k += 1
            if k % spec["parts"] != spec["part"]:
                continue
            run_one(acc, scn, sw if "kind" in sw else {"kind": "forced", "switches": sw}, "forced2")
        acc.sample({"double_preemption_scenario": scn, "schedules": k})
    else:
        scn = spec["scn"]
        o = runner.run_scenario(scn, {"kind": "np"}, pilot=True, setup=fault_step_setup)
        points = runner.single_preemptions(o.pilot)
        # every pre-emption in the steps that follow an injected fault is kept (the window in which the
        # server has met the error but has not yet given the connection up), the rest is sampled
        fs = getattr(o.world, "fault_step", None)
        # ... and every pre-emption of the I/O thread inside readable() (evaluated without a lock, term by
        # term: the worker may take its decision between two of the terms)
        in_readable = {(e[0], t) for e in o.pilot if isinstance(e[2], tuple) and e[2][0] == "readable" for t in e[1]}
        runner.finish(o)
        if spec.get("cap") and len(points) > spec["cap"] * spec["parts"]:
            rng = random.Random(len(points))
            focus = [pt for pt in points if (fs is not None and fs <= pt[0] <= fs + 250) or pt in in_readable]
            rest = [pt for pt in points if pt not in set(focus)]
            points = sorted(set(focus) | set(rng.sample(rest, min(len(rest), spec["cap"] * spec["parts"]))))
            acc.count("enum_capped")
            acc.count("enum_fault_window_points", len(focus))
        for step, tid in points[spec["part"] :: spec["parts"]]:
            run_one(acc, scn, {"kind": "forced", "switches": {str(step): tid}}, "forced")
        acc.sample({"enumerated_scenario": scn, "single_preemptions": len(points)})
    return acc.out()


def finish(agg, tier, coverage):
    coverage["exhaustive"] = False
    coverage["distinct_schedules"] = len(agg["distinct"])


def replay(case):
    install_probe()
    acc = Acc()
    run_one(acc, case["scn"], case["strat"], "replay")
    return acc.violations
