"""C03 -- every response stream is well-framed; persistence is signalled truthfully.

The decision table of application behaviours (DESIGN.md 4 C03) is enumerated
as DSL programs, run through the real server code (SyncHarness) and the wire
is judged by an independent client-side parser against what the program means.
"""

import itertools
import random

from vf import core
from vf.core import Acc, b2s, s2b

ID = "C03"
LEVEL = "exploration"
RULE = (
    "cells of the decision table version{1.0,1.1} x request Connection{absent,close,keep-alive} x method{GET,HEAD,POST} "
    "x status{200,204,304,1xx} x declared Content-Length{absent,exact,larger,smaller} x body shape{empty,one,several "
    "with empty chunks,write(),mixed} x return kind{list,tuple,generator,iterable with len,file_wrapper seekable / "
    "non-seekable / small / large} x failure{none,before start_response,after it before output,after first output,"
    "response replaced via exc_info before output} x "
    "send pattern{all,1 byte,blocked-then-all}, each followed by a probe request; plus sampled pipelines of depth 3. "
    "The wire must parse into one response per executed request with the program's status, headers and bytes, and "
    "persistence must be announced truthfully. distinct = cell (all coordinates)"
)
ASSUMPTIONS = [
    "vf/ref/response.py is a correct strict RFC 9112 client-side parser",
    "programs that emit body bytes for HEAD or several/non-decimal Content-Length headers are outside the quantifier and not generated",
    "SyncHarness schedule (eager and lazy worker); schedules are C04's concern",
]

VERSIONS = ["1.1", "1.0"]
CONNS = [None, "close", "keep-alive"]
METHODS = ["GET", "HEAD", "POST"]
STATUSES = ["200 OK", "204 No Content", "304 Not Modified", "100 Continue"]
CLMODES = ["absent", "exact", "larger", "smaller"]
SHAPES = ["empty", "one", "several", "write", "mixed", "write-one"]
RETS = ["list", "tuple", "gen", "iterlen", "fw_seek", "fw_noseek", "fw_seek_big", "fw_seek_pos", "fw_seek_lc", "list_lc",
        "fw_real", "fw_real_pos", "fw_real_big_pos"]
FAILS = ["none", "before-sr", "after-sr", "after-output", "replaced"]
SENDS = ["all", "one", "blocked"]
SEND_PATTERNS = {"all": (-1,), "one": (1,), "blocked": (0, 0, -1)}

PROBE = {"status": "200 OK", "headers": [["X-Probe", "1"]], "cl": 5, "sr": "call", "steps": [["yield", "probe"]], "ret": "list"}


def shape_steps(shape, marker):
    a = "A%s-" % marker
    b = "B%s--" % marker
    c = "C%s---" % marker
    if shape == "empty":
        return []
    if shape == "one":
        return [["yield", a]]
    if shape == "several":
        return [["yield", ""], ["yield", a], ["yield", ""], ["yield", b], ["yield", c]]
    if shape == "write":
        return [["write", a], ["write", b]]
    if shape == "mixed":
        return [["write", a], ["yield", b], ["yield", ""], ["yield", c]]
    if shape == "write-one":
        # write() first, then an iterable of exactly one chunk (the server infers a length from len()==1)
        return [["write", a], ["yield", c]]
    raise ValueError(shape)


def build_cell(cell):
    """cell -> (request bytes, program) or None when the combination is outside
    the quantifier / meaningless"""
    version, conn, method, status, clmode, shape, ret, fail, send = cell
    marker = "%s%s" % (method[0], version[-1])
    steps = shape_steps(shape, marker)
    prog = {"status": status, "headers": [["X-App", "v-" + marker], ["Content-Type", "text/plain"]],
            "cl": None, "sr": "call", "steps": steps, "ret": ret, "close": "ok", "exc": "Exception"}
    if method == "HEAD":
        # no body bytes for HEAD (outside the quantifier otherwise)
        if shape != "empty" or ret.startswith("fw_"):
            return None
    if ret == "list_lc":
        prog["ret"] = ret = "list"
        prog["cl_name"] = "CONTENT-LENGTH"
    if ret.startswith("fw_"):
        if shape not in ("empty", "write"):
            return None
        if shape == "write":
            prog["steps"] = steps = [["write", "W%s=" % marker]]
        content = "0123456789"
        pos = 0
        if ret == "fw_seek_big":
            content = "".join(chr(33 + (i * 7) % 90) for i in range(70000))
            prog["ret"] = "fw_seek"
        if ret == "fw_seek_pos":
            pos = 3
            prog["ret"] = "fw_seek"
        if ret == "fw_seek_lc":
            # the application spells its length header in lower case
            prog["ret"] = "fw_seek"
            prog["cl_name"] = "content-length"
        real = False
        if ret in ("fw_real", "fw_real_pos", "fw_real_big_pos"):
            # a file of the operating system, read from the start or from somewhere inside
            real = True
            pos = {"fw_real": 0, "fw_real_pos": 3, "fw_real_big_pos": 50000}[ret]
            if ret == "fw_real_big_pos":
                content = "".join(chr(33 + (i * 7) % 90) for i in range(70000))
            prog["ret"] = "fw_seek"
        prog["fw"] = {"content": content, "pos": pos}
        if real:
            prog["fw"]["real"] = True
        produced_len = len(content) - pos + sum(len(a) for op, a in prog["steps"] if op == "write")
    else:
        produced_len = sum(len(a) for op, a in steps if op in ("write", "yield"))
    if ret in ("gen", "iterlen") and shape in ("write",):
        pass
    # failure placement
    if fail == "before-sr":
        prog["sr"] = "never"
        prog["steps"] = [["raise", "before-sr"]] + steps
        if ret in ("gen", "iterlen"):
            prog["sr"] = "next"
            return None  # start_response would run on first next; covered by after-sr
    elif fail == "replaced":
        # a first response (other status, other headers, another Content-Length) is replaced
        # before any output; only the replacement may reach the wire
        prog["first"] = {"status": "202 Accepted", "headers": [["X-First", "gone"]], "cl": 77}
    elif fail == "after-sr":
        prog["steps"] = [["raise", "after-sr"]] + steps
    elif fail == "after-output":
        if produced_len == 0 or ret.startswith("fw_"):
            return None
        # raise after the first non-empty step
        out = []
        done = False
        for op, a in steps:
            out.append([op, a])
            if not done and a:
                out.append(["raise", "after-output"])
                done = True
        prog["steps"] = out
    if fail in ("before-sr", "after-sr", "after-output"):
        # which class the application raises rotates over the table (an exit request is a failure too)
        prog["exc"] = ("Exception", "BaseException", "OSError", "SystemExit")[sum(map(len, map(str, cell))) % 4]
    if clmode == "exact":
        prog["cl"] = produced_len
    elif clmode == "larger":
        prog["cl"] = produced_len + 3
    elif clmode == "smaller":
        if produced_len < 3:
            return None
        prog["cl"] = produced_len - 2
    if method == "HEAD" and clmode in ("larger", "smaller"):
        prog["cl"] = 10  # HEAD may declare any length
    lines = ["%s /cell HTTP/%s" % (method, version), "Host: h"]
    if conn:
        lines.append("Connection: " + conn)
    body = b""
    if method == "POST":
        lines.append("Content-Length: 3")
        body = b"xyz"
    req = ("\r\n".join(lines) + "\r\n\r\n").encode() + body
    return req, prog


def all_cells():
    for cell in itertools.product(VERSIONS, CONNS, METHODS, STATUSES, CLMODES, SHAPES, RETS, FAILS, SENDS):
        yield cell


def plan(tier, seed):
    specs = []
    shards = 32 if tier == "quick" else 64
    for i in range(shards):
        specs.append({"mode": "table", "part": i, "parts": shards, "stride": 3 if tier == "quick" else 1, "seed": seed})
    for i in range(8 if tier == "quick" else 32):
        specs.append({"mode": "pipelines", "seed": seed * 9973 + i, "n": 300 if tier == "quick" else 2000})
    return specs


def required_counters(tier):
    return [
        "framing:cl", "framing:chunked", "framing:eof", "framing:none",
        "persist:announced-and-served", "persist:closed-as-announced", "late:too-few-bytes", "late:exception-mid-body",
        "early:500", "cut:at-declared-length", "fw:reconciled", "head:checked", "responses_checked", "probe:served",
        "probe:not-served",
    ]


_h = {}


def harness(logsock_off=False):
    """two servers: the default one, and one whose operator has switched the logging of socket errors
    off (what is logged must not change what is sent)"""
    from vf.sync import SyncHarness

    k = "h-nolog" if logsock_off else "h"
    if k not in _h:
        kw = {"log_socket_errors": False} if logsock_off else {}
        _h[k] = SyncHarness(clear_untrusted_proxy_headers=False, **kw)
    return _h[k]


def logsock_off_for(case):
    """every third case runs on the server without socket-error logging (a pure function of the case)"""
    import zlib

    basis = repr(case.get("cell") or case.get("pipeline"))
    return zlib.crc32(basis.encode()) % 3 == 0


def header_values(r, name):
    name = name.lower()
    return [v for k, v in r["headers"] if k.lower() == name]


def judge_pipeline(acc, reqs, progs, send, lazy, case):
    """reqs: list of (method, version, conn, bytes); progs: list of programs.
    Runs the pipeline on one connection and judges the wire."""
    from vf import apps
    from vf.ref import response as rs

    h = harness(logsock_off_for(case))
    if logsock_off_for(case):
        acc.count("server:log_socket_errors-off")
    log = apps.Log()
    app = apps.make_app(progs, log)
    data = b"".join(r[3] for r in reqs)
    res = h.run([data], app, send_pattern=SEND_PATTERNS[send], lazy=lazy, sndbuf=65536)
    acc.evaluations += 1

    def bad(key, what):
        acc.violation(key, what, case)

    if res.exceptions:
        e = res.exceptions[0]
        from vf.oracle import exc_key

        bad(exc_key(e), f"exception escaped: {e}")
        return
    if res.hung:
        bad("hang", "no quiescence")
        return
    executed = log.calls
    methods = [r[0] for r in reqs]
    resps, werr, leftover = rs.parse_responses(res.wire, methods, eof=res.closed, all_final=True)
    pos_ok = True
    expect_more = True  # whether the next request should be executed
    for i in range(len(reqs)):
        method, version, conn, _ = reqs[i]
        prog = progs[min(i, len(progs) - 1)]
        if not expect_more:
            if executed > i:
                bad("executed-after-close-announced", f"request {i} executed although response {i-1} ended the connection")
            break
        if executed <= i:
            bad("announced-persistence-not-honoured",
                f"response {i-1} announced persistence but request {i} was not executed (closed={res.closed})")
            break
        I = apps.intended(prog, method)
        if i >= len(resps):
            # no (complete) response i on the wire
            if I["fail"] == "mid-output" or True:
                pass
            bad("missing-response", f"request {i} executed but no response head on the wire; parse error: {werr}")
            break
        r = resps[i]
        acc.count("responses_checked")
        last_on_wire = i == len(resps) - 1
        # ---- early failure: complete 500, close
        if I["fail"] == "no-output":
            acc.count("early:500")
            if r["status"] != 500:
                bad("failure-before-output-not-500", f"status {r['status']} for a failure before any output")
                break
            if not r.get("complete") or (werr and last_on_wire):
                if method == "HEAD" and werr is None:
                    pass
                bad("500-incomplete" if method != "HEAD" else "head-500-has-body", f"500 response not well-framed: {werr}")
                break
            if header_values(r, b"connection") != [b"close"] and [v.lower() for v in header_values(r, b"connection")] != [b"close"]:
                bad("500-without-connection-close", "500 response lacks Connection: close")
            if not res.closed:
                bad("not-closed-after-500", "connection left open after a 500")
            if any(s2b(m) in res.wire for m in ("app-failure",)):
                bad("500-leaks-exception-text", "exception text on the wire with expose_tracebacks off")
            expect_more = False
            if i + 1 < len(resps) or (leftover and werr):
                if method == "HEAD":
                    bad("head-500-has-body", f"bytes after the 500 head of a HEAD request: {werr}")
                else:
                    bad("bytes-after-last-response", f"stray bytes after the 500: {werr}")
            continue
        # ---- status / headers
        want_status = int(I["status"][:3])
        if r["status"] != want_status:
            bad("status-differs", f"status {r['status']} != {want_status}")
            break
        if r["reason"] != I["status"][4:].encode("latin-1"):
            bad("reason-differs", f"reason {r['reason']!r} != {I['status'][4:]!r}")
        for k, v in I["headers"]:
            if v.encode("latin-1") not in header_values(r, k.encode("latin-1")):
                bad("app-header-missing", f"header {k}: {v} not on the wire: {r['headers']}")
        if prog.get("first") and header_values(r, b"x-first"):
            bad("replaced-response-header-on-wire", f"a header of the replaced first start_response call is on the wire: {r['headers']}")
        # ---- body
        delivered = I["delivered"]
        cl = I["cl"]
        late = None
        if I["fail"] == "mid-output":
            late = "exception-mid-body"
        if not I["body_bearing"]:
            acc.count("framing:none")
            if method == "HEAD":
                acc.count("head:checked")
            want_body = b""
        else:
            want_body = delivered
            if cl is not None:
                fw_fast = prog["ret"].startswith("fw_seek") and not any(op == "write" for op, _ in prog["steps"])
                if fw_fast and late is None:
                    # the server reconciles the length with the file up front
                    want_len = min(cl, len(delivered))
                    want_body = delivered[:want_len]
                    acc.count("fw:reconciled")
                    dl = header_values(r, b"content-length")
                    if dl != [str(want_len).encode()]:
                        bad("fw-length-not-reconciled", f"Content-Length {dl} != min(declared {cl}, file {len(delivered)})")
                elif len(delivered) > cl:
                    want_body = delivered[:cl]
                    acc.count("cut:at-declared-length")
                elif len(delivered) < cl and late is None:
                    late = "too-few-bytes"
        acc.count("framing:" + r["framing"])
        got = r["body"]
        if late is None:
            if not r.get("complete"):
                bad("response-truncated", f"response {i} incomplete on the wire ({werr}); intended {len(want_body)} body bytes")
                break
            if got != want_body:
                bad("body-differs", f"body {got[:50]!r} (len {len(got)}) != intended {want_body[:50]!r} (len {len(want_body)})")
                break
            if r["framing"] == "cl" and I["body_bearing"] and cl is not None and not (
                    prog["ret"].startswith("fw_seek") and not any(op == "write" for op, _ in prog["steps"])):
                if r.get("declared") != cl:
                    bad("content-length-altered", f"Content-Length {r.get('declared')} != declared {cl}")
        else:
            acc.count("late:" + late)
            # cannot be delimited as announced: must end in EOF, no reuse
            if r.get("complete") and r["framing"] in ("cl", "chunked"):
                # legitimate only if the announced length was in fact satisfied
                # before the failure (e.g. a one-element iterable whose single
                # chunk fixed the Content-Length and whose next() then raised)
                if not (late == "exception-mid-body" and r["framing"] == "cl" and got == want_body[: r.get("declared", -1)]
                        and len(got) == r.get("declared", -1)):
                    bad("late-failure-response-looks-complete",
                        f"{late}: the response is complete on the wire although the application delivered {len(delivered)} of {cl} bytes / failed")
                    break
            if not want_body.startswith(got) and not (r["framing"] == "eof"):
                bad("late-failure-body-not-prefix", f"body {got[:40]!r} is not a prefix of {want_body[:40]!r}")
            if r["framing"] == "eof" and got != want_body[: len(got)]:
                bad("late-failure-body-not-prefix", f"body {got[:40]!r} is not a prefix of {want_body[:40]!r}")
            if not res.closed:
                bad("reused-after-undelimitable-response", f"{late}: connection not closed")
            if executed > i + 1:
                bad("reused-after-undelimitable-response", f"{late}: request {i+1} executed afterwards")
            if i + 1 < len(resps):
                bad("bytes-after-last-response", f"{late}: further response on the wire")
            expect_more = False
            continue
        # ---- persistence announced?
        connv = [v.lower() for v in header_values(r, b"connection")]
        if r["version"] == "1.1":
            announces = b"close" not in connv
        else:
            announces = b"keep-alive" in connv and b"close" not in connv
        if r["framing"] == "eof":
            announces = False
            if b"close" not in connv and r["version"] == "1.1":
                bad("close-delimited-without-connection-close", "close-delimited HTTP/1.1 response lacks Connection: close")
        if b"close" in connv and b"keep-alive" in connv:
            bad("contradictory-connection-header", f"Connection: {connv}")
        known_last = (version == "1.1" and conn == "close") or (version == "1.0" and conn != "keep-alive")
        if known_last and b"close" not in connv:
            bad("last-response-without-connection-close",
                f"request asked to close / HTTP/1.0 without keep-alive but the response has Connection={connv}")
        if announces:
            acc.count("persist:announced-and-served")
            expect_more = True
            if i == len(reqs) - 1 and res.closed:
                bad("closed-after-announcing-persistence", "server closed the connection after announcing persistence")
        else:
            acc.count("persist:closed-as-announced")
            expect_more = False
            if not res.closed:
                bad("announced-close-not-closed", f"response {i} announced closing but the connection stayed open")
            if i + 1 < len(resps) or (last_on_wire and werr):
                key = "bytes-after-last-response"
                if method == "HEAD" and r["status"] == 200 and b"chunked" in [v.lower() for v in header_values(r, b"transfer-encoding")]:
                    key = "head-chunked-terminator"
                bad(key, f"bytes after the last response: {werr or 'another response'}; leftover {leftover[:30]!r}")
    else:
        if expect_more and executed > len(reqs):
            bad("extra-execution", "more executions than requests")
    if werr and not acc.violations and False:
        bad("wire-unparseable", werr)
    return res, resps, werr


def run_cell(acc, cell, lazy=False):
    built = build_cell(cell)
    if built is None:
        acc.count("cells-outside-quantifier")
        return
    req, prog = built
    version, conn, method, status, clmode, shape, ret, fail, send = cell
    reqs = [(method, version, conn, req), ("GET", "1.1", None, b"GET /probe HTTP/1.1\r\nHost: h\r\n\r\n")]
    case = {"cell": list(cell), "lazy": lazy}
    before = len(acc.violations)
    nb = acc.violations_total
    out = judge_pipeline(acc, reqs, [prog, PROBE], send, lazy, case)
    acc.distinct.add("|".join(str(x) for x in cell))
    if out is not None:
        res, resps, werr = out
        served = len(resps) >= 2 and resps[1]["status"] == 200 and resps[1]["body"] == b"probe"
        acc.count("probe:served" if served else "probe:not-served")
    if len(acc.samples) < 2:
        acc.sample({"cell": list(cell), "program": prog, "request": b2s(req)})


def run_shard(spec):
    acc = Acc()
    if spec["mode"] == "table":
        rng = random.Random(spec["seed"] * 31 + spec["part"])
        offset = rng.randrange(spec["stride"])
        for i, cell in enumerate(all_cells()):
            if i % spec["parts"] != spec["part"]:
                continue
            if (i // spec["parts"]) % spec["stride"] != offset and spec["stride"] > 1:
                continue
            run_cell(acc, cell, lazy=(i % 5 == 0))
        acc.count("table_cells", acc.evaluations)
    else:
        rng = random.Random(spec["seed"])
        cells = None
        for _ in range(spec["n"]):
            depth = rng.choice([2, 3, 3])
            reqs, progs, cl = [], [], []
            for d in range(depth):
                for _try in range(50):
                    cell = (rng.choice(VERSIONS), rng.choice(CONNS), rng.choice(METHODS), rng.choice(STATUSES),
                            rng.choice(CLMODES), rng.choice(SHAPES), rng.choice(RETS), rng.choice(FAILS + ["none"] * 4),
                            "all")
                    b = build_cell(cell)
                    if b is not None:
                        break
                req, prog = b
                reqs.append((cell[2], cell[0], cell[1], req))
                progs.append(prog)
                cl.append(list(cell))
            send = rng.choice(SENDS)
            case = {"pipeline": cl, "send": send, "lazy": False}
            judge_pipeline(acc, reqs, progs, send, False, case)
            acc.distinct.add("pipe|" + "|".join("/".join(map(str, c[:8])) for c in cl))
            acc.count("pipelines")
    return acc.out()


def finish(agg, tier, coverage):
    coverage["exhaustive"] = tier == "thorough"
    coverage["exhaustive_note"] = (
        "the decision table (all coordinates listed in the rule, each cell followed by a probe request) is enumerated "
        + ("completely" if tier == "thorough" else "with a stride of 3 (stratified over shards)")
        + "; pipelines of depth 2-3 are sampled"
    )


def replay(case):
    acc = Acc()
    if "cell" in case:
        run_cell(acc, tuple(case["cell"]), case.get("lazy", False))
    else:
        reqs, progs = [], []
        for c in case["pipeline"]:
            req, prog = build_cell(tuple(c))
            reqs.append((c[2], c[0], c[1], req))
            progs.append(prog)
        judge_pipeline(acc, reqs, progs, case["send"], False, case)
    return acc.violations


def explain(case):
    from vf import apps

    if "cell" not in case:
        return
    req, prog = build_cell(tuple(case["cell"]))
    print("   REQUEST", req)
    print("   PROGRAM", prog)
    print("   INTENDED", apps.intended(prog, case["cell"][2]))
    h = harness(logsock_off_for(case))
    log = apps.Log()
    res = h.run([req + b"GET /probe HTTP/1.1\r\nHost: h\r\n\r\n"], apps.make_app([prog, PROBE], log),
                send_pattern=SEND_PATTERNS[case["cell"][8]], lazy=case.get("lazy", False))
    print("   WIRE", res.wire[:600], "closed", res.closed, "calls", log.calls, "exc", res.exceptions)
    print("   LOG", log.events)
