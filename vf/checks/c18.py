"""C18 -- connection limit holds; idle connections are reaped, busy ones never."""

import itertools
import random

from vf import core
from vf.core import Acc

ID = "C18"
LEVEL = "exploration"
RULE = (
    "event histories over {connect, send-partial, send-complete (small / large response), client-reads, client-stalls, "
    "app-finishes, app-raises-SystemExit (random and directed histories), advance-clock(1 | channel_timeout | long)} driven by a director on a virtual clock against the real "
    "server loop (asyncore_loop_timeout 1) for connection_limit in {4,5,8,12} (24 in a directed history), channel_timeout in {3,10}, cleanup_interval "
    "in {1,4}, 1-2 listening sockets (two: MultiSocketServer.run() is the loop), 1-3 workers; applications block on scenario events. ALL histories up to length 4 "
    "(quick) / 5 (thorough) over the 10-letter alphabet with deterministic target selection, random histories up to "
    "length 14 beyond. Monitors: socket-map size at every mutation and at every accept; per connection the virtual "
    "times of activity, of request execution and of the server-initiated close. distinct = (configuration, history)"
)
ASSUMPTIONS = [
    "idle deadline = last activity + channel_timeout + cleanup_interval + 2 loop periods (maintenance runs from the listener's readable(), the close on the next writable event)",
    "liveness restated as bounded progress on the virtual clock; histories end with a long clock advance",
]
SHARD_TIMEOUT = {"quick": 600, "thorough": 3000}
ALPHABET = ["C", "P", "Q", "S", "L", "M", "R", "T", "F", "X", "a", "A"]
# X the lowest free (accepted, idle) connection is closed by its client
# M like L, but the application writes half of the response, then blocks until F (executing with output pending)
# C connect; P partial request on the newest free connection; Q a few more bytes of a partial request; S complete request (small response) on the
# lowest free connection; L same with a response larger than the send buffer; R / T the lowest connection
# with unread output starts / stops reading; F the oldest blocked application finishes; a advance 1 s;
# A advance channel_timeout + cleanup_interval + 3 s

KNOWN_F12 = "idle-not-reaped:pending-output-peer-stalled"


def required_counters(tier):
    return ["limit-hit", "backlog-waited", "idle-reached-deadline", "busy-outlived-timeout", "accepts", "histories",
            "listeners:1", "listeners:2", "reaped"]


def configs():
    out = []
    for limit in (4, 5, 8, 12):
        for ct in (3, 10):
            for ci in (1, 4):
                for nl in (1, 2):
                    out.append({"connection_limit": limit, "channel_timeout": ct, "cleanup_interval": ci, "listeners": nl,
                                "threads": 1 if (limit + ct) % 2 else 2})
    return out


def run_history(cfg, hist):
    """-> obs dict"""
    from vf.sim import runner as R
    from vf.sim import scenario as SC
    from vf.sim.world import World
    from vf import apps

    adj = {"connection_limit": cfg["connection_limit"], "channel_timeout": cfg["channel_timeout"],
           "cleanup_interval": cfg["cleanup_interval"], "threads": cfg["threads"], "asyncore_loop_timeout": 1,
           "send_bytes": 1}
    log = SC.AppLog()
    gates = {}
    holder = {}

    def app(environ, start_response):
        return holder["app"](environ, start_response)

    w = World(app, strategy=R.make_strategy({"kind": "np"}), adj_kw=adj, listeners=cfg["listeners"], infinite_poll=False,
              sndbuf=512, step_limit=600000, trace=True)
    t0 = w.sched.now
    obs = {"map_sizes": [], "accept_sizes": [], "violations": [], "conns": []}

    class Mon:
        def on_map_change(self, m, op, k, v):
            obs["map_sizes"].append((w.sched.now - t0, len(m)))

        def on_accept(self, listener, conn):
            obs["accept_sizes"].append((w.sched.now - t0, len(w.map), conn.cid))

    w.monitors.append(Mon())
    obs["map_sizes"].append((0.0, len(w.map)))

    def on_enter(cid, idx, environ):
        if "k=wgate" in environ.get("QUERY_STRING", ""):
            return  # this kind blocks in mid-response instead (on_mid)
        if "k=exit0" in environ.get("QUERY_STRING", ""):
            return  # fails at once
        ev = gates.setdefault((cid, idx), w.Event())
        ev.wait()

    def on_mid(cid, idx, environ):
        ev = gates.setdefault((cid, idx), w.Event())
        ev.wait()

    holder["app"] = SC.make_app(w, log, {"on_enter": on_enter, "on_mid": on_mid})
    state = []  # per connection dict

    def director(world, results, lg):
        def drain_all():
            for st in state:
                if st["reading"]:
                    st["client"].drain()

        def advance(dt):
            t = 0.0
            while t < dt:
                step = min(0.5, dt - t)
                world.sleep(step)
                t += step
                drain_all()

        for ev in hist:
            now = world.sched.now - t0
            if ev == "C":
                li = len(state) % cfg["listeners"]
                c = world.connect(listener=li, sndbuf=512)
                state.append({"client": c, "reading": True, "sent": 0, "partial": False, "busy": False, "t_connect": now,
                              "reqs": []})
            elif ev in ("S", "L", "P", "M", "B"):
                free = [st for st in state if not st["busy"] and not st["partial"] and not st["client"].conn.server_closed
                        and st["client"].conn.accepted and not st.get("closed") and not st.get("closing")]
                if not free:
                    continue
                st = free[0] if ev != "P" else free[-1]
                cid = st["client"].conn.cid
                idx = st["sent"]
                req = {"n": 40 if ev != "L" else 3000, "k": "cl"}
                if ev == "M":
                    # the application writes 1500 bytes, then blocks (until F), then writes the rest
                    req = {"n": 3000, "k": "wgate", "w": 1500}
                head, body = SC.request_bytes(cid, idx, req)
                if ev == "B":
                    # the application of this request raises SystemExit before any output: answered with an
                    # error (or not at all), the connection is given up by the server -- not left as it is
                    req = {"n": 40, "k": "exit0"}
                    head, body = SC.request_bytes(cid, idx, req)
                    st["client"].send(head + body)
                    st["sent"] += 1
                    st["closing"] = True
                elif ev == "P":
                    st["client"].send(head[: len(head) // 2])
                    st["partial"] = True
                    st["t_partial"] = now
                else:
                    st["client"].send(head + body)
                    st["busy"] = True
                    st["sent"] += 1
                    st["reqs"].append({"idx": idx, "t_sent": now, "large": ev in ("L", "M")})
            elif ev == "X":
                free = [st for st in state if not st["busy"] and not st["partial"] and not st["client"].conn.server_closed
                        and st["client"].conn.accepted and not st.get("closed") and not st.get("closing")]
                if free:
                    free[0]["client"].close()
                    free[0]["closed"] = True
                    free[0]["reading"] = False
                    free[0]["t_client_close"] = now
            elif ev == "Q":
                part = [st for st in state if st["partial"] and not st["client"].conn.server_closed and st["client"].conn.accepted]
                if part:
                    part[0]["client"].send(b"X-More: 1\r\n")
            elif ev in ("R", "T"):
                cand = [st for st in state if (st["client"].conn.s2c or st["reqs"]) and st["reading"] != (ev == "R")]
                if cand:
                    cand[0]["reading"] = ev == "R"
                    cand[0].setdefault("toggles", []).append((now, ev))
            elif ev == "F":
                blocked = sorted((k for k, g in gates.items() if not g.is_set()), key=lambda k: k)
                started = [k for k in blocked if any(e[1] == k[0] and e[2] == k[1] and e[3] == "enter" for e in log.events)]
                if started:
                    gates[started[0]].set()
                    for st in state:
                        if st["client"].conn.cid == started[0][0]:
                            st["busy"] = False
                            st["reqs"][-1]["t_finish_cmd"] = now
            elif ev == "a":
                advance(1.0)
            elif ev == "A":
                advance(cfg["channel_timeout"] + cfg["cleanup_interval"] + 3.0)
            world.sched.yield_point(("director", ev))
            drain_all()
        # epilogue: let every timer expire
        advance(cfg["channel_timeout"] + cfg["cleanup_interval"] + 4.0)
        obs["t_end"] = world.sched.now - t0

    w.sched.director = w.actor(director, w, None, log, name="director")
    reason = w.run(120)
    obs["reason"] = reason
    obs["world"] = w
    obs["state"] = state
    obs["log"] = log
    obs["t0"] = t0
    return obs


def judge(cfg, hist, obs, acc):
    out = []
    w = obs["world"]
    if w.failed:
        return [("harness:" + w.failed, "run did not finish")]
    if not w.io_alive():
        out.append(("io-thread-died", getattr(w, "loop_error", "?")))
    limit = cfg["connection_limit"]
    nl = cfg["listeners"]
    t0 = obs["t0"]
    # (1) limit
    mx = max((n for _, n in obs["map_sizes"]), default=0)
    acc.maxi("max_map_size_minus_limit", mx - limit)
    if mx > limit + (nl - 1):
        out.append(("limit-exceeded", f"socket map grew to {mx} with connection_limit {limit} and {nl} listener(s)"))
    for t, size_before, cid in obs["accept_sizes"]:
        acc.count("accepts")
        if size_before >= limit + (nl - 1):
            out.append(("accepted-at-limit", f"conn {cid} accepted while the map already held {size_before} (limit {limit})"))
        if size_before >= limit - 1:
            acc.count("limit-hit")
    # events per connection from the trace
    ev = w.events
    times = {}
    for e in ev:
        pass
    # the trace carries steps, not times: rebuild times from the world's event log of (step, role, kind, cid, ...)
    # -> use conn objects' own bookkeeping instead
    state = obs["state"]
    t_end = obs.get("t_end", 0)
    deadline_slack = cfg["channel_timeout"] + cfg["cleanup_interval"] + 2.0
    enter_times = {}
    exit_times = {}
    for step, cid, idx, what in obs["log"].events:
        pass
    for st in state:
        c = st["client"].conn
        tl = getattr(c, "timeline", [])
        # timeline entries: (t, kind) with kind in accept / recv / send / close:<role> / enter / exit
        t_accept = next((t for t, k in tl if k == "accept"), None)
        def below_since(t_upto):
            """start of the last interval before t_upto during which the map (a step function of
            its mutations) stayed below the limit; None if it was at the limit at t_upto"""
            size = 0
            since = 0.0
            for t, n in obs["map_sizes"]:
                if t > t_upto:
                    break
                if n < limit and size >= limit:
                    since = t
                size = n
            return None if size >= limit else since

        if t_accept is None:
            # (2) bounded progress: a connection may stay in the backlog only while the map is at the limit
            since = below_since(t_end)
            if since is not None and t_end - max(since, st["t_connect"]) > 2.5:
                out.append(("backlog-not-accepted", f"conn {c.cid} still in the backlog at the end although the map was below the limit since t={since:.1f}"))
            continue
        if t_accept - st["t_connect"] > 1.5:
            acc.count("backlog-waited")
            # the state just before this accept: for how long had there been room?
            size = 0
            since = 0.0
            for t, n in obs["map_sizes"]:
                if t >= t_accept - 1e-9:
                    break
                if n < limit and size >= limit:
                    since = t
                size = n
            if size < limit and t_accept - max(since, st["t_connect"]) > 2.5:
                out.append(("backlog-accepted-late", f"conn {c.cid} waited in the backlog until t={t_accept:.1f} although the map had been below the limit since t={since:.1f}"))
        t_close = next((t for t, k in tl if k.startswith("close")), None)
        busy_spans = []
        cur = None
        for t, k in tl:
            if k == "request-complete":
                cur = t
            elif k == "exit" and cur is not None:
                busy_spans.append((cur, t))
                cur = None
        if cur is not None:
            busy_spans.append((cur, None))
        # (4) never reaped while busy
        if t_close is not None and not c.client_closed and not c.client_rst:
            for a, b in busy_spans:
                if a <= t_close and (b is None or t_close < b):
                    out.append(("busy-connection-closed", f"conn {c.cid} closed by the server at t={t_close:.1f} while a request was queued/executing since {a:.1f}"))
            acc.count("reaped")
        for a, b in busy_spans:
            end = b if b is not None else t_end
            if end - a > cfg["channel_timeout"] + cfg["cleanup_interval"] + 2:
                acc.count("busy-outlived-timeout")
        # a server-initiated close of a connection that was active less than channel_timeout ago
        if t_close is not None and not c.client_closed and not c.client_rst:
            before = [t for t, k in tl if k in ("accept", "recv", "send", "exit") and t <= t_close]
            if before and t_close - max(before) < cfg["channel_timeout"] - 0.01 and not st.get("closing"):
                out.append(("reaped-too-early", f"conn {c.cid} closed by the server at t={t_close:.1f}, only {t_close - max(before):.1f}s after its last activity (channel_timeout {cfg['channel_timeout']})"))
        # (3) idle connections are reaped
        acts = [t for t, k in tl if k in ("accept", "recv", "send", "exit")]
        last_act = max(acts) if acts else t_accept
        open_busy = any(b is None for a, b in busy_spans)
        if not open_busy:
            deadline = last_act + deadline_slack
            if t_end > deadline + 0.5:
                acc.count("idle-reached-deadline")
                if t_close is None:
                    pending = len(c.s2c)
                    ch_pending = 0
                    for ch in w.channels():
                        if getattr(ch.socket, "conn", None) is c:
                            ch_pending = ch.total_outbufs_len
                    key = "idle-not-reaped"
                    if ch_pending > 0 and not st["reading"]:
                        key = KNOWN_F12
                    out.append((key, f"conn {c.cid} idle since t={last_act:.1f} still open at t={t_end:.1f} (deadline {deadline:.1f}); "
                                     f"pending output {ch_pending}, client reading={st['reading']}"))
                elif t_close > deadline + 0.01:
                    out.append(("idle-reaped-late", f"conn {c.cid} idle since {last_act:.1f} closed at {t_close:.1f}, deadline {deadline:.1f}"))
    return out


_probe = False


def install_timeline():
    """time-stamp the per-connection events (virtual clock) -- observation only"""
    global _probe
    if _probe:
        return
    from vf.sim import net, shim
    import waitress.channel as ch

    def stamp(conn, kind):
        w = shim.W()
        if w is None:
            return
        tl = conn.__dict__.setdefault("timeline", [])
        tl.append((w.sched.now - getattr(w, "t0", 1000000.0), kind))

    orig_recv = net.ServerSock.recv
    orig_send = net.ServerSock.send
    orig_close = net.ServerSock.close
    orig_accept = net.Listener.accept

    def recv(self, n):
        data = orig_recv(self, n)
        if data:
            stamp(self.conn, "recv")
        return data

    def send(self, data):
        k = orig_send(self, data)
        if k:
            stamp(self.conn, "send")
        return k

    def close(self):
        first = not self.conn.server_closed
        orig_close(self)
        if first:
            stamp(self.conn, "close:" + self.net.world.thread_role())

    def accept(self):
        r = orig_accept(self)
        stamp(r[0].conn, "accept")
        return r

    net.ServerSock.recv = recv
    net.ServerSock.send = send
    net.ServerSock.close = close
    net.Listener.accept = accept

    orig_received = ch.HTTPChannel.received
    orig_service = ch.HTTPChannel.service

    def received(self, data):
        before = len(self.requests)
        r = orig_received(self, data)
        conn = getattr(self.socket, "conn", None)
        if conn is not None and len(self.requests) > before:
            stamp(conn, "request-complete")
        return r

    def service(self):
        conn = getattr(self.socket, "conn", None)
        try:
            return orig_service(self)
        finally:
            # the worker leaves the request, whichever way
            if conn is not None:
                stamp(conn, "exit")

    ch.HTTPChannel.received = received
    ch.HTTPChannel.service = service
    _probe = True


def run_one(acc, cfg, hist):
    obs = run_history(cfg, hist)
    try:
        vs = judge(cfg, hist, obs, acc)
        acc.evaluations += 1
        acc.count("histories")
        acc.count("listeners:%d" % cfg["listeners"])
        acc.distinct.add("%d/%d/%d/%d/%d|%s" % (cfg["connection_limit"], cfg["channel_timeout"], cfg["cleanup_interval"],
                                                 cfg["listeners"], cfg["threads"], "".join(hist)))
        for key, what in vs:
            if key.startswith("harness:"):
                acc.inconclusive.append(key + " " + "".join(hist))
                continue
            acc.violation(key, what, {"cfg": cfg, "hist": "".join(hist)})
        return obs, vs
    finally:
        leaked = obs["world"].close()
        if leaked:
            acc.count("leaked_threads", leaked)


def plan(tier, seed):
    specs = []
    L = 4 if tier == "quick" else 5
    parts = 32 if tier == "quick" else 96
    for p in range(parts):
        specs.append({"mode": "all", "L": L, "part": p, "parts": parts, "seed": seed})
    for p in range(8 if tier == "quick" else 32):
        specs.append({"mode": "random", "seed": seed * 1049 + p, "n": 400 if tier == "quick" else 2500})
    specs.append({"mode": "directed"})
    return specs


DIRECTED = [
    # fill up to the limit, one more waits in the backlog, reaping frees a slot
    ({"connection_limit": 4, "channel_timeout": 3, "cleanup_interval": 1, "listeners": 1, "threads": 1}, "CCCaAa"),
    ({"connection_limit": 5, "channel_timeout": 3, "cleanup_interval": 1, "listeners": 2, "threads": 1}, "CCCCaAa"),
    # busy far beyond the timeout, then finished and reaped
    ({"connection_limit": 8, "channel_timeout": 3, "cleanup_interval": 1, "listeners": 1, "threads": 1}, "CSAAaFA"),
    # queued behind a blocked worker beyond the timeout
    ({"connection_limit": 8, "channel_timeout": 3, "cleanup_interval": 1, "listeners": 1, "threads": 1}, "CCSSAAFaFA"),
    # large response to a peer that stops reading (finding F-12)
    ({"connection_limit": 8, "channel_timeout": 3, "cleanup_interval": 1, "listeners": 1, "threads": 1}, "CTLFA"),
    # a request that is executing (blocked in mid-response) with output pending to a peer that stopped reading
    ({"connection_limit": 8, "channel_timeout": 3, "cleanup_interval": 1, "listeners": 1, "threads": 2}, "CaMTaAaFA"),
    ({"connection_limit": 8, "channel_timeout": 3, "cleanup_interval": 4, "listeners": 1, "threads": 1}, "CaMaTAAFA"),
    # several connections whose peers stopped reading go idle together: all of them are due in the same round
    ({"connection_limit": 8, "channel_timeout": 3, "cleanup_interval": 4, "listeners": 1, "threads": 3}, "CCCaLLLTTTaFFFaAa"),
    ({"connection_limit": 8, "channel_timeout": 3, "cleanup_interval": 1, "listeners": 1, "threads": 3}, "CCCaLLLTTTaFFFaAa"),
    # a limit large enough for any hysteresis to show: at the limit, one waits in the backlog, ONE client leaves
    ({"connection_limit": 12, "channel_timeout": 10, "cleanup_interval": 4, "listeners": 1, "threads": 1}, "CCCCCCCCCCCaXaaa"),
    ({"connection_limit": 24, "channel_timeout": 10, "cleanup_interval": 4, "listeners": 2, "threads": 1}, "C" * 23 + "aXaaa"),
    # partial request then silence
    ({"connection_limit": 8, "channel_timeout": 3, "cleanup_interval": 4, "listeners": 1, "threads": 2}, "CPA"),
    # a steady stream of new connections (one per second, cleanup_interval 4): the old idle ones are still reaped on time
    ({"connection_limit": 24, "channel_timeout": 3, "cleanup_interval": 4, "listeners": 1, "threads": 1}, "C" + "Ca" * 14),
    ({"connection_limit": 24, "channel_timeout": 3, "cleanup_interval": 4, "listeners": 2, "threads": 1}, "CC" + "Ca" * 14),
    ({"connection_limit": 12, "channel_timeout": 3, "cleanup_interval": 4, "listeners": 1, "threads": 1}, "C" + "CaXa" * 6),
    # an application that raises SystemExit: the connection is given up, its slot is free again
    ({"connection_limit": 4, "channel_timeout": 3, "cleanup_interval": 1, "listeners": 1, "threads": 1}, "CBaAa"),
    ({"connection_limit": 4, "channel_timeout": 3, "cleanup_interval": 1, "listeners": 1, "threads": 2}, "CCCBaCCaAa"),
    ({"connection_limit": 5, "channel_timeout": 10, "cleanup_interval": 4, "listeners": 2, "threads": 1}, "CSBaFBaAa"),
]


def run_shard(spec):
    install_timeline()
    acc = Acc()
    cfgs = configs()
    if spec["mode"] == "all":
        k = 0
        rng = random.Random(spec["seed"])
        for n in range(1, spec["L"] + 1):
            for hist in itertools.product(ALPHABET, repeat=n):
                if hist[0] != "C":
                    continue  # histories that do not start with a connection are prefixes of nothing
                k += 1
                if k % spec["parts"] != spec["part"]:
                    continue
                cfg = cfgs[(k // spec["parts"] + spec["seed"]) % len(cfgs)]
                run_one(acc, cfg, list(hist))
        acc.sample({"mode": "all histories", "max_length": spec["L"], "alphabet": ALPHABET})
    elif spec["mode"] == "random":
        rng = random.Random(spec["seed"])
        for _ in range(spec["n"]):
            n = rng.randint(5, 14)
            hist = ["C"] + [rng.choice(ALPHABET + ["C", "S", "a", "B"]) for _ in range(n - 1)]
            cfg = rng.choice(cfgs)
            obs, vs = run_one(acc, cfg, hist)
            if len(acc.samples) < 1:
                acc.sample({"cfg": cfg, "history": "".join(hist), "max_map": max((n for _, n in obs["map_sizes"]), default=0)})
    else:
        for cfg, h in DIRECTED:
            run_one(acc, cfg, list(h))
    return acc.out()


def finish(agg, tier, coverage):
    coverage["exhaustive"] = True
    coverage["exhaustive_note"] = (
        "every history up to length %d over the 10-letter alphabet (starting with a connect) is executed, configurations "
        "assigned round-robin; longer histories are random" % (4 if tier == "quick" else 5)
    )


def replay(case):
    install_timeline()
    acc = Acc()
    run_one(acc, case["cfg"], list(case["hist"]))
    return acc.violations
