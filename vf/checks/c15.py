"""C15 -- untrusted peers cannot influence connection metadata.

Relational (two-run) check on the real server-installed middleware: the same
request is run (a) with proxy header lines H and (b) with those lines deleted,
from the same untrusted peer; the two environs the application sees must be
equal except for the proxy headers' own keys, which must be absent with
clear_untrusted_proxy_headers on and verbatim with it off.  A third and fourth
run from the TRUSTED peer show that H would have changed the variables."""

import random

from vf import core
from vf.core import Acc, b2s, s2b

ID = "C15"
LEVEL = "exploration"
RULE = (
    "pairs = (request with proxy header lines H, same request with those lines deleted), both from one peer that is not "
    "the trusted proxy, on the real TcpWSGIServer/UnixWSGIServer-installed middleware (SyncHarness). Configurations "
    "enumerated completely: trusted_proxy None x clear on/off x log on/off x tcp/unix; trusted_proxy 10.0.0.1 x every "
    "allowed trusted_proxy_headers value (32 subsets of X-Forwarded-* and 'forwarded') x trusted_proxy_count 1..4 x clear "
    "on/off x log on/off (tcp), x count {1,3} x clear on/off (unix, peer 'localhost', trusted 10.0.0.1 or 127.0.0.1). H = "
    "1..6 kinds present, names in canonical / mixed-case / underscore spellings, duplicated lines; values well-formed "
    "(marker hop lists), malformed, degenerate, hostile, single-byte mutated (vf/gen/proxyvals.py). Peers: unrelated "
    "addresses and addresses sharing a prefix with the trusted one; further configurations: a link-local proxy with a "
    "zone (peers in other zones), a proxy given by name under a hostile name service (reverse lookups claim the name), "
    "a proxy written with a leading zero (peer = its octal reading). Oracle: equal status; equal REMOTE_ADDR, REMOTE_HOST, "
    "REMOTE_PORT, SERVER_NAME, SERVER_PORT, HTTP_HOST, wsgi.url_scheme; equal str/tuple/bool values under every other key "
    "and equal request body; proxy keys absent (clear on) or verbatim (clear off). Non-vacuity: for a third of the pairs "
    "the same two requests from the trusted peer, counting per variable how often H changed it. distinct = (config "
    "class, peer class, kinds present, alias classes, value classes)"
)
ASSUMPTIONS = [
    "the peer address is what the channel was given by accept() (the harness passes it to HTTPChannel as the real server does); for the unix server it is ('localhost', None)",
    "'verbatim' (clear off) means: the value the request parser delivers for that header name -- field values stripped of SP/HTAB, repeated lines joined with ', ' in order; header names containing '_' never reach the environ",
    "trusted_proxy='*' is outside the quantifier (every peer is trusted)",
    "a trusted_proxy component written with a leading zero is decimal or names nobody: the peer that is its octal reading (127.0.0.010 -> 127.0.0.8) is not the configured proxy",
    "a trusted_proxy given as a name is judged under a name service the peers control: every reverse lookup answers with the configured name, the name itself resolves to an address no peer has",
    "values are legal HTTP field values (HTAB, SP, VCHAR, obs-text); anything else is refused by the request parser before the middleware runs (C06/C10)",
    "only str / tuple / bool environ values are compared (wsgi.input is compared by content; wsgi.errors, wsgi.file_wrapper and waitress.client_disconnected are per-request objects)",
]

TRUSTED = "10.0.0.1"
PREFIX_PEERS = [
    "10.0.0.10", "10.0.0.1 ", "110.0.0.1", "10.0.0", "10.0.0.", "10.0.0.11", " 10.0.0.1", "10.0.0.1.", "010.0.0.1",
    "10.0.0.1:80", "10.0.0.100", "::10.0.0.1", "0::10.0.0.1", "::0:10.0.0.1",
]
# trusted_proxy given as a name.  The name service is the attacker's: the reverse record of every
# peer claims the configured name, while the name itself resolves to FORWARD_OF_NAME, an address no
# peer of the workload has -- so under any reading of a host-name setting the peer is not the proxy.
# trusted_proxy written with a leading zero.  Such a component is decimal (127.0.0.010 = 127.0.0.10) or
# the setting names nobody; the octal reading (CVE-2021-29921) names a host the operator did not write.
# Peers here are the octal readings only; the decimal reading is never used as a peer.
OCTAL_PROXIES = {"127.0.0.010": "127.0.0.8", "010.0.0.1": "8.0.0.1", "192.168.010.1": "192.168.8.1"}
NAMED_PROXIES = ["proxy.internal", "localhost", "edge-1"]
FORWARD_OF_NAME = "10.9.9.9"
_RESOLVER = {"name": None, "calls": 0}


def install_hostile_resolver():
    import socket

    if getattr(socket, "_vf_hostile", False):
        return
    socket._vf_hostile = True
    o_byaddr, o_fqdn, o_byname, o_byname_ex, o_gai, o_gni = (
        socket.gethostbyaddr, socket.getfqdn, socket.gethostbyname, socket.gethostbyname_ex, socket.getaddrinfo,
        socket.getnameinfo)

    def gethostbyaddr(addr):
        name = _RESOLVER["name"]
        if name is None:
            return o_byaddr(addr)
        _RESOLVER["calls"] += 1
        return (name, [name.upper()], [addr])

    def getfqdn(name=""):
        n = _RESOLVER["name"]
        if n is None:
            return o_fqdn(name)
        _RESOLVER["calls"] += 1
        return n

    def gethostbyname(host):
        if _RESOLVER["name"] is None:
            return o_byname(host)
        _RESOLVER["calls"] += 1
        return FORWARD_OF_NAME

    def gethostbyname_ex(host):
        if _RESOLVER["name"] is None:
            return o_byname_ex(host)
        _RESOLVER["calls"] += 1
        return (host, [], [FORWARD_OF_NAME])

    def getaddrinfo(host, port, *a, **kw):
        if _RESOLVER["name"] is None:
            return o_gai(host, port, *a, **kw)
        _RESOLVER["calls"] += 1
        return [(socket.AF_INET, socket.SOCK_STREAM, 6, "", (FORWARD_OF_NAME, port or 0))]

    def getnameinfo(sockaddr, flags):
        n = _RESOLVER["name"]
        if n is None:
            return o_gni(sockaddr, flags)
        _RESOLVER["calls"] += 1
        return (n, str(sockaddr[1]))

    socket.gethostbyaddr, socket.getfqdn, socket.gethostbyname = gethostbyaddr, getfqdn, gethostbyname
    socket.gethostbyname_ex, socket.getaddrinfo, socket.getnameinfo = gethostbyname_ex, getaddrinfo, getnameinfo


OTHER_PEERS = ["10.0.0.2", "192.0.2.7", "127.0.0.1", "::1", "localhost", "2001:db8::1", "10.0.1.1", "198.51.100.10"]


def required_counters(tier):
    from vf.gen import proxyvals as P

    need = [
        "pairs", "clear:on", "clear:off", "peer:tcp", "peer:unix", "peer:prefix-of-trusted", "trusted:none",
        "trusted:addr", "trusted:name", "alias:underscore", "alias:case", "dup-lines", "log:on", "trusted-runs",
    ]
    need += ["would-change:" + v for v in P.SEVEN]
    need += ["value:" + c for c in ("wellformed", "malformed", "degenerate", "hostile", "mutated")]
    return need


# --------------------------------------------------------------------- plan


def all_configs():
    from vf.gen import proxyvals as P

    out = []
    for _rep in range(8):  # no trusted proxy: 8 configurations only; weight them like 64
        for unix in (False, True):
            for clear in (True, False):
                for log in (False, True):
                    out.append({"unix": unix, "cfg": {"clear_untrusted_proxy_headers": clear, "log_untrusted_proxy_headers": log}})
    for kinds in P.allowed_kind_sets():
        for count in (1, 2, 3, 4):
            for clear in (True, False):
                for log in (False, True):
                    out.append({
                        "unix": False,
                        "cfg": {
                            "trusted_proxy": TRUSTED, "trusted_proxy_headers": list(kinds), "trusted_proxy_count": count,
                            "clear_untrusted_proxy_headers": clear, "log_untrusted_proxy_headers": log,
                        },
                    })
        # a link-local trusted proxy pinned to one interface: the same address on another link, or
        # without a zone, is another host
        for clear in (True, False):
            out.append({"unix": False, "cfg": {"trusted_proxy": "fe80::2%eth0", "trusted_proxy_headers": list(kinds), "trusted_proxy_count": 1,
                                               "clear_untrusted_proxy_headers": clear, "log_untrusted_proxy_headers": not clear}})
        # a proxy configured by name, under a name service the peers control
        out.append({"unix": False, "cfg": {"trusted_proxy": NAMED_PROXIES[len(out) % len(NAMED_PROXIES)], "trusted_proxy_headers": list(kinds),
                                           "trusted_proxy_count": 1 + len(out) % 2, "clear_untrusted_proxy_headers": len(out) % 4 < 2,
                                           "log_untrusted_proxy_headers": False}})
        out.append({"unix": False, "cfg": {"trusted_proxy": sorted(OCTAL_PROXIES)[len(out) % len(OCTAL_PROXIES)], "trusted_proxy_headers": list(kinds),
                                           "trusted_proxy_count": 1, "clear_untrusted_proxy_headers": len(out) % 4 < 2,
                                           "log_untrusted_proxy_headers": False}})
        for count in (1, 3):
            for clear in (True, False):
                out.append({
                    "unix": True,
                    "cfg": {
                        "trusted_proxy": TRUSTED if count == 1 else "127.0.0.1", "trusted_proxy_headers": list(kinds),
                        "trusted_proxy_count": count, "clear_untrusted_proxy_headers": clear,
                        "log_untrusted_proxy_headers": count == 3,
                    },
                })
    return out


def plan(tier, seed):
    cfgs = all_configs()
    rng = random.Random(seed * 7919 + 15)
    rng.shuffle(cfgs)
    nshards = 32 if tier == "quick" else 64
    pairs = 420 if tier == "quick" else 4200
    specs = []
    for i, part in enumerate(core.split(cfgs, nshards)):
        specs.append({"configs": part, "pairs": pairs, "seed": seed * 100003 + i})
    return specs


# ------------------------------------------------------------------ harness

_harnesses = {}


def harness(cfg, unix):
    from vf.sync import SyncHarness

    kw = dict(cfg)
    if "trusted_proxy_headers" in kw:
        kw["trusted_proxy_headers"] = set(kw["trusted_proxy_headers"])
    key = (bool(unix), tuple(sorted((k, repr(sorted(v)) if isinstance(v, set) else repr(v)) for k, v in kw.items())))
    h = _harnesses.get(key)
    if h is None:
        if len(_harnesses) >= 48:
            # keep this cache and SyncHarness's own server cache (which closes
            # and evicts everything beyond 60 entries) in step, so that no
            # harness held here ever refers to a closed server
            for srv in list(SyncHarness._servers.values()):
                try:
                    srv.close()
                except Exception:
                    pass
            SyncHarness._servers.clear()
            _harnesses.clear()
        try:
            h = SyncHarness(unix=bool(unix), **kw)
        except ValueError:
            h = False
        _harnesses[key] = h
    return h


# ---------------------------------------------------------------- workload

TEMPLATES = [
    ("GET", "GET /c15?q=1 HTTP/1.1", [("Host", "orig.example:8080"), ("Accept", "*/*")], ""),
    ("POST", "POST /p HTTP/1.1", [("Host", "orig.example"), ("Content-Length", "5"), ("X-Real-Ip", "9.9.9.9")], "hello"),
    ("GET", "GET / HTTP/1.0", [("User-Agent", "c15")], ""),
    ("GET", "GET http://abs.example:81/x?y HTTP/1.1", [("Host", "abs.example:81"), ("X-Forwarded-Server", "s.example")], ""),
    ("HEAD", "HEAD /h HTTP/1.1", [("Host", "[2001:db8::5]:8080"), ("X-Forwarded-Ssl", "on"), ("Forwarded-For", "1.2.3.4")], ""),
    ("GET", "GET /k HTTP/1.1", [("Host", "orig.example"), ("Connection", "close"), ("Via", "1.1 px"), ("X-Forwarded", "for=1.2.3.4")], ""),
]


def make_pair(rng):
    """-> (method, reqA, reqB, expected proxy keys (clear off), meta)"""
    from vf.gen import proxyvals as P

    method, line, others, body = rng.choice(TEMPLATES)
    nk = rng.choice((1, 1, 2, 2, 3, 4, 6))
    kinds = rng.sample(P.KINDS, nk)
    plines = []
    classes = set()
    aliases = set()
    dup = False
    for k in kinds:
        reps = 2 if rng.random() < 0.2 else 1
        dup = dup or reps > 1
        for _ in range(reps):
            label, name, reaches = rng.choice(P.name_aliases(k))
            cls, val = P.any_value(k, rng)
            if not P.legal_field_value(val.encode("latin-1")):
                cls, val = "wellformed", P.wellformed_value(k, rng)
            classes.add(cls)
            aliases.add(label)
            pad = rng.choice(("", " ", " ", " ", "\t", "  "))
            plines.append((k, name, pad + val + rng.choice(("", "", " ", "\t")), reaches, val))
    # interleave
    slots = [("o", n, v) for n, v in others]
    for pl in plines:
        slots.insert(rng.randrange(len(slots) + 1), ("p",) + pl)
    a = [line]
    b = [line]
    expect = {}
    for s in slots:
        if s[0] == "o":
            a.append(s[1] + ": " + s[2])
            b.append(s[1] + ": " + s[2])
        else:
            _t, k, name, raw, reaches, val = s
            a.append(name + ":" + raw)
            if reaches:
                key = P.ENVKEY[k]
                v = raw.strip(" \t")
                expect[key] = (expect[key] + ", " + v) if key in expect else v
    ra = ("\r\n".join(a) + "\r\n\r\n" + body).encode("latin-1")
    rb = ("\r\n".join(b) + "\r\n\r\n" + body).encode("latin-1")
    meta = {
        "kinds": sorted(P.SHORT[k] for k in kinds),
        "classes": sorted(classes),
        "aliases": sorted(aliases),
        "dup": dup,
    }
    return method, ra, rb, expect, meta


def pick_peer(rng, conf):
    """-> (addr, peer class)"""
    cfg = conf["cfg"]
    port = rng.choice((50000, 1, 65535, 40123))
    if conf["unix"]:
        return ["127.0.0.1", port], "unix"  # replaced by fix_addr: ('localhost', None)
    if str(cfg.get("trusted_proxy")).startswith("fe80"):
        return [rng.choice(["fe80::2%eth1", "fe80::2", "fe80::2%eth00", "fe80::2%25eth0", "fe80::2%", "fe80::2%ETH0", "fe80::20%eth0"]), port], "prefix"
    if cfg.get("trusted_proxy") in OCTAL_PROXIES:
        return [OCTAL_PROXIES[cfg["trusted_proxy"]], port], "octal"
    if cfg.get("trusted_proxy") in NAMED_PROXIES:
        return [rng.choice(["10.0.0.2", "192.0.2.7", "127.0.0.1", "::1", "2001:db8::1", "198.51.100.10"]), port], "named"
    if cfg.get("trusted_proxy") is None:
        r = rng.random()
        if r < 0.3:
            return [TRUSTED, port], "tcp"
        return [rng.choice(OTHER_PEERS + PREFIX_PEERS), port], "tcp"
    if rng.random() < 0.55:
        return [rng.choice(PREFIX_PEERS), port], "prefix"
    return [rng.choice(OTHER_PEERS), port], "tcp"


# ------------------------------------------------------------------- oracle


def compare(acc, case, count=True):
    """Run the pair (and optionally the trusted pair); record violations."""
    from vf.gen import proxyvals as P

    cfg = case["config"]
    h = harness(cfg, case["unix"])
    if h is False:
        acc.count("config-rejected")
        return
    ra, rb = s2b(case["a"]), s2b(case["b"])
    addr = case["addr"]
    method = case["method"]
    named = cfg.get("trusted_proxy") in NAMED_PROXIES
    install_hostile_resolver()
    _RESOLVER["name"] = cfg["trusted_proxy"] if named else None
    try:
        oa = P.observe(h, ra, addr, method)
        ob = P.observe(h, rb, addr, method)
    finally:
        _RESOLVER["name"] = None
    if named and count:
        acc.count("trusted:name")
    acc.evaluations += 1
    clear = bool(cfg.get("clear_untrusted_proxy_headers"))

    def viol(key, what):
        acc.violation(key, what, case)

    for tag, o in (("with H", oa), ("without H", ob)):
        for c in o.crashes:
            viol("exception:" + c["type"], f"{c['type']} in {c['func']} ({tag}): {c['msg']} {c['where']}")
        for e in o.exceptions:
            viol("exception:" + e["type"], f"{e['type']} ({tag}): {e['msg']} {e['where']}")
        if o.werr or o.hung:
            viol("wire-unparseable", f"{tag}: {o.werr} hung={o.hung}")
    if oa.status != ob.status:
        viol("status-differs", f"status {oa.status} with proxy headers, {ob.status} without (peer {addr[0]!r}) body={oa.reply!r}")
    if ob.status != 200 or ob.env is None:
        acc.count("base-not-200")
        return
    if oa.env is None:
        return
    ea, eb = P.plain(oa.env), P.plain(ob.env)
    for var in P.SEVEN:
        if ea.get(var) != eb.get(var):
            viol("untrusted-influence:" + var,
                 f"{var}={ea.get(var)!r} with proxy headers, {eb.get(var)!r} without; peer {addr[0]!r}, "
                 f"trusted_proxy={cfg.get('trusted_proxy')!r}")
    for key in sorted(set(ea) | set(eb)):
        if key in P.SEVEN or key in P.PROXY_ENV_KEYS:
            continue
        if ea.get(key, "<absent>") != eb.get(key, "<absent>"):
            viol("untrusted-other-key-differs:" + key, f"{key}={ea.get(key, '<absent>')!r} vs {eb.get(key, '<absent>')!r}")
    if oa.body != ob.body:
        viol("untrusted-other-key-differs:wsgi.input", f"body {oa.body!r} vs {ob.body!r}")
    expect = case["expect"]
    for key in P.PROXY_ENV_KEYS:
        if key in eb:
            viol("untrusted-header-altered:" + key, f"{key} present in the run without proxy headers: {eb[key]!r}")
        if clear:
            if key in ea:
                viol("untrusted-header-not-cleared:" + key,
                     f"{key}={ea[key]!r} reached the application although clear_untrusted_proxy_headers is on")
        else:
            want = expect.get(key, "<absent>")
            got = ea.get(key, "<absent>")
            if want != got:
                viol("untrusted-header-altered:" + key, f"clear off: {key} expected {want[:80]!r}, application saw {got[:80]!r}")
    if count:
        acc.count("pairs")
        acc.count("clear:on" if clear else "clear:off")
        if cfg.get("log_untrusted_proxy_headers"):
            acc.count("log:on")
        acc.count("trusted:addr" if cfg.get("trusted_proxy") else "trusted:none")

    # non-vacuity: the same two requests from the trusted peer
    t = case.get("trusted_addr")
    if t:
        ta = P.observe(h, ra, t, method)
        tb = P.observe(h, rb, t, method)
        acc.evaluations += 1
        acc.count("trusted-runs")
        acc.count("trusted-status:%s" % ta.status)
        if ta.env is not None and tb.env is not None:
            changed = False
            for var in P.SEVEN:
                if ta.env.get(var) != tb.env.get(var):
                    acc.count("would-change:" + var)
                    changed = True
            if changed:
                acc.count("would-change:any")


def run_shard(spec):
    acc = Acc()
    rng = random.Random(spec["seed"])
    for conf in spec["configs"]:
        cfg = conf["cfg"]
        if harness(cfg, conf["unix"]) is False:
            acc.count("config-rejected")
            continue
        ccls = "none" if not cfg.get("trusted_proxy") else "%s/%d/c%d" % (
            "fwd" if cfg["trusted_proxy_headers"] == ["forwarded"] else "x%d" % len(cfg["trusted_proxy_headers"]),
            cfg["trusted_proxy_count"], int(bool(cfg["clear_untrusted_proxy_headers"])))
        for i in range(spec["pairs"]):
            method, ra, rb, expect, meta = make_pair(rng)
            addr, pcls = pick_peer(rng, conf)
            case = {
                "config": cfg, "unix": conf["unix"], "addr": addr, "method": method, "a": b2s(ra), "b": b2s(rb),
                "expect": expect,
            }
            if cfg.get("trusted_proxy") and cfg["trusted_proxy"] not in NAMED_PROXIES and cfg["trusted_proxy"] not in OCTAL_PROXIES and not conf["unix"] and i % 3 == 0:
                case["trusted_addr"] = [cfg["trusted_proxy"], addr[1]]
            compare(acc, case)
            acc.count("peer:unix" if pcls == "unix" else "peer:tcp")
            if pcls == "prefix":
                acc.count("peer:prefix-of-trusted")
            for a in meta["aliases"]:
                acc.count("alias:" + a)
            for c in meta["classes"]:
                acc.count("value:" + c)
            if meta["dup"]:
                acc.count("dup-lines")
            acc.distinct.add("|".join([
                ccls, "unix" if conf["unix"] else pcls, "+".join(meta["kinds"]), "+".join(meta["aliases"]),
                "+".join(meta["classes"]),
            ]))
            if i == 0:
                acc.sample({"config": cfg, "unix": conf["unix"], "peer": addr, "request_with_headers": case["a"][:300]}, limit=2)
    acc.count("observed:name-service-lookups-by-the-server", _RESOLVER["calls"])
    return acc.out()


def finish(agg, tier, coverage):
    coverage["exhaustive"] = False
    coverage["exhaustive_note"] = (
        "the configuration axis (trusted_proxy None/address x every allowed trusted_proxy_headers value x count 1..4 x "
        "clear x log, tcp; a reduced product for the unix server) is enumerated completely; requests, header values and "
        "peers are sampled"
    )


def replay(case):
    acc = Acc()
    compare(acc, case, count=False)
    return acc.violations
