"""`python -m vf setup`: offline self-check of the framework itself.

Nothing is built (pure Python, waitress is imported from /repo/src as it is);
this verifies that the interpreter, the tree under test and the reference
parsers are usable and that the reference parsers pass their own RFC examples.
"""

import json
import os
import sys


def ref_request_selftest():
    from vf.ref import request as rq

    P = rq.parse_stream
    fails = []

    def expect(data, kinds, **kw):
        outs = P(data, kw.get("mh"), kw.get("mb"))
        got = [o.kind for o in outs]
        if got != kinds:
            fails.append((data, kinds, got, [o.brief() for o in outs]))
        return outs

    o = expect(b"GET / HTTP/1.1\r\nHost: a\r\n\r\n", ["deliver"])
    assert o[0].method == b"GET" and o[0].target == b"/" and o[0].close_after is False
    o = expect(b"POST / HTTP/1.1\r\nContent-Length: 3\r\n\r\nabcGET / HTTP/1.1\r\n\r\n", ["deliver", "deliver"])
    assert o[0].body == b"abc"
    o = expect(b"POST / HTTP/1.1\r\nTransfer-Encoding: chunked\r\n\r\n3\r\nabc\r\n0\r\n\r\n", ["deliver"])
    assert o[0].body == b"abc" and o[0].framing == "chunked"
    # RFC 9112 7.1 example with extension and trailer
    o = expect(b"POST / HTTP/1.1\r\nTransfer-Encoding: chunked\r\n\r\n4;a=b\r\nWiki\r\n0\r\nT: v\r\n\r\n", ["deliver"])
    assert o[0].body == b"Wiki"
    for bad in (b"5\n", b"+5", b"0x5", b"5 ", b" 5", b"5_0", b"", b"5;", b"5;a=", b"5; a", b'5;a="', b"g"):
        expect(b"POST / HTTP/1.1\r\nTransfer-Encoding: chunked\r\n\r\n" + bad + b"\r\nabcde\r\n0\r\n\r\n", ["refuse"])
    for bad in (b"+3", b"-3", b"0x3", b"3, 3", b"3_0", b"\xb2", b"3\x0b", b""):
        expect(b"POST / HTTP/1.1\r\nContent-Length:" + bad + b"\r\n\r\nabc", ["refuse"])
    expect(b"POST / HTTP/1.1\r\nContent-Length: 3\r\nContent-Length: 3\r\n\r\nabc", ["refuse"])
    for te in (b"gzip, chunked", b"chunked, gzip", b"chunked, chunked", b"identity", b"chunked\x0b", b"chunked;q=1"):
        expect(b"POST / HTTP/1.1\r\nTransfer-Encoding: " + te + b"\r\n\r\n0\r\n\r\n", ["refuse"])
    expect(b"GET / HTTP/1.1\r\nHost : a\r\n\r\n", ["refuse"])
    expect(b"GET / HTTP/1.1\r\nHo st: a\r\n\r\n", ["refuse"])
    expect(b"GET / HTTP/1.1\r\nHost: a\nX: y\r\n\r\n", ["refuse"])
    expect(b"GET / HTTP/1.1\r\nHost: a\rX: y\r\n\r\n", ["refuse"])
    expect(b" GET / HTTP/1.1\r\n\r\n", ["refuse"])
    expect(b"GET / HTTP/1.1 \r\n\r\n", ["refuse"])
    expect(b"GET /  HTTP/1.1\r\n\r\n", ["refuse"])
    expect(b"\r\n\r\nGET / HTTP/1.1\r\n\r\n", ["deliver"])
    expect(b"GET / HTTP/1.1\r\nHost: a\r\n", ["incomplete"])
    expect(b"POST / HTTP/1.1\r\nTransfer-Encoding: chunked\r\n\r\n3\r\nabcXX0\r\n\r\n", ["refuse"])
    expect(b"POST / HTTP/1.1\r\nTransfer-Encoding: chunked\r\n\r\n0\r\nbad trailer\r\n\r\n", ["refuse"])
    expect(b"POST / HTTP/1.1\r\nTransfer-Encoding: chunked\r\n\r\n0\r\nT: a\nb\r\n\r\n", ["refuse"])
    o = expect(b"POST / HTTP/1.1\r\nContent-Length: 1\r\nTransfer-Encoding: chunked\r\n\r\n1\r\nZ\r\n0\r\n\r\nGET / HTTP/1.1\r\n\r\n", ["deliver"])
    assert o[0].close_after is True and 400 in o[0].may_refuse
    o = expect(b"POST / HTTP/1.0\r\nTransfer-Encoding: chunked\r\nConnection: keep-alive\r\n\r\n", ["deliver"])
    assert o[0].close_after is True
    expect(b"GET / HTTP/1.1\r\n" + b"X: " + b"a" * 100 + b"\r\n\r\n", ["refuse"], mh=64)
    expect(b"POST / HTTP/1.1\r\nContent-Length: 10\r\n\r\n0123456789", ["refuse"], mb=10)
    expect(b"POST / HTTP/1.1\r\nContent-Length: 9\r\n\r\n012345678", ["deliver"], mb=10)
    return fails


def ref_response_selftest():
    from vf.ref import response as rs

    fails = []
    r, err, left = rs.parse_responses(b"HTTP/1.1 200 OK\r\nContent-Length: 2\r\n\r\nokHTTP/1.1 204 No Content\r\n\r\n", ["GET", "GET"])
    if err or len(r) != 2 or r[0]["body"] != b"ok":
        fails.append(("cl", err))
    r, err, left = rs.parse_responses(b"HTTP/1.1 200 OK\r\nTransfer-Encoding: chunked\r\n\r\n2\r\nok\r\n0\r\n\r\n", ["GET"])
    if err or r[0]["body"] != b"ok":
        fails.append(("chunked", err))
    r, err, left = rs.parse_responses(b"HTTP/1.1 200 OK\r\nTransfer-Encoding: chunked\r\n\r\n2\r\nok\r\n", ["GET"])
    if not err:
        fails.append(("truncated chunked accepted", err))
    r, err, left = rs.parse_responses(b"HTTP/1.1 200 OK\r\nContent-Length: 0\r\n\r\n0\r\n\r\n", ["HEAD"])
    if not err:
        fails.append(("stray bytes accepted", err))
    r, err, left = rs.parse_responses(b"HTTP/1.1 200 OK\r\nX: a\nInjected: 1\r\n\r\n", ["GET"])
    if not err:
        fails.append(("bare LF accepted", err))
    r, err, left = rs.parse_responses(b"HTTP/1.1 100 Continue\r\n\r\nHTTP/1.0 200 OK\r\n\r\nrest", ["GET"])
    if err or not r[0]["interim"] or r[1]["body"] != b"rest":
        fails.append(("interim/eof", err))
    return fails


def main():
    from vf import core

    core.use_waitress()
    import waitress

    print("waitress under test:", os.path.dirname(waitress.__file__))
    print("python:", sys.version.split()[0])
    fails = ref_request_selftest()
    for f in fails:
        print("REF-REQUEST SELFTEST FAIL", f)
    fails2 = ref_response_selftest()
    for f in fails2:
        print("REF-RESPONSE SELFTEST FAIL", f)
    # manifest / known-findings are loadable
    with open(os.path.join(core.ROOT, "MANIFEST.json")) as f:
        m = json.load(f)
    for c in m["checks"]:
        core.load_check(c["property_id"])
    if os.path.exists(core.KNOWN):
        with open(core.KNOWN) as f:
            json.load(f)
    os.makedirs(core.EVIDENCE, exist_ok=True)
    os.makedirs(core.WORK, exist_ok=True)
    # optional extra self-tests registered by other modules
    extra = []
    try:
        from vf.sim import selftest as simtest  # noqa

        extra = simtest.run()
    except ImportError:
        pass
    for f in extra:
        print("SIM SELFTEST FAIL", f)
    if fails or fails2 or extra:
        return 1
    print("setup ok:", len(m["checks"]), "checks registered")
    return 0
