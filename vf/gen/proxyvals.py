"""Values of the six proxy headers (Forwarded, X-Forwarded-{For,Host,Proto,
Port,By}) for C15 / C16.

Every *hop* of a generated list carries marker strings that are unique to its
position i (0 = leftmost = furthest from the server), so that an oracle can
tell from an environ value which hop it came from:

    address   198.51.100.<10+i>       / 2001:db8::<10+i>   / _hidden<i>
    for-port  <41000+7i>
    host      h<i>.example            host-port <8100+11i>
    by        _px<i>                  extension  s3cr3t<i>

All markers of one namespace have the same length, so none is a substring of
another.  Values of *untrusted* kinds use a separate "evil" namespace
(203.0.113.66, evil<j>.example, port 6<j>66) that no trusted hop uses.

A hop description is a JSON-able dict:
    text    the list element as sent
    sel     string REMOTE_ADDR / SERVER_NAME must equal (exact=True) or
            contain (exact=False) when this hop is the selected one
    port    port carried by the element, or None
    marks   the unique markers occurring in the element (taint check)
    strict  the form is one docs/reverse-proxy.rst / docs/arguments.rst (or the
            RFC 7239 grammar they refer to) unambiguously supports: a 400 for
            it is a finding.  strict=False forms may be refused.
    form    name of the form
"""

import itertools

XKINDS = (
    "x-forwarded-for",
    "x-forwarded-host",
    "x-forwarded-proto",
    "x-forwarded-port",
    "x-forwarded-by",
)
KINDS = XKINDS + ("forwarded",)
NAME = {k: "-".join(p.capitalize() for p in k.split("-")) for k in KINDS}
ENVKEY = {k: "HTTP_" + k.upper().replace("-", "_") for k in KINDS}
PROXY_ENV_KEYS = tuple(ENVKEY[k] for k in KINDS)
SEVEN = (
    "REMOTE_ADDR",
    "REMOTE_HOST",
    "REMOTE_PORT",
    "SERVER_NAME",
    "SERVER_PORT",
    "HTTP_HOST",
    "wsgi.url_scheme",
)
SHORT = {
    "x-forwarded-for": "xff",
    "x-forwarded-host": "xfh",
    "x-forwarded-proto": "xfproto",
    "x-forwarded-port": "xfport",
    "x-forwarded-by": "xfby",
    "forwarded": "fwd",
}


def allowed_kind_sets():
    """every value of trusted_proxy_headers that Adjustments accepts: any
    subset of the five X-Forwarded-* kinds (the empty one becomes
    {x-forwarded-proto} with a deprecation warning), or 'forwarded' alone"""
    out = []
    for mask in range(32):
        out.append(tuple(k for i, k in enumerate(XKINDS) if mask >> i & 1))
    out.append(("forwarded",))
    return out


# ------------------------------------------------------------------ markers


def m_ip4(i):
    return "198.51.100.%d" % (10 + i)


def m_ip6(i):
    return "2001:db8::%d" % (10 + i)


def m_hidden(i):
    return "_hidden%d" % i


def m_fport(i):
    return str(41000 + 7 * i)


def m_host(i):
    return "h%d.example" % i


def m_hport(i):
    return str(8100 + 11 * i)


def m_by(i):
    return "_px%d" % i


def m_secret(i):
    return "s3cr3t%d" % i


EVIL_ADDR = "203.0.113.66"
EVIL_HOSTS = ("evil0.example", "evil1.example")
EVIL_PORTS = ("6066", "6166")


# ---------------------------------------------------------- X-Forwarded-For

XFF_FORMS = (
    "ip4", "ip4port", "ip6br", "ip6bare", "ip6q", "ip4q", "ip6brport", "hidden", "unknown",
)
XFF_STRICT = ("ip4", "ip4port", "ip6br", "ip6bare", "ip6q", "ip4q")


def xff_hop(i, form):
    a4, a6, fp = m_ip4(i), m_ip6(i), m_fport(i)
    d = {"form": form, "port": None, "exact": True, "strict": form in XFF_STRICT}
    if form == "ip4":
        d.update(text=a4, sel=a4, marks=[a4])
    elif form == "ip4port":
        d.update(text=a4 + ":" + fp, sel=a4, port=fp, marks=[a4, fp])
    elif form == "ip6br":
        d.update(text="[" + a6 + "]", sel=a6, marks=[a6])
    elif form == "ip6bare":
        d.update(text=a6, sel=a6, marks=[a6])
    elif form == "ip6q":
        d.update(text='"[' + a6 + ']"', sel=a6, marks=[a6])
    elif form == "ip4q":
        d.update(text='"' + a4 + '"', sel=a4, marks=[a4])
    elif form == "ip6brport":
        # the code comment in proxy_headers.py says X-Forwarded-For IPv6
        # elements are assumed not to carry a port: the outcome is unspecified;
        # whatever it is, it has to come from this hop
        d.update(text="[" + a6 + "]:" + fp, sel=a6, exact=False, port=None, marks=[a6, fp])
        d["port_any"] = True
    elif form == "hidden":
        h = m_hidden(i)
        d.update(text=h, sel=h, marks=[h])
    elif form == "unknown":
        d.update(text="unknown", sel="unknown", marks=[])
    else:
        raise ValueError(form)
    return d


# --------------------------------------------------------- X-Forwarded-Host

XFH_FORMS = ("host", "hostport", "hostq", "hostportq", "hostuc")


def xfh_hop(i, form):
    hn, hp = m_host(i), m_hport(i)
    d = {"form": form, "port": None, "exact": True, "strict": True}
    if form == "host":
        d.update(text=hn, sel=hn, marks=[hn])
    elif form == "hostport":
        d.update(text=hn + ":" + hp, sel=hn, port=hp, marks=[hn, hp])
    elif form == "hostq":
        d.update(text='"' + hn + '"', sel=hn, marks=[hn])
    elif form == "hostportq":
        d.update(text='"' + hn + ":" + hp + '"', sel=hn, port=hp, marks=[hn, hp])
    elif form == "hostuc":
        d.update(text=hn.upper(), sel=hn, marks=[hn])
    else:
        raise ValueError(form)
    return d


# ---------------------------------------------------------------- Forwarded

FWD_FOR_FORMS = ("ip4", "ip4portq", "ip6q", "ip6portq", "hidden", "unknown", "ip4port-unquoted", "hiddenportq", "ip4q")
FWD_FOR_STRICT = ("ip4", "ip4portq", "ip6q", "ip6portq", "hidden", "unknown", "hiddenportq", "ip4q")


def fwd_for(i, form):
    a4, a6, fp, hd = m_ip4(i), m_ip6(i), m_fport(i), m_hidden(i)
    d = {"form": form, "port": None, "exact": True, "strict": form in FWD_FOR_STRICT}
    if form == "ip4":
        d.update(val=a4, sel=a4, marks=[a4])
    elif form == "ip4q":
        d.update(val='"' + a4 + '"', sel=a4, marks=[a4])
    elif form == "ip4portq":
        d.update(val='"' + a4 + ":" + fp + '"', sel=a4, port=fp, marks=[a4, fp])
    elif form == "ip4port-unquoted":
        d.update(val=a4 + ":" + fp, sel=a4, port=fp, marks=[a4, fp])
    elif form == "ip6q":
        d.update(val='"[' + a6 + ']"', sel=a6, marks=[a6])
    elif form == "ip6portq":
        d.update(val='"[' + a6 + "]:" + fp + '"', sel=a6, port=fp, marks=[a6, fp])
    elif form == "hidden":
        d.update(val=hd, sel=hd, marks=[hd])
    elif form == "hiddenportq":
        d.update(val='"' + hd + ":" + fp + '"', sel=hd, port=fp, marks=[hd, fp])
    elif form == "unknown":
        d.update(val="unknown", sel="unknown", marks=[])
    else:
        raise ValueError(form)
    return d


FWD_HOST_FORMS = ("host", "hostportq", "hostq", "hostuc", "hostport-unquoted")


def fwd_host(i, form):
    hn, hp = m_host(i), m_hport(i)
    d = {"form": form, "port": None, "exact": True, "strict": form != "hostport-unquoted"}
    if form == "host":
        d.update(val=hn, sel=hn, marks=[hn])
    elif form == "hostq":
        d.update(val='"' + hn + '"', sel=hn, marks=[hn])
    elif form == "hostuc":
        d.update(val=hn.upper(), sel=hn, marks=[hn])
    elif form == "hostportq":
        d.update(val='"' + hn + ":" + hp + '"', sel=hn, port=hp, marks=[hn, hp])
    elif form == "hostport-unquoted":
        d.update(val=hn + ":" + hp, sel=hn, port=hp, marks=[hn, hp])
    else:
        raise ValueError(form)
    return d


FWD_PROTO_VALUES = ("http", "https", "HTTPS", "Http", '"https"', '"http"')
PARAM_SPELLINGS = {
    "for": ("for", "for", "For", "FOR"),
    "host": ("host", "host", "Host", "HOST"),
    "proto": ("proto", "proto", "Proto", "PROTO"),
    "by": ("by", "by", "By", "BY"),
}


def fwd_elem(i, rng, params=None, quirks=True):
    """One forwarded-element for hop i.  `params` = subset of
    ('for','host','proto','by') to carry (default: random non-empty subset).

    Returns dict(text, for_=hop|None, host=hop|None, proto=str|None (lower
    case, unquoted), marks, strict, form)."""
    if params is None:
        params = [p for p in ("for", "host", "proto", "by") if rng.random() < 0.6]
        if not params:
            params = [rng.choice(("for", "host", "proto"))]
    params = list(params)
    rng.shuffle(params)
    out = {"for_": None, "host": None, "proto": None, "marks": [], "strict": True}
    pairs = []
    forms = []
    for p in params:
        name = rng.choice(PARAM_SPELLINGS[p])
        if p == "for":
            f = fwd_for(i, rng.choice(FWD_FOR_FORMS))
            out["for_"] = f
            out["marks"] += f["marks"]
            out["strict"] = out["strict"] and f["strict"]
            forms.append("for:" + f["form"])
            pairs.append(name + "=" + f["val"])
        elif p == "host":
            f = fwd_host(i, rng.choice(FWD_HOST_FORMS))
            out["host"] = f
            out["marks"] += f["marks"]
            out["strict"] = out["strict"] and f["strict"]
            forms.append("host:" + f["form"])
            pairs.append(name + "=" + f["val"])
        elif p == "proto":
            v = rng.choice(FWD_PROTO_VALUES)
            out["proto"] = v.strip('"').lower()
            forms.append("proto")
            pairs.append(name + "=" + v)
        elif p == "by":
            b = m_by(i)
            out["marks"].append(b)
            forms.append("by")
            pairs.append(name + "=" + b)
    if quirks and rng.random() < 0.15:
        # extension parameter: allowed by RFC 7239, not mentioned by the docs
        s = m_secret(i)
        pairs.insert(rng.randrange(len(pairs) + 1), "secret=" + s)
        out["marks"].append(s)
        out["strict"] = False
        forms.append("ext")
    text = ";".join(pairs)
    if quirks and rng.random() < 0.12:
        q = rng.choice(("lead", "trail", "double"))
        if q == "lead":
            text = ";" + text
        elif q == "trail":
            text = text + ";"
        elif len(pairs) > 1:
            text = text.replace(";", ";;", 1)
        out["strict"] = False
        forms.append("semi-" + q)
    out["text"] = text
    out["form"] = "+".join(forms)
    return out


SEPARATORS = (", ", ",", " , ", ",  ", "\t,\t")


def join_hops(hops, rng=None):
    if rng is None:
        return ", ".join(h["text"] for h in hops)
    out = ""
    for j, h in enumerate(hops):
        if j:
            out += rng.choice(SEPARATORS) if rng.random() < 0.3 else ", "
        out += h["text"]
    return out


def xff_list(n, rng, forms=None):
    return [xff_hop(i, rng.choice(forms or XFF_FORMS)) for i in range(n)]


def xfh_list(n, rng):
    return [xfh_hop(i, rng.choice(XFH_FORMS)) for i in range(n)]


def fwd_list(n, rng, quirks=True):
    return [fwd_elem(i, rng, quirks=quirks) for i in range(n)]


XF_PROTO_OK = ("http", "https", "HTTPS", "Https", '"https"', "HTTP")
XF_PORT_OK = ("80", "443", "8080", "8443", '"8443"', "81")

# ------------------------------------------------------ malformed catalogue
# (class, kind, scope, value); scope "elem": a list element that is placed at
# a list position; "whole": the whole header value; "lines": several header
# lines of the same kind (joined by the request parser with ", ")

MALFORMED = [
    # bad quoting: unbalanced or embedded DQUOTE
    ("bad-quoting", "x-forwarded-for", "elem", '"198.51.100.77'),
    ("bad-quoting", "x-forwarded-for", "elem", '198.51.100.77"'),
    ("bad-quoting", "x-forwarded-for", "elem", '"198.51.100.77"x'),
    ("bad-quoting", "x-forwarded-for", "elem", '"[2001:db8::77]'),
    ("bad-quoting", "x-forwarded-for", "elem", '"198.51.100.77\\"'),
    ("bad-quoting", "x-forwarded-host", "elem", '"h7.example'),
    ("bad-quoting", "x-forwarded-host", "elem", 'h7.example"'),
    ("bad-quoting", "x-forwarded-host", "elem", '"h7.example"b'),
    ("bad-quoting", "x-forwarded-host", "elem", '"h7"."example"'),
    ("bad-quoting", "x-forwarded-proto", "whole", '"https'),
    ("bad-quoting", "x-forwarded-proto", "whole", 'https"'),
    ("bad-quoting", "x-forwarded-proto", "whole", '"http"s'),
    ("bad-quoting", "x-forwarded-port", "whole", '"80'),
    ("bad-quoting", "x-forwarded-port", "whole", '80"'),
    ("bad-quoting", "x-forwarded-port", "whole", '"8"0'),
    ("bad-quoting", "forwarded", "elem", 'for="198.51.100.77'),
    ("bad-quoting", "forwarded", "elem", 'for=198.51.100.77"'),
    ("bad-quoting", "forwarded", "elem", 'for="198.51.100.77"b'),
    ("bad-quoting", "forwarded", "elem", 'for="a"b"'),
    ("bad-quoting", "forwarded", "elem", 'for=198.51.100.77;host="h7.example'),
    ("bad-quoting", "forwarded", "elem", 'host=h7.example"'),
    ("bad-quoting", "forwarded", "elem", 'for=198.51.100.77;proto="https'),
    ("bad-quoting", "forwarded", "elem", 'by="_px7;for=198.51.100.77'),
    ("bad-quoting", "forwarded", "elem", 'for="198.51.100.77\\"'),
    # a forwarded-pair without "="
    ("no-equals", "forwarded", "elem", "for"),
    ("no-equals", "forwarded", "elem", "198.51.100.77"),
    ("no-equals", "forwarded", "elem", "for=198.51.100.77;host"),
    ("no-equals", "forwarded", "elem", "secret;for=198.51.100.77"),
    ("no-equals", "forwarded", "elem", "for198.51.100.77"),
    ("no-equals", "forwarded", "elem", "for=198.51.100.77;proto;host=h7.example"),
    # token or value padded with whitespace inside a pair
    ("padded", "forwarded", "elem", "for = 198.51.100.77"),
    ("padded", "forwarded", "elem", "for= 198.51.100.77"),
    ("padded", "forwarded", "elem", "for =198.51.100.77"),
    ("padded", "forwarded", "elem", "for=\t198.51.100.77"),
    ("padded", "forwarded", "elem", "for=198.51.100.77 ;host=h7.example"),
    ("padded", "forwarded", "elem", "for=198.51.100.77; host=h7.example"),
    ("padded", "forwarded", "elem", "for=198.51.100.77;host=h7.example ;proto=http"),
    ("padded", "forwarded", "elem", "host=h7.example;proto =https"),
    # several values where exactly one is required
    ("multiple-values", "x-forwarded-proto", "whole", "http, https"),
    ("multiple-values", "x-forwarded-proto", "whole", "https,https"),
    ("multiple-values", "x-forwarded-proto", "whole", "https, http, https"),
    ("multiple-values", "x-forwarded-proto", "lines", ["https", "http"]),
    ("multiple-values", "x-forwarded-port", "whole", "80, 81"),
    ("multiple-values", "x-forwarded-port", "whole", "443,8443"),
    ("multiple-values", "x-forwarded-port", "whole", "80, 80"),
    ("multiple-values", "x-forwarded-port", "lines", ["80", "81"]),
    # unsupported scheme
    ("bad-scheme", "x-forwarded-proto", "whole", "ftp"),
    ("bad-scheme", "x-forwarded-proto", "whole", "httpss"),
    ("bad-scheme", "x-forwarded-proto", "whole", "ws"),
    ("bad-scheme", "x-forwarded-proto", "whole", "h"),
    ("bad-scheme", "x-forwarded-proto", "whole", "https://"),
    ("bad-scheme", "x-forwarded-proto", "whole", '"gopher"'),
    ("bad-scheme", "x-forwarded-proto", "whole", "http:"),
    ("bad-scheme", "forwarded", "elem", "proto=ftp"),
    ("bad-scheme", "forwarded", "elem", 'proto="gopher"'),
    ("bad-scheme", "forwarded", "elem", "for=198.51.100.77;proto=httpx"),
    ("bad-scheme", "forwarded", "elem", "host=h7.example;proto=wss;for=198.51.100.77"),
    # an address whose host part is empty (port only)
    ("empty-host", "forwarded", "elem", "for=:80"),
    ("empty-host", "forwarded", "elem", 'for=":80"'),
    ("empty-host", "forwarded", "elem", 'for=":41000";host=h7.example'),
    ("empty-host", "forwarded", "elem", 'proto=https;For=":8080"'),
]
MALFORMED_CLASSES = ("bad-quoting", "no-equals", "padded", "multiple-values", "bad-scheme", "empty-host")

# --------------------------------------------------- degenerate (unclassified)
# values the property does not classify: 400 or 200 are both acceptable; they
# are never flagged unless they give a 500 / exception / left-hop taint.

DEGENERATE = {
    "x-forwarded-for": [
        "", "[", "]", "[]", '""', ":", ":80", ":8.0", "::", "[:80]", "[]:80", 'a"b', "\x80", "_", "*", ".",
        "1.2.3.4:", "1.2.3.4:x:y", "[::1", "::1]", "]:[", '"\\""', "unknown", "1.2.3.4:80:90", "[1.2.3.4]:80",
        "\xff\xfe", ":.", ".:", "[.]:1", '" "', '" :80"', '"\t"', " ", '"  "',
    ],
    "x-forwarded-host": [
        "", ":", ":80", "[", "]", "[]", "[]:80", '""', "h:", "::", 'a"b', "\x80", ".", "h7.example:", "h7.example:x",
        "[::1", "::1]", ":443", "h7.example:80:90",
    ],
    "x-forwarded-proto": ["", '""', "http,", ",", ",http", "\x80", "http\thttps", "http https"],
    "x-forwarded-port": ["", '""', "abc", "-1", "99999999", "80,", ",", "0", ":", "8 0", "\x80", "[80]"],
    "x-forwarded-by": ["", '"', "[", ":80", "a, b", '"a', "\x80"],
    "forwarded": [
        "", ";", ";;", "=", "=x", "for=", 'for=""', "host=", 'host=""', "proto=", 'proto=""', "by=", "for=[",
        "for=]", 'for="["', 'for="[]"', 'for="[]:80"', "for=:", 'for=":"', "host=:80", 'host=":"', "for=1.2.3.4:",
        'secret="x', "for=a=b", 'for=a"b', "for=\x80", 'for="a,b"', "for=_", "FOR=", "for=::1", "for=[::1",
        'for="[::1"', "for=::1]", "host=[", "host=]", 'host="[]:1"', "for=.:", "for=:.", 'for=":8.0"',
        "for=;host=;proto=", "by=:80", "for=1.2.3.4;for=:80", "for=:80;for=1.2.3.4", "host=h:;proto=http",
        'for=" "', 'for=" :80"', 'for="\t:80"', 'host=" "', 'for="  ";host=h7.example', 'by=" "',
    ],
}

# degenerate values that leave the host / address NAME empty without being the
# plain ":<port>" form in a Forwarded for= (the "empty-host" malformed class):
# the property does not say whether they count as "an empty host"; C16 reports
# their outcome in counters only (unclassified:empty-name-variant:<status>)
EMPTY_NAME_VARIANTS = (
    ":80", ":", "[]", "[]:80", ":443", ":8.0", ":.", "host=:80", 'host=":"', 'for="[]"', 'for="[]:80"', "for=:",
    'for=":"', 'for=":8.0"', "for=:.", "[:80]",
)

# ------------------------------------------------ single-byte neighbourhood

NEIGHBOUR_BASES = [
    ("x-forwarded-for", "198.51.100.10, 198.51.100.11:41007, [2001:db8::12]"),
    ("x-forwarded-for", '"[2001:db8::10]", 198.51.100.11'),
    ("x-forwarded-for", "198.51.100.10:41000"),
    ("x-forwarded-host", "h0.example, h1.example:8111"),
    ("x-forwarded-proto", "https"),
    ("x-forwarded-port", "8443"),
    ("forwarded", 'for=198.51.100.10;host=h0.example;proto=https, for="[2001:db8::11]:41007";by=_px1'),
    ("forwarded", 'For="198.51.100.10:41000";Host="h0.example:8100";Proto=http'),
    ("forwarded", "for=_hidden0, for=unknown;secret=x"),
    ("forwarded", 'host="[2001:db8::20]:8443";proto="https"'),
]

# ~40 interesting bytes; all legal in a field value (HTAB, SP, VCHAR,
# obs-text): CR, LF, NUL, DEL and the other controls would be refused by the
# request parser before the middleware runs.
ALPHABET = (
    b'"\\[]:,;= \t.-_*/@%?#()<>{}|~!$&\'+^`'
    + b"0a9AfZ"
    + bytes([0x80, 0xA0, 0xFF])
)


def legal_field_value(b):
    return all(c == 9 or c == 32 or 0x21 <= c <= 0x7E or c >= 0x80 for c in b)


def neighbourhood(value):
    """every single-byte insert / replace / delete of `value` (bytes) over
    ALPHABET; yields (op, offset, byte, mutated) without duplicates"""
    seen = {value}
    n = len(value)
    for off in range(n):
        m = value[:off] + value[off + 1 :]
        if m not in seen:
            seen.add(m)
            yield ("del", off, None, m)
    for off in range(n):
        for c in ALPHABET:
            if value[off] == c:
                continue
            m = value[:off] + bytes([c]) + value[off + 1 :]
            if m not in seen:
                seen.add(m)
                yield ("rep", off, c, m)
    for off in range(n + 1):
        for c in ALPHABET:
            m = value[:off] + bytes([c]) + value[off:]
            if m not in seen:
                seen.add(m)
                yield ("ins", off, c, m)


def neighbourhood_size(value):
    return sum(1 for _ in neighbourhood(value))


# --------------------------------------------------- values for C15 (hostile)

HOSTILE = {
    "x-forwarded-for": [
        "10.0.0.1", "127.0.0.1", "localhost", "*", "10.0.0.1, 10.0.0.1", "0.0.0.0", "::1", "[::1]:1",
        "1.1.1.1" + ", 1.1.1.1" * 200, "\xff\xfe\x80", "a" * 3000, "unknown", "10.0.0.1:50000",
    ],
    "x-forwarded-host": [
        "localhost", "10.0.0.1", "evil0.example:0", "a" * 3000, "evil0.example, " * 100 + "evil1.example",
        "\x80\xff", "[::1]:443", "orig.example:8080", "*",
    ],
    "x-forwarded-proto": ["https", "HTTPS", "http", "ftp", "javascript", "https, http", "a" * 3000, "\x80"],
    "x-forwarded-port": ["443", "0", "65536", "-1", "80, 443", "a" * 3000, "\x80", "8080"],
    "x-forwarded-by": ["10.0.0.1", "_px0", '"', "a" * 3000],
    "forwarded": [
        "for=10.0.0.1", "for=127.0.0.1;host=localhost;proto=https", "for=10.0.0.1, for=10.0.0.1", "by=10.0.0.1",
        'for="[::1]:1";host="[::1]:443";proto=https', "for=" + "a" * 3000, "for=1.1.1.1" + ", for=1.1.1.1" * 200,
        "for=\x80;host=\xff", "proto=https", "host=orig.example:8080",
    ],
}


def name_aliases(kind):
    """spellings of the header name: (label, name, reaches_environ)"""
    canon = NAME[kind]
    out = [
        ("canon", canon, True),
        ("case", canon.lower(), True),
        ("case", canon.upper(), True),
        ("case", "".join(c.upper() if j % 2 else c.lower() for j, c in enumerate(canon)), True),
    ]
    if "-" in canon:
        out.append(("underscore", canon.replace("-", "_"), False))
        out.append(("underscore", canon.replace("-", "_", 1), False))
        out.append(("underscore", canon.upper().replace("-", "_"), False))
    return out


def wellformed_value(kind, rng, n=None):
    """a well-formed marker value that changes the environ when trusted"""
    if n is None:
        n = rng.randint(1, 4)
    if kind == "x-forwarded-for":
        return join_hops(xff_list(n, rng, XFF_STRICT), rng)
    if kind == "x-forwarded-host":
        return join_hops(xfh_list(n, rng), rng)
    if kind == "x-forwarded-proto":
        return rng.choice(("https", "https", "HTTPS", '"https"', "http"))
    if kind == "x-forwarded-port":
        return rng.choice(XF_PORT_OK)
    if kind == "x-forwarded-by":
        return ", ".join(m_by(i) for i in range(n))
    if kind == "forwarded":
        elems = [fwd_elem(i, rng, params=("for", "host", "proto", "by") if i == n - 1 else None) for i in range(n)]
        return join_hops(elems, rng)
    raise ValueError(kind)


def malformed_value(kind, rng):
    cands = [m for m in MALFORMED if m[1] == kind and m[2] != "lines"]
    if not cands:
        return rng.choice(DEGENERATE[kind])
    m = rng.choice(cands)
    return m[3]


def any_value(kind, rng):
    """well-formed / malformed / degenerate / hostile / mutated, for C15"""
    r = rng.random()
    if r < 0.45:
        return "wellformed", wellformed_value(kind, rng)
    if r < 0.6:
        return "malformed", malformed_value(kind, rng)
    if r < 0.72:
        return "degenerate", rng.choice(DEGENERATE[kind])
    if r < 0.87:
        return "hostile", rng.choice(HOSTILE[kind])
    base = wellformed_value(kind, rng).encode("latin-1")
    off = rng.randrange(len(base) + 1)
    c = bytes([rng.choice(ALPHABET)])
    op = rng.choice(("ins", "rep", "del"))
    if op == "ins":
        m = base[:off] + c + base[off:]
    elif op == "rep":
        m = base[:off] + c + base[off + 1 :]
    else:
        m = base[:off] + base[off + 1 :]
    return "mutated", m.decode("latin-1")


# ------------------------------------------- harness-side helpers (C15, C16)


def instrument(h):
    """Wrap the callable the server stored (the proxy-headers middleware around
    the harness trampoline, or the bare trampoline when no middleware is
    installed) so that an exception leaving it is recorded with its type and
    the innermost waitress frame.  Idempotent per server."""
    import os

    srv = h.server
    log = getattr(srv, "_vf_proxy_log", None)
    if log is not None:
        return log
    log = []
    inner = srv.application

    def watched(environ, start_response):
        try:
            return inner(environ, start_response)
        except BaseException as e:
            frames = []
            tb = e.__traceback__
            while tb is not None:
                co = tb.tb_frame.f_code
                frames.append((co.co_filename, co.co_name, tb.tb_lineno))
                tb = tb.tb_next
            func = "?"
            for fn, name, _ln in frames:
                if os.sep + "waitress" + os.sep in fn:
                    func = name
            log.append(
                {
                    "type": type(e).__name__,
                    "func": func,
                    "msg": str(e)[:120],
                    "where": ["%s:%s:%d" % (fn.rsplit("/", 1)[-1], name, ln) for fn, name, ln in frames[-4:]],
                }
            )
            raise

    srv.application = watched
    srv._vf_proxy_log = log
    return log


class Obs:
    __slots__ = ("status", "env", "body", "crashes", "exceptions", "werr", "nresp", "ncalls", "hung", "reply")


def observe(h, req, addr, method="GET"):
    """Run one request on harness h from peer addr; return an Obs."""
    from vf.ref.response import parse_responses

    log = instrument(h)
    del log[:]
    res = h.run_recorded([req], addr=(addr[0], addr[1]))
    o = Obs()
    resps, werr, _left = parse_responses(res.wire, [method, None], eof=res.closed)
    final = [r for r in resps if not r.get("interim")]
    o.nresp = len(final)
    o.status = final[0]["status"] if final else None
    o.reply = final[0]["body"][:120] if final else b""
    o.werr = werr
    o.ncalls = len(res.calls)
    o.env = res.calls[0].environ if res.calls else None
    o.body = res.calls[0].body if res.calls else None
    o.crashes = list(log)
    o.exceptions = list(res.exceptions)
    o.hung = res.hung
    return o


def plain(env):
    """the comparable part of an environ: str / tuple / bool / None values"""
    return {k: v for k, v in env.items() if isinstance(v, (str, tuple, bool)) or v is None}
