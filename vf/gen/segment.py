"""Segmentations of a byte stream: a segmentation is a sorted tuple of cut
offsets (0 < c < n); apply() turns it into the list of segments."""

import itertools


def apply(data, cuts):
    out = []
    prev = 0
    for c in cuts:
        out.append(data[prev:c])
        prev = c
    out.append(data[prev:])
    return out


def bytewise(n):
    return tuple(range(1, n))


def single_cuts(n):
    for c in range(1, n):
        yield (c,)


def pair_cuts(n):
    for a in range(1, n):
        for b in range(a + 1, n):
            yield (a, b)


def all_segmentations(n, lo=0):
    """all 2^(n-lo-1) subsets of cut positions in (lo, n); when lo > 0 the
    prefix data[:lo] arrives in one piece together with nothing else"""
    pos = list(range(lo + 1, n))
    for mask in range(1 << len(pos)):
        cuts = tuple(p for i, p in enumerate(pos) if mask >> i & 1)
        if lo:
            cuts = (lo,) + cuts
        yield cuts


def nth_segmentation(n, lo, mask):
    pos = list(range(lo + 1, n))
    cuts = tuple(p for i, p in enumerate(pos) if mask >> i & 1)
    if lo:
        cuts = (lo,) + cuts
    return cuts


def structural(data):
    """cuts at every CR/LF boundary +-1 and around ':' and ';' in control lines"""
    n = len(data)
    pts = set()
    for i, c in enumerate(data):
        if c in (0x0D, 0x0A):
            for d in (-1, 0, 1, 2):
                if 0 < i + d < n:
                    pts.add(i + d)
    return sorted(pts)


def random_cuts(rng, n, k):
    if n <= 1:
        return ()
    k = min(k, n - 1)
    return tuple(sorted(rng.sample(range(1, n), k)))
