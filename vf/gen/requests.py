"""Grammar-based generator of HTTP/1.x request streams with derivations, and
single-token mutators (DESIGN.md 2.6).

A message is a list of tokens [kind, bytes].  Kinds:
  method sp target version eol(request line)  hname colon hows hvalue heol
  clvalue tevalue connvalue  (special hvalue kinds)
  headend  body  csize cext ceol cdata cdeol  lastsize  tname tvalue teol  bodyend
"""

import random

METHODS = [b"GET", b"POST", b"PUT", b"HEAD", b"OPTIONS", b"DELETE", b"PATCH", b"M-SEARCH", b"X!"]
TARGETS = [
    b"/",
    b"/a",
    b"/a/b/c",
    b"/a?x=1&y=2",
    b"/a%20b",
    b"/a%zzb",
    b"/%41%42",
    b"//x//y",
    b"/a;p=1",
    b"/?",
    b"/a#frag",
    b"http://example.com/p?q=1",
    b"http://example.com",
    b"https://h:8443/x",
    b"*",
    b"example.com:443",
    b"/" + b"x" * 40,
]
HNAMES = [
    b"Host",
    b"User-Agent",
    b"Accept",
    b"X-Foo",
    b"X-Foo",
    b"X_Foo",
    b"x-foo",
    b"Cookie",
    b"Server-Name",
    b"Remote-Addr",
    b"Content-Type",
    b"A",
    b"X-Bar-Baz",
    b"Wsgi.Input",
    b"Content_Length",
    b"Transfer_Encoding",
    b"X-Custom!#$%&'*+.^`|~",
]
HVALUES = [
    b"x",
    b"example.com",
    b"a b",
    b"a,b",
    b"a, b",
    b"text/plain",
    b"v\xe9\xff",
    b"",
    b"1",
    b"chunked",
    b"5",
    b'"q s"',
    b"a\tb",
    b"a=b; c=d",
]
VERSIONS = [b"HTTP/1.1"] * 14 + [b"HTTP/1.0"] * 4 + [b"", b"HTTP/2.0", b"HTTP/1.2", b"HTTP/0.9"]
TE_SPELLINGS = [
    b"chunked",
    b"Chunked",
    b"CHUNKED",
    b" chunked",
    b"chunked ",
    b"\tchunked\t",
    b"chunked\x0b",
    b"\x0bchunked",
    b"chunked\x0c",
    b"chunked\x85",
    b"\xa0chunked",
    b"chunked\x00",
    b"chunked;q=1",
    b"chunked; x",
    b"identity",
    b"gzip, chunked",
    b"chunked, gzip",
    b"chunked, chunked",
    b"chunked,chunked",
    b",chunked",
    b"chunked,",
    b", chunked ,",
    b"",
    b",",
    b"gzip",
    b"chunke",
    b"chunkedd",
    b"x-chunked",
    b"chun ked",
    b'"chunked"',
    b"chunked, identity",
    b"identity, chunked",
]
EXT_OK = [b"", b"", b"", b";a", b";a=b", b';a="q"', b";a;b=c", b';a="q\\"x"', b";foo=bar;baz"]
BODY_ALPHA = b"abcdefghijklmnopqrstuvwxyz0123456789\r\n :"


def T(kind, b):
    return [kind, b]


def gen_message(rng, framing=None, version=None, nfields=None, expect=False, conn=None,
                fold=False, trailers=None, big=False):
    toks = []
    method = rng.choice(METHODS)
    target = rng.choice(TARGETS)
    if version is None:
        version = rng.choice(VERSIONS)
    if framing is None:
        framing = rng.choice(["none", "none", "cl", "cl", "chunked", "chunked"])
    toks.append(T("method", method))
    toks.append(T("sp", b" "))
    toks.append(T("target", target))
    if version:
        toks.append(T("sp", b" "))
        toks.append(T("version", version))
    toks.append(T("eol", b"\r\n"))

    def field(name, value, vkind="hvalue"):
        toks.append(T("hname", name))
        toks.append(T("colon", b":"))
        toks.append(T("hows", rng.choice([b" ", b" ", b"", b"\t", b"  "])))
        toks.append(T(vkind, value))
        toks.append(T("hows", rng.choice([b"", b"", b" ", b"\t"])))
        toks.append(T("heol", b"\r\n"))

    fields = []
    if nfields is None:
        nfields = rng.choice([0, 1, 2, 2, 3, 4, 6])
    used_host = False
    used_ctype = False
    for _ in range(nfields):
        name = rng.choice(HNAMES)
        if name.lower() == b"host":
            if used_host:
                name = b"X-Host2"
            used_host = True
        if name.lower() == b"content-type":
            if used_ctype:
                name = b"X-Ctype2"
            used_ctype = True
        fields.append((name, rng.choice(HVALUES), "hvalue"))
    if conn is None:
        conn = rng.choice([None, None, None, b"close", b"keep-alive", b"Keep-Alive", b"Close", b"close, x", b"x"])
    if conn:
        fields.append((b"Connection", conn, "connvalue"))
    if expect:
        fields.append((b"Expect", b"100-continue", "hvalue"))
    body = b""
    chunks = []
    if framing in ("cl", "chunked"):
        if big:
            blen = rng.choice([9000, 20000, 70000])
        else:
            blen = rng.choice([0, 1, 2, 5, 5, 11, 30, 100])
        body = bytes(rng.choice(BODY_ALPHA) for _ in range(blen))
    if framing == "cl":
        fields.append((rng.choice([b"Content-Length", b"content-length", b"CONTENT-LENGTH"]), str(len(body)).encode(), "clvalue"))
    elif framing == "chunked":
        fields.append((rng.choice([b"Transfer-Encoding", b"transfer-encoding"]), b"chunked", "tevalue"))
        # split the body into chunks
        rest = body
        while rest:
            k = rng.randint(1, max(1, len(rest)))
            if rng.random() < 0.4:
                k = len(rest)
            chunks.append(rest[:k])
            rest = rest[k:]
    rng.shuffle(fields)
    for i, (name, value, vkind) in enumerate(fields):
        field(name, value, vkind)
        if fold and i == 0 and value:
            # turn the last heol into an obs-fold continuation
            toks.pop()  # heol
            toks.append(T("heol", b"\r\n"))
            toks.append(T("fold", rng.choice([b" ", b"\t", b"  "]) + b"more"))
            toks.append(T("heol", b"\r\n"))
    toks.append(T("headend", b"\r\n"))
    if framing == "cl":
        if body:
            toks.append(T("body", body))
    elif framing == "chunked":
        for c in chunks:
            size = (b"%x" if rng.random() < 0.7 else b"%X") % len(c)
            if rng.random() < 0.15:
                size = b"0" * rng.randint(1, 3) + size
            toks.append(T("csize", size))
            ext = rng.choice(EXT_OK)
            if ext:
                toks.append(T("cext", ext))
            toks.append(T("ceol", b"\r\n"))
            toks.append(T("cdata", c))
            toks.append(T("cdeol", b"\r\n"))
        toks.append(T("lastsize", rng.choice([b"0", b"0", b"00", b"000"])))
        ext = rng.choice(EXT_OK)
        if ext:
            toks.append(T("cext", ext))
        toks.append(T("ceol", b"\r\n"))
        if trailers is None:
            trailers = rng.choice([0, 0, 0, 1, 2])
        for _ in range(trailers):
            toks.append(T("tname", rng.choice([b"X-Trailer", b"Checksum", b"A"])))
            toks.append(T("colon", b":"))
            toks.append(T("hows", rng.choice([b" ", b""])))
            toks.append(T("tvalue", rng.choice([b"v", b"a b", b"", b"\xfe"])))
            toks.append(T("teol", b"\r\n"))
        toks.append(T("bodyend", b"\r\n"))
    return toks


def render(toks):
    return b"".join(t[1] for t in toks)


def skeleton(toks):
    """coarse shape used for distinctness: framing + version + counts"""
    kinds = [t[0] for t in toks]
    ver = b""
    for t in toks:
        if t[0] == "version":
            ver = t[1]
    framing = "chunked" if "lastsize" in kinds else ("cl" if "clvalue" in kinds else "none")
    return "%s/%s/f%d/c%d/t%d%s" % (
        framing,
        ver.decode("latin-1"),
        min(kinds.count("hname") - kinds.count("tname"), 5),
        min(kinds.count("csize"), 3),
        min(kinds.count("tname"), 2),
        "/fold" if "fold" in kinds else "",
    )


# ---------------------------------------------------------------- mutators


def num_mutations(v):
    n = v or b"5"
    return [
        ("plus", b"+" + n),
        ("minus", b"-" + n),
        ("0x", b"0x" + n),
        ("underscore", n[:1] + b"_" + (n[1:] or b"0")),
        ("lead-sp", b" " + n),
        ("trail-sp", n + b" "),
        ("trail-lf", n + b"\n"),
        ("trail-cr", n + b"\r"),
        ("trail-tab", n + b"\t"),
        ("lead-tab", b"\t" + n),
        ("lead-zero", b"0" + n),
        ("list-same", n + b"," + n),
        ("list-same-sp", n + b", " + n),
        ("list-diff", n + b", " + n + b"1"),
        ("semi", n + b";"),
        ("empty", b""),
        ("many-digits", n + b"0" * 30),
        ("5000-digits", b"1" * 5000),
        ("superscript", b"\xb2"),
        ("arabic-indic", "٣".encode("utf-8")),
        ("fullwidth", "５".encode("utf-8")),
        ("dot", n + b".0"),
        ("exp", n + b"e1"),
        ("vt", n + b"\x0b"),
        ("ff", n + b"\x0c"),
        ("nul", n + b"\x00"),
        ("lead-nul", b"\x00" + n),
        ("lead-lf", b"\n" + n),
        ("inner-sp", n[:1] + b" " + (n[1:] or b"0")),
        ("hexletter", n + b"a"),
        ("g", n + b"g"),
        ("inc", str(int(n, 16) + 1).encode() if all(c in b"0123456789abcdefABCDEF" for c in n) and len(n) < 9 else n + b"1"),
        ("dec", str(max(0, int(n, 16) - 1)).encode() if all(c in b"0123456789abcdefABCDEF" for c in n) and len(n) < 9 else b"0"),
    ]


EOL_MUTATIONS = [
    ("lf", b"\n"),
    ("cr", b"\r"),
    ("crcrlf", b"\r\r\n"),
    ("lfcr", b"\n\r"),
    ("doubled", b"\r\n\r\n"),
    ("missing", b""),
    ("crlf-sp", b"\r\n "),
    ("sp-crlf", b" \r\n"),
    ("lflf", b"\n\n"),
    ("nul-crlf", b"\x00\r\n"),
    ("vt", b"\x0b"),
    ("nel", b"\x85"),
    ("x-lf", b"X\n"),
    ("nul-lf", b"\x00\n"),
]

NAME_MUTATIONS = [
    ("sp-before-colon", lambda n: n + b" "),
    ("tab-before-colon", lambda n: n + b"\t"),
    ("lead-sp", lambda n: b" " + n),
    ("empty", lambda n: b""),
    ("paren", lambda n: n + b"("),
    ("nul", lambda n: n + b"\x00"),
    ("high", lambda n: n + b"\xe9"),
    ("underscore-alias", lambda n: n.replace(b"-", b"_")),
    ("dash-alias", lambda n: n.replace(b"_", b"-")),
    ("upper", lambda n: n.upper()),
    ("lower", lambda n: n.lower()),
    ("cr-in-name", lambda n: n[:1] + b"\r" + n[1:]),
    ("lf-in-name", lambda n: n[:1] + b"\n" + n[1:]),
    ("colon-in-name", lambda n: n[:1] + b":" + n[1:]),
    ("inner-sp", lambda n: n[:1] + b" " + n[1:]),
]

VALUE_MUTATIONS = [
    ("lf", lambda v: v + b"\nX: y"),
    ("cr", lambda v: v + b"\rX: y"),
    ("nul", lambda v: v + b"\x00"),
    ("vt", lambda v: b"\x0b" + v),
    ("del", lambda v: v + b"\x7f"),
    ("high", lambda v: v + b"\xff"),
    ("ctl", lambda v: v + b"\x01"),
    ("lead-vt-sp", lambda v: b" \x0b" + v),
]

CONN_VALUES = [b"close", b"Close", b"CLOSE", b"keep-alive", b"Keep-Alive", b"close, te", b"te, close",
               b"", b" close ", b"close\x0b", b"closed", b"keep-alive, close", b"x"]

CHUNK_EXT_MUT = [
    b";", b";;", b";a=", b";=b", b"; a", b";a =b", b";a= b", b';a="', b';a="x', b';a="\x00"', b';a="\\', b";a\n",
    b";a\r", b";a\x0b", b" ;a", b";a;", b';a="b"c', b";\xe9", b';a="\xe9"', b";a=b=c", b'; a="b"', b";a\x00",
    b';a="\\\x7f"', b';a="\x7f"', b";a=\"b\"\n",
]

TARGET_MUT = [
    b"", b"/a b", b"/a\tb", b"/\x00", b"/\xff", b"/a\rb", b"/a\nb", b" /", b"/ ", b"http://[::1/", b"http://[x]/", b"/\x7f", b"//[", b"h\xfftp://x/",
]
METHOD_MUT = [b"", b"get", b"GE T", b"G\x00T", b"GET\t", b"\tGET", b"G(T", b"GET:", b"\x0bGET", b"\rGET", b"\nGET", b" GET", b"G\xe9T", b"Get"]
VERSION_MUT = [b"HTTP/1.1 ", b"HTTP/1.1\t", b"HTTP/1.1\x0b", b"HTTP/1.1\x0c", b"http/1.1", b"HTTP/11", b"HTTP/1.10", b"HTTP/1.", b"HTTP/.1", b"HTTP/1,1",
               b"HTTP/1.1\r", b"HTTP/\xb2.1", b"HTTP/1.1 x", b"XHTTP/1.1", b"HTTP/1.1\x00", b"HTTP/+1.1", b"HTTP/1.1\n"]


def mutations_for(toks, i):
    """All single-token mutations applicable to token i -> list of
    (mutator-name, new token list)"""
    kind, b = toks[i]
    out = []

    def rep(name, nb):
        nt = [list(t) for t in toks]
        nt[i][1] = nb
        out.append((kind + ":" + name, nt))

    if kind in ("clvalue", "csize", "lastsize"):
        for name, nb in num_mutations(b):
            rep(name, nb)
    if kind in ("eol", "heol", "headend", "ceol", "cdeol", "teol", "bodyend"):
        for name, nb in EOL_MUTATIONS:
            rep(name, nb)
    if kind in ("hname", "tname"):
        for name, f in NAME_MUTATIONS:
            nb = f(b)
            if nb != b:
                rep(name, nb)
    if kind in ("hvalue", "tvalue", "fold"):
        for name, f in VALUE_MUTATIONS:
            rep(name, f(b))
    if kind == "tevalue":
        for s in TE_SPELLINGS:
            if s != b:
                rep("spell:" + s.decode("latin-1"), s)
    if kind == "connvalue":
        for s in CONN_VALUES:
            if s != b:
                rep("conn:" + s.decode("latin-1"), s)
    if kind == "cext":
        for s in CHUNK_EXT_MUT:
            rep("ext:" + s.decode("latin-1"), s)
    if kind in ("csize", "lastsize") and (i + 1 >= len(toks) or toks[i + 1][0] != "cext"):
        for s in CHUNK_EXT_MUT[:12]:
            rep("addext:" + s.decode("latin-1"), b + s)
    if kind == "target":
        for s in TARGET_MUT:
            rep("target:" + s.decode("latin-1"), s)
    if kind == "method":
        for s in METHOD_MUT:
            rep("method:" + s.decode("latin-1"), s)
    if kind == "version":
        for s in VERSION_MUT:
            rep("version:" + s.decode("latin-1"), s)
    if kind == "sp":
        for name, nb in (("two", b"  "), ("tab", b"\t"), ("none", b""), ("vt", b"\x0b"), ("nbsp", b"\xa0")):
            rep(name, nb)
    if kind == "colon":
        for name, nb in (("none", b""), ("sp-colon", b" :"), ("double", b"::"), ("eq", b"=")):
            rep(name, nb)
    if kind == "hows":
        for name, nb in (("vt", b"\x0b"), ("ff", b"\x0c"), ("nbsp", b"\xa0"), ("nul", b"\x00"), ("cr", b"\r"), ("lf", b"\n")):
            rep(name, nb)
    if kind in ("cdata", "body") and b:
        rep("shorter", b[:-1])
        rep("longer", b + b"Z")
    # structural: duplicate or list-join framing fields
    if kind == "clvalue":
        # find the field's token range: hname colon hows clvalue hows heol
        j = i - 3
        if j >= 0 and toks[j][0] == "hname":
            fld = [list(t) for t in toks[j : i + 3]]
            for name, val in (("dup-same", b), ("dup-diff", b + b"0"), ("dup-zero", b"0")):
                nf = [list(t) for t in fld]
                nf[3][1] = val
                nt = [list(t) for t in toks]
                nt[i + 3 : i + 3] = nf
                out.append((kind + ":" + name, nt))
            nf = [list(t) for t in fld]
            nf[0][1] = b"Transfer-Encoding"
            nf[3] = ["tevalue", b"chunked"]
            nt = [list(t) for t in toks]
            nt[i + 3 : i + 3] = nf
            out.append((kind + ":add-te", nt))
            nf = [list(t) for t in fld]
            nf[0][1] = b"Content_Length"
            nf[3][1] = b + b"7"
            nt = [list(t) for t in toks]
            nt[j:j] = nf
            out.append((kind + ":underscore-shadow", nt))
    if kind == "tevalue":
        j = i - 3
        if j >= 0 and toks[j][0] == "hname":
            fld = [list(t) for t in toks[j : i + 3]]
            for name, val in (("dup-te", b"chunked"), ("dup-te-gzip", b"gzip"), ("dup-te-empty", b"")):
                nf = [list(t) for t in fld]
                nf[3][1] = val
                nt = [list(t) for t in toks]
                nt[i + 3 : i + 3] = nf
                out.append((kind + ":" + name, nt))
            for name, val in (("add-cl", b"5"), ("add-cl-0", b"0"), ("add-cl-bad", b"x")):
                nf = [list(t) for t in fld]
                nf[0][1] = b"Content-Length"
                nf[3] = ["clvalue", val]
                nt = [list(t) for t in toks]
                nt[i + 3 : i + 3] = nf
                out.append((kind + ":" + name, nt))
    return out


def random_stream(rng, nmsgs=None, **kw):
    if nmsgs is None:
        nmsgs = rng.choice([1, 1, 2, 2, 3, 4])
    msgs = [gen_message(rng, **kw) for _ in range(nmsgs)]
    return msgs


FOLLOWUP = b"GET /followup HTTP/1.1\r\nHost: f\r\n\r\n"

BASE_MESSAGES = [
    b"GET / HTTP/1.1\r\nHost: a\r\n\r\n",
    b"POST /p HTTP/1.1\r\nContent-Length: 3\r\n\r\nabc",
    b"POST /p HTTP/1.1\r\nTransfer-Encoding: chunked\r\n\r\n3\r\nabc\r\n0\r\n\r\n",
    b"POST /p HTTP/1.1\r\nTransfer-Encoding: chunked\r\n\r\n2;a=b\r\nab\r\n0\r\nT: v\r\n\r\n",
    b"POST /p HTTP/1.0\r\nContent-Length: 2\r\nConnection: keep-alive\r\n\r\nab",
    b"GET /a%41?q HTTP/1.1\r\nX-A: b\r\n c\r\n\r\n",
    b"PUT /x HTTP/1.1\r\nContent-Length: 1\r\nTransfer-Encoding: chunked\r\n\r\n1\r\nZ\r\n0\r\n\r\n",
    b"GET /\r\n\r\n",
]
