"""Application behaviour DSL (DESIGN.md 2.5).

A *program* is plain data (JSON-able); `make_app` interprets programs as a WSGI
callable that reports every step to a log, and `intended` computes from the
program alone what an RFC-compliant client must see.

program = {
  "status": "200 OK",
  "headers": [[name, value], ...],          application headers (not Content-Length)
  "cl": None | int,                          declared Content-Length ("cl_name": spelling of the header name)
  "sr": "call" | "next" | "never",           when start_response is called
  "steps": [[op, arg], ...]                  op in write / yield / raise / wait / set / sleep
  "ret": "list" | "tuple" | "gen" | "iterlen" | "fw_seek" | "fw_noseek" | "fw_seek_noclose"
  "fw": {"content": latin-1 str, "pos": int, "block": int, "real": bool (a file of the operating system)}   for the fw_* kinds
  "close": "none" | "ok" | "raise"           close() on the returned iterable
  "exc": "Exception" | "OSError" | "BaseException"   class used by raise steps
  "first": {"status", "headers", "cl"}       optional: a first start_response call that is then replaced
                                             (second call with exc_info) before any output
}
Bytes are stored as latin-1 str.
"""

import io

from vf.core import b2s, s2b


class AppError(Exception):
    pass


class AppOSError(OSError):
    pass


class AppBaseError(BaseException):
    pass


EXC = {"Exception": AppError, "OSError": AppOSError, "BaseException": AppBaseError,
       "ValueError": ValueError, "SystemExit": SystemExit, "KeyError": KeyError,
       "ConnectionRefusedError": ConnectionRefusedError, "BrokenPipeError": BrokenPipeError,
       "TimeoutError": TimeoutError, "ConnectionResetError": ConnectionResetError}


def make_exc(name, marker):
    cls = EXC[name]
    if issubclass(cls, OSError):
        return cls(5, "app-failure-" + marker)
    return cls("app-failure-" + marker)


class Log:
    """Event log shared by all invocations of one harness run."""

    def __init__(self):
        self.events = []
        self.calls = 0
        # references to the files handed to wsgi.file_wrapper: without them
        # CPython's reference counting would close a dropped file by itself
        # and an omitted explicit close() would be invisible
        self.keep = []

    def add(self, *ev):
        self.events.append(ev)

    def count(self, kind, rid=None):
        return sum(1 for e in self.events if e[0] == kind and (rid is None or e[1] == rid))


class RecFile(io.BytesIO):
    """seekable file handed to wsgi.file_wrapper; records close()"""

    def __init__(self, data, log, rid, close_raises=False):
        super().__init__(data)
        self._log = log
        self._rid = rid
        self._close_raises = close_raises

    def close(self):
        self._log.add("file-close", self._rid)
        if self._close_raises:
            # a file object whose close() fails (the call itself is what counts)
            raise OSError(5, "app-failure-close-%s" % (self._rid,))
        super().close()


class RealRecFile:
    """seekable file of the operating system (it has a descriptor: fstat() and sendfile() apply); records close()"""

    def __init__(self, data, log, rid):
        import tempfile

        self._f = tempfile.TemporaryFile()
        self._f.write(data)
        self._f.flush()
        self._f.seek(0)
        self._log = log
        self._rid = rid

    def fileno(self):
        return self._f.fileno()

    def seekable(self):
        return True

    def seek(self, *a):
        return self._f.seek(*a)

    def tell(self):
        return self._f.tell()

    def read(self, n=-1):
        return self._f.read(n)

    def close(self):
        self._log.add("file-close", self._rid)
        self._f.close()


class NoSeekFile:
    def __init__(self, data, log, rid, closable=True):
        self._b = io.BytesIO(data)
        self._log = log
        self._rid = rid
        if closable:
            self.close = self._close

    def read(self, n=-1):
        return self._b.read(n)

    def _close(self):
        self._log.add("file-close", self._rid)


class Body:
    """The iterable returned by a program (for the non-file kinds)."""

    def __init__(self, run, lazy_steps, with_len=None, close_mode="ok"):
        self.run = run
        self.steps = list(lazy_steps)
        self.i = 0
        self.closed = 0
        if with_len is not None:
            self._len = with_len
        self.close_mode = close_mode
        if close_mode != "none":
            self.close = self._close

    def __iter__(self):
        return self

    def __next__(self):
        run = self.run
        if self.i == 0 and run.prog.get("sr") == "next":
            run.call_start_response()
        while self.i < len(self.steps):
            op, arg = self.steps[self.i]
            self.i += 1
            r = run.do_step(op, arg, lazy=True)
            if r is not None:
                return r
        raise StopIteration

    def _close(self):
        self.run.log.add("iter-close", self.run.rid)
        if self.close_mode == "raise":
            raise make_exc(self.run.prog.get("exc", "Exception"), "close-%s" % (self.run.rid,))


class BodyWithLen(Body):
    def __len__(self):
        if self.run.prog.get("len_raises"):
            # an iterable that has __len__ but cannot answer it (a delegating proxy around a generator)
            self.run.log.add("len-raised", self.run.rid)
            raise TypeError("object of type 'generator' has no len() [app-failure-len-%s]" % (self.run.rid,))
        return self._len


class Run:
    """One invocation of a program."""

    def __init__(self, prog, environ, start_response, log, rid, world=None, events=None):
        self.prog = prog
        self.environ = environ
        self.start_response = start_response
        self.log = log
        self.rid = rid
        self.write = None
        self.world = world
        self.sim_events = events or {}

    def call_start_response(self):
        p = self.prog
        headers = [(k, v) for k, v in p.get("headers", [])]
        if p.get("cl") is not None:
            headers.append((p.get("cl_name", "Content-Length"), str(p["cl"])))
        self.log.add("start_response", self.rid)
        first = p.get("first")
        if first:
            # the application starts one response, hits an error of its own before any output
            # and replaces the response (PEP 3333: second call with exc_info)
            h1 = [(k, v) for k, v in first.get("headers", [])]
            if first.get("cl") is not None:
                h1.append(("Content-Length", str(first["cl"])))
            self.start_response(first.get("status", "200 OK"), h1)
            try:
                raise AppError("replaced-before-output")
            except AppError:
                import sys

                self.write = self.start_response(p.get("status", "200 OK"), headers, sys.exc_info())
            return
        self.write = self.start_response(p.get("status", "200 OK"), headers)

    def do_step(self, op, arg, lazy):
        log = self.log
        if op == "write":
            log.add("write", self.rid, len(arg))
            self.write(s2b(arg))
            return None
        if op == "yield":
            log.add("yield", self.rid, len(arg))
            return s2b(arg)
        if op == "raise":
            log.add("raise", self.rid, arg)
            raise make_exc(self.prog.get("exc", "Exception"), "%s-%s" % (self.rid, arg))
        if op == "wait":
            ev = self.sim_events.get(arg)
            log.add("wait", self.rid, arg)
            if ev is not None:
                ev.wait()
            return None
        if op == "set":
            ev = self.sim_events.get(arg)
            if ev is not None:
                ev.set()
            return None
        if op == "sleep":
            if self.world is not None:
                self.world.sleep(arg)
            return None
        if op == "check-disconnect":
            f = self.environ.get("waitress.client_disconnected")
            log.add("client-disconnected?", self.rid, bool(f and f()))
            return None
        raise ValueError(op)

    def execute(self):
        p = self.prog
        ret = p.get("ret", "list")
        steps = p.get("steps", [])
        self.log.add("enter", self.rid)
        try:
            if p.get("sr", "call") == "call":
                self.call_start_response()
            if ret in ("list", "tuple"):
                chunks = []
                for op, arg in steps:
                    r = self.do_step(op, arg, lazy=False)
                    if r is not None:
                        chunks.append(r)
                self.log.add("return", self.rid)
                return chunks if ret == "list" else tuple(chunks)
            if ret in ("gen", "iterlen"):
                eager = []
                lazy = list(steps)
                # write steps that precede the first yield run at call time
                while lazy and lazy[0][0] in ("write",) and p.get("sr", "call") == "call":
                    eager.append(lazy.pop(0))
                for op, arg in eager:
                    self.do_step(op, arg, lazy=False)
                self.log.add("return", self.rid)
                if ret == "iterlen":
                    n = sum(1 for s in lazy if s[0] == "yield")
                    return BodyWithLen(self, lazy, with_len=n, close_mode=p.get("close", "ok"))
                return Body(self, lazy, close_mode=p.get("close", "ok"))
            if ret.startswith("fw_"):
                for op, arg in steps:
                    if op != "yield":
                        self.do_step(op, arg, lazy=False)
                fw = p.get("fw", {})
                data = s2b(fw.get("content", ""))
                if ret == "fw_seek" and fw.get("real"):
                    f = RealRecFile(data, self.log, self.rid)
                    f.seek(fw.get("pos", 0))
                elif ret == "fw_seek":
                    f = RecFile(data, self.log, self.rid, close_raises=bool(fw.get("close_raises")))
                    f.seek(fw.get("pos", 0))
                elif ret == "fw_noseek":
                    f = NoSeekFile(data, self.log, self.rid)
                    f.read(fw.get("pos", 0))
                else:
                    f = NoSeekFile(data, self.log, self.rid, closable=False)
                    f.read(fw.get("pos", 0))
                self.log.keep.append(f)
                self.log.add("return", self.rid)
                wrapper = self.environ["wsgi.file_wrapper"]
                if "block" in fw:
                    return wrapper(f, fw["block"])
                return wrapper(f)
            raise ValueError(ret)
        except BaseException:
            self.log.add("raised-in-call", self.rid)
            raise


def make_app(programs, log, world=None, events=None, rid_of=None):
    """programs: callable (environ, n) -> program, or a list indexed by call number"""

    def app(environ, start_response):
        n = log.calls
        log.calls += 1
        prog = programs(environ, n) if callable(programs) else programs[min(n, len(programs) - 1)]
        rid = rid_of(environ, n) if rid_of else n
        return Run(prog, environ, start_response, log, rid, world, events).execute()

    return app


# ------------------------------------------------------------------ oracle side


def body_bearing(status, method):
    code = status[:3]
    return not (method == "HEAD" or code.startswith("1") or code in ("204", "304"))


def intended(prog, method="GET"):
    """What the program means, independent of the server.  Returns a dict:
      status, headers, cl (declared), body_bearing,
      delivered = bytes handed to the server (write() calls and chunks actually
                  iterated) in order, up to a failure if any,
      fail      = None | "no-output" | "mid-output"  (exception raised by the app;
                  "no-output": before anything was handed over),
      single    = True if the server can know the length up front (list/tuple
                  of one chunk, iterable with len()==1)
    """
    p = prog
    ret = p.get("ret", "list")
    steps = p.get("steps", [])
    sr = p.get("sr", "call")
    delivered = bytearray()
    output_began = False
    fail = None
    nyield = sum(1 for op, _ in steps if op == "yield")
    single = ret in ("list", "tuple", "iterlen") and nyield == 1
    if ret.startswith("fw_"):
        fw = p.get("fw", {})
        content = s2b(fw.get("content", ""))[fw.get("pos", 0):]
        for op, arg in steps:
            if op == "write":
                delivered += s2b(arg)
                output_began = True
            elif op == "raise":
                fail = "mid-output" if output_began else "no-output"
                break
        if fail is None:
            delivered += content
        single = False
    elif ret in ("list", "tuple"):
        pending = bytearray()
        for op, arg in steps:
            if op == "write":
                if sr != "call":
                    fail = "no-output"  # write without start_response
                    break
                delivered += s2b(arg)
                output_began = True
            elif op == "yield":
                pending += s2b(arg)
            elif op == "raise":
                fail = "mid-output" if output_began else "no-output"
                break
        if fail is None:
            if sr == "never":
                # body iterated without start_response: the server fails when
                # it first has to write (non-empty chunk) or at finish
                fail = "no-output"
            else:
                delivered += pending
    else:  # gen / iterlen
        started = sr == "call"
        for op, arg in steps:
            if sr == "next":
                started = True
            if op == "write":
                if not started:
                    fail = "no-output"
                    break
                delivered += s2b(arg)
                output_began = True
            elif op == "yield":
                if not started:
                    fail = "no-output"
                    break
                if arg:
                    delivered += s2b(arg)
                    output_began = True
            elif op == "raise":
                fail = "mid-output" if output_began else "no-output"
                break
        if fail is None and sr == "never":
            fail = "no-output"
    return {
        "status": p.get("status", "200 OK"),
        "headers": [tuple(h) for h in p.get("headers", [])],
        "cl": p.get("cl"),
        "delivered": bytes(delivered),
        "fail": fail,
        "single": single,
        "body_bearing": body_bearing(p.get("status", "200 OK"), method),
    }


# --------------------------------------------------- self-identifying payloads


def ident_payload(cid, idx, nbytes):
    """payload whose every 8-byte block names (connection, request, offset)"""
    out = bytearray()
    k = 0
    while len(out) < nbytes:
        out += b"%01x%02x%04x|" % (cid & 0xF, idx & 0xFF, k & 0xFFFF)
        k += 1
    return bytes(out[:nbytes])


def check_ident_payload(data, cid, idx):
    """returns None if data is exactly ident_payload(cid, idx, len(data)), else a description"""
    want = ident_payload(cid, idx, len(data))
    if data == want:
        return None
    for i in range(0, len(data), 8):
        if data[i : i + 8] != want[i : i + 8]:
            return f"block {i // 8} at offset {i}: got {bytes(data[i:i+8])!r} want {want[i:i+8]!r}"
    return "length"
