"""SyncHarness: the real TcpWSGIServer / HTTPChannel / parser / tasks driven
single-threaded over a scripted fake socket (DESIGN.md 2.1).

One legal schedule of the real system: the worker always runs to completion
between two I/O events.
"""

import collections
import errno
import socket
import sys

from vf import core

core.use_waitress()

from waitress import wasyncore  # noqa: E402
from waitress.adjustments import Adjustments  # noqa: E402
from waitress.channel import HTTPChannel  # noqa: E402
from waitress.parser import HTTPRequestParser  # noqa: E402
from waitress.server import TcpWSGIServer  # noqa: E402

try:
    from waitress.server import UnixWSGIServer  # noqa: E402
except ImportError:  # pragma: no cover
    UnixWSGIServer = None


class FakeListenSocket:
    family = socket.AF_INET
    type = socket.SOCK_STREAM
    proto = 0

    def __init__(self, fd=10000, name=("127.0.0.1", 8080)):
        self._fd = fd
        self._name = name
        self.closed = False

    def fileno(self):
        return self._fd

    def setblocking(self, flag):
        pass

    def getsockopt(self, *a):
        return 0

    def setsockopt(self, *a):
        pass

    def bind(self, addr):
        pass

    def listen(self, n):
        pass

    def getsockname(self):
        return self._name

    def accept(self):
        raise BlockingIOError(errno.EWOULDBLOCK, "no connection")

    def close(self):
        self.closed = True


class WaitFor:
    """A pseudo-segment: the client sends nothing more until pred(bytes sent
    by the server so far) holds (a client waiting for '100 Continue')."""

    def __init__(self, pred, label=""):
        self.pred = pred
        self.label = label

    def __len__(self):
        return 0


class FakeConn:
    """Scripted connected socket.

    segments: list of bytes; one recv() returns (a prefix of) the next one.
    eof: after the segments, recv() returns b"" (client half-closed) instead of
         EWOULDBLOCK.
    send_pattern: cyclic list of ints; k>0 = accept at most k bytes,
         0 = EWOULDBLOCK once, -1 = accept everything.
    """

    _next_fd = 20000

    def __init__(self, segments, eof=False, send_pattern=(-1,), sndbuf=65536):
        FakeConn._next_fd += 1
        if FakeConn._next_fd > 2000000000:
            FakeConn._next_fd = 20000
        self._fd = FakeConn._next_fd
        self.segments = collections.deque(s for s in segments if s or isinstance(s, WaitFor))
        self.waiting_on = None
        self.eof = eof
        self.eof_delivered = False
        self.send_pattern = tuple(send_pattern) or (-1,)
        self.send_i = 0
        self.sndbuf = sndbuf
        self.sent = bytearray()
        self.closed = False
        self.close_calls = 0
        self.recv_calls = 0
        self.recv_bytes = 0
        self.send_calls = 0
        self.recv_log = None  # optional list of (len) per successful recv

    # -- input side
    def has_input(self):
        while self.segments and isinstance(self.segments[0], WaitFor):
            if self.segments[0].pred(bytes(self.sent)):
                self.segments.popleft()
                self.waiting_on = None
            else:
                self.waiting_on = self.segments[0]
                return False
        return bool(self.segments) or (self.eof and not self.eof_delivered)

    def recv(self, n):
        self.recv_calls += 1
        if self.closed:
            raise OSError(errno.EBADF, "closed")
        if self.segments and not isinstance(self.segments[0], WaitFor):
            seg = self.segments.popleft()
            if len(seg) > n:
                self.segments.appendleft(seg[n:])
                seg = seg[:n]
            self.recv_bytes += len(seg)
            if self.recv_log is not None:
                self.recv_log.append(len(seg))
            return bytes(seg)
        if self.eof:
            self.eof_delivered = True
            return b""
        raise BlockingIOError(errno.EWOULDBLOCK, "would block")

    # -- output side
    def send(self, data):
        self.send_calls += 1
        if self.closed:
            raise OSError(errno.EBADF, "closed")
        k = self.send_pattern[self.send_i % len(self.send_pattern)]
        self.send_i += 1
        if k == 0:
            raise BlockingIOError(errno.EWOULDBLOCK, "would block")
        if k < 0:
            k = len(data)
        k = min(k, len(data))
        self.sent += data[:k]
        return k

    def getsockopt(self, level, opt, *a):
        if level == socket.SOL_SOCKET and opt == socket.SO_SNDBUF:
            return self.sndbuf
        return 0

    def setsockopt(self, *a):
        pass

    def setblocking(self, flag):
        pass

    def fileno(self):
        return self._fd

    def getpeername(self):
        return ("127.0.0.1", 50000)

    def close(self):
        self.close_calls += 1
        self.closed = True


class DeferredDispatcher:
    """Queues tasks; the harness runs them between I/O events."""

    def __init__(self):
        self.queue = collections.deque()

    def add_task(self, task):
        self.queue.append(task)

    def set_thread_count(self, n):
        pass

    def shutdown(self, cancel_pending=True, timeout=5):
        self.queue.clear()
        return True


# ---------------------------------------------------------------- monitors

_exc_log = []


def _install_monitors():
    """Record exceptions that wasyncore.read()/write() would swallow."""
    if getattr(wasyncore.dispatcher, "_vf_wrapped", False):
        return
    orig_handle_error = wasyncore.dispatcher.handle_error

    def handle_error(self):
        t, v, tb = sys.exc_info()
        frames = []
        while tb is not None:
            co = tb.tb_frame.f_code
            frames.append(f"{co.co_filename.rsplit('/', 1)[-1]}:{co.co_name}:{tb.tb_lineno}")
            tb = tb.tb_next
        _exc_log.append(
            {"type": getattr(t, "__name__", str(t)), "msg": str(v)[:200], "where": frames[-4:]}
        )
        return orig_handle_error(self)

    wasyncore.dispatcher.handle_error = handle_error
    wasyncore.dispatcher._vf_wrapped = True


_install_monitors()


class Result:
    __slots__ = (
        "calls",
        "wire",
        "closed",
        "close_calls",
        "exceptions",
        "steps",
        "hung",
        "recv_calls",
        "recv_bytes",
        "leftover_input",
        "waiting_on",
        "channel",
        "conn",
    )


class Call:
    """One application invocation as recorded by the recorder app."""

    __slots__ = ("environ", "body", "index")

    def __init__(self, environ, body, index):
        self.environ = environ
        self.body = body
        self.index = index


def recorder_app(calls, body=b"ok"):
    def app(environ, start_response):
        data = environ["wsgi.input"].read()
        env = dict(environ)
        calls.append(Call(env, data, len(calls)))
        payload = body + str(len(calls)).encode()
        start_response(
            "200 OK",
            [("Content-Type", "text/plain"), ("Content-Length", str(len(payload)))],
        )
        if environ.get("REQUEST_METHOD") == "HEAD":
            return []
        return [payload]

    return app


def shared_application(environ, start_response):
    return shared_application.target(environ, start_response)


shared_application.target = None


class SyncHarness:
    _servers = {}

    def __init__(self, unix=False, **adj_kw):
        self.adj_kw = dict(adj_kw)
        self.unix = unix
        key = (unix, tuple(sorted((k, repr(v)) for k, v in adj_kw.items())))
        srv = SyncHarness._servers.get(key)
        if srv is None:
            if len(SyncHarness._servers) > 60:
                for k, s in list(SyncHarness._servers.items()):
                    try:
                        s.close()
                    except Exception:
                        pass
                    del SyncHarness._servers[k]
            srv = self._make_server(unix, adj_kw)
            SyncHarness._servers[key] = srv
        self.server = srv
        self.dispatcher = srv.task_dispatcher
        self.app = None

    def _make_server(self, unix, adj_kw):
        import warnings

        with warnings.catch_warnings():
            warnings.simplefilter("ignore")
            if unix:
                adj = Adjustments(unix_socket="/nonexistent/vf.sock", **adj_kw)
            else:
                adj = Adjustments(**adj_kw)
        harness = self
        # ONE application object for every server of the process, as in a deployment that calls
        # create_server() several times for the same application (per-application state kept by the
        # server code must not leak from one server's configuration into another's)
        trampoline = shared_application
        disp = DeferredDispatcher()
        if unix:
            sock = FakeListenSocket(name="/nonexistent/vf.sock")
            sock.family = socket.AF_UNIX
            srv = UnixWSGIServer(
                trampoline, map={}, _start=True, _sock=sock, dispatcher=disp, adj=adj,
                bind_socket=False,
            )
        else:
            srv = TcpWSGIServer(
                trampoline, map={}, _start=True, _sock=FakeListenSocket(), dispatcher=disp, adj=adj
            )
        srv._vf_trampoline = trampoline
        return srv

    def run(self, segments, app, eof=False, send_pattern=(-1,), sndbuf=65536,
            addr=("127.0.0.1", 50000), max_steps=None, on_step=None, lazy=False):
        """Run one connection to quiescence.  `app` is a WSGI callable.

        lazy=False: queued tasks run to completion after every I/O event (a
        fast worker).  lazy=True: a queued task runs only when no I/O event is
        possible (a slow worker): the channel gets every chance to keep
        reading while a request is pending."""
        srv = self.server
        srv._vf_trampoline.target = app
        disp = self.dispatcher
        disp.queue.clear()
        del _exc_log[:]
        conn = FakeConn(segments, eof=eof, send_pattern=send_pattern, sndbuf=sndbuf)
        # as handle_accept() does for every kind of listening server
        addr = srv.fix_addr(addr)
        ch = HTTPChannel(srv, conn, addr, srv.adj, map=srv._map)
        total = sum(len(s) for s in segments)
        if max_steps is None and any(isinstance(s, WaitFor) for s in segments):
            max_steps = 200 + 8 * len(segments) + total // max(1, min(srv.adj.recv_bytes, 512)) * 4
        if max_steps is None:
            max_steps = 50 + 4 * len(segments) + total // max(1, min(srv.adj.recv_bytes, 512)) * 4
            max_steps += 16 * (len(send_pattern) + 4)
            if lazy:
                max_steps *= 2
        steps = 0
        hung = False
        fd = conn.fileno()
        m = srv._map
        while True:
            steps += 1
            if steps > max_steps:
                hung = True
                break
            progress = False
            if m.get(fd) is ch and ch.readable() and conn.has_input():
                wasyncore.read(ch)
                progress = True
            if m.get(fd) is ch and ch.writable():
                before = (len(conn.sent), conn.send_i, ch.will_close, ch.close_when_flushed)
                wasyncore.write(ch)
                after = (len(conn.sent), conn.send_i, ch.will_close, ch.close_when_flushed)
                if before != after or m.get(fd) is not ch:
                    progress = True
            while disp.queue and not (lazy and progress):
                task = disp.queue.popleft()
                try:
                    task.service()
                except BaseException as e:  # as handler_thread does
                    _exc_log.append({"type": type(e).__name__, "msg": str(e)[:200], "where": ["task.service"]})
                progress = True
            try:
                srv.trigger.handle_read()
            except Exception:
                pass
            if on_step is not None:
                on_step(ch, conn)
            if m.get(fd) is not ch:
                break
            if not progress:
                break
        r = Result()
        r.wire = bytes(conn.sent)
        r.closed = conn.closed
        r.close_calls = conn.close_calls
        r.exceptions = list(_exc_log)
        r.steps = steps
        r.hung = hung
        r.recv_calls = conn.recv_calls
        r.recv_bytes = conn.recv_bytes
        r.leftover_input = sum(len(s) for s in conn.segments)
        conn.has_input()
        r.waiting_on = conn.waiting_on.label if conn.waiting_on is not None else None
        r.channel = ch
        r.conn = conn
        r.calls = None
        if m.get(fd) is ch:
            # leave no channel behind in the shared server
            try:
                ch.handle_close()
            except Exception:
                pass
        srv.active_channels.pop(fd, None)
        m.pop(fd, None)
        return r

    def run_recorded(self, segments, **kw):
        calls = []
        r = self.run(segments, recorder_app(calls), **kw)
        r.calls = calls
        return r


def parse_only(data, **adj_kw):
    """Feed bytes straight to one HTTPRequestParser (no channel)."""
    adj = _adj_cache(adj_kw)
    p = HTTPRequestParser(adj)
    n = p.received(data)
    return p, n


_adjs = {}


def _adj_cache(adj_kw):
    key = tuple(sorted((k, repr(v)) for k, v in adj_kw.items()))
    a = _adjs.get(key)
    if a is None:
        import warnings

        with warnings.catch_warnings():
            warnings.simplefilter("ignore")
            a = Adjustments(**adj_kw)
        _adjs[key] = a
    return a
