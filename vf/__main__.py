import argparse
import os
import sys


def main(argv=None):
    argv = list(sys.argv[1:] if argv is None else argv)
    if os.environ.get("PYTHONHASHSEED") != "0":
        env = dict(os.environ, PYTHONHASHSEED="0", PYTHONDONTWRITEBYTECODE="1")
        os.execve(sys.executable, [sys.executable, "-m", "vf"] + argv, env)
    from vf import core

    if not argv:
        print("usage: python -m vf check <ID> [--tier T] [--replay F] | setup | shard ...")
        return 2
    cmd = argv.pop(0)
    if cmd == "shard":
        pid, spec, out = argv
        core.shard_main(pid, spec, out)
        return 0
    if cmd == "setup":
        from vf import selfcheck

        return selfcheck.main()
    if cmd == "check":
        ap = argparse.ArgumentParser(prog="check")
        ap.add_argument("id")
        ap.add_argument("--tier", default=os.environ.get("VERIF_TIER") or "quick")
        ap.add_argument("--replay")
        ap.add_argument("--seed", type=int)
        a = ap.parse_args(argv)
        seed = a.seed
        if seed is None:
            try:
                seed = int(os.environ.get("VERIF_SEED", "0") or 0)
            except ValueError:
                seed = 0
        tier = a.tier if a.tier in ("quick", "thorough") else "quick"
        return core.check_main(a.id.upper(), tier, seed, a.replay)
    print("unknown command", cmd)
    return 2


if __name__ == "__main__":
    sys.exit(main())
