#!/venv/bin/python
"""tools/mk_results_table.py -- summarise selftest/RESULTS.json per property and
rewrite the block between the RESULTS markers in DESIGN.md (section 13)."""

import json
import os
import re

ROOT = os.path.dirname(os.path.dirname(os.path.abspath(__file__)))


def main():
    res = json.load(open(os.path.join(ROOT, "selftest", "RESULTS.json")))
    per = {}
    for name, r in sorted(res.items()):
        if r["kind"] == "selftest":
            pid = "C" + name[1:3]
        else:
            pid = name.split("/")[1].split("-")[0]
        d = per.setdefault(pid, {"own": [], "own_eq": [], "own_missed": [], "seed_own": [], "seed_sibling": [], "seed_missed": []})
        caught = r.get("caught_by") or []
        if r["kind"] == "selftest":
            if caught:
                d["own"].append(name)
            elif r.get("equivalent"):
                d["own_eq"].append(name)
            else:
                d["own_missed"].append(name)
        else:
            short = name.split("/")[1]
            if pid in caught:
                d["seed_own"].append(short)
            elif caught:
                d["seed_sibling"].append("%s (%s)" % (short, ", ".join(caught)))
            elif r.get("equivalent"):
                d["own_eq"].append(short)
            else:
                d["seed_missed"].append(short)
    lines = ["| property | own mutants caught | equivalent | seeded caught by its own check | seeded caught by a sibling check only | missed |",
             "|---|---|---|---|---|---|"]
    tot = [0, 0, 0, 0, 0]
    for pid in sorted(per):
        d = per[pid]
        missed = d["own_missed"] + d["seed_missed"]
        lines.append("| %s | %d | %s | %d | %s | %s |" % (
            pid, len(d["own"]), ", ".join(d["own_eq"]) or "-", len(d["seed_own"]),
            "; ".join(d["seed_sibling"]) or "-", ", ".join(missed) or "-"))
        tot[0] += len(d["own"]); tot[1] += len(d["own_eq"]); tot[2] += len(d["seed_own"]); tot[3] += len(d["seed_sibling"]); tot[4] += len(missed)
    lines.append("| **all** | %d | %d | %d | %d | %d |" % tuple(tot))
    block = "\n".join(lines)
    p = os.path.join(ROOT, "DESIGN.md")
    s = open(p).read()
    a, b = "<!-- RESULTS:BEGIN -->", "<!-- RESULTS:END -->"
    if a in s:
        s = re.sub(re.escape(a) + r".*?" + re.escape(b), lambda m: a + "\n" + block + "\n" + b, s, flags=re.S)
        open(p, "w").write(s)
    print(block)


if __name__ == "__main__":
    main()
