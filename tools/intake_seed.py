#!/venv/bin/python
"""tools/intake_seed.py <PROPERTY> <n> [--keep]

Verify a seeded change delivered by an independent sub-agent in
/tmp/seed-<PROPERTY>-out/{change<n>.diff,demo<n>.py,meta<n>.json}:
  1. the patch applies to a fresh scratch worktree of /repo (HEAD),
  2. the repository's own test suite still passes with it,
  3. the demonstration passes on the unchanged tree and fails with the change,
and, when all of that holds and --keep is given, store it as
/verif/seeded/<PROPERTY>-<n>/{patch.diff,demo.py,meta.json}.
The scratch worktree is removed afterwards.
"""

import json
import os
import shutil
import subprocess
import sys
import tempfile

ROOT = os.path.dirname(os.path.dirname(os.path.abspath(__file__)))
PY = "/venv/bin/python"


def sh(cmd, **kw):
    return subprocess.run(cmd, shell=isinstance(cmd, str), stdout=subprocess.PIPE, stderr=subprocess.STDOUT, **kw)


def main():
    pid, n = sys.argv[1], sys.argv[2]
    keep = "--keep" in sys.argv
    src = f"/tmp/seed-{pid}-out"
    name = f"{pid}-{n}"
    if "--src" in sys.argv:
        src = sys.argv[sys.argv.index("--src") + 1]
    if "--name" in sys.argv:
        name = sys.argv[sys.argv.index("--name") + 1]
    patch = os.path.join(src, f"change{n}.diff")
    demo = os.path.join(src, f"demo{n}.py")
    meta = os.path.join(src, f"meta{n}.json")
    for f in (patch, demo, meta):
        if not os.path.exists(f):
            print("MISSING", f)
            return 2
    wt = tempfile.mkdtemp(prefix="vf-intake-")
    os.rmdir(wt)
    r = sh(["git", "-C", "/repo", "worktree", "add", "-q", "--detach", wt, "HEAD"])
    if r.returncode:
        print(r.stdout.decode())
        return 2
    report = {"property": pid, "n": n}
    try:
        env = dict(os.environ, PYTHONPATH=os.path.join(wt, "src"), PYTHONDONTWRITEBYTECODE="1")
        # demo on the unchanged tree
        ok_clean = []
        for _ in range(2):
            r = sh([PY, demo], cwd=wt, env=env, timeout=180)
            ok_clean.append(r.returncode)
        report["demo_unchanged_rc"] = ok_clean
        r = sh(["git", "-C", wt, "apply", patch])
        if r.returncode:
            print("PATCH DOES NOT APPLY:", r.stdout.decode()[:500])
            return 3
        r = sh([PY, "-c", "import waitress,sys; print(waitress.__file__)"], cwd=wt, env=env)
        assert wt in r.stdout.decode(), r.stdout
        r = sh(f"{PY} -m pytest -p no:cacheprovider --timeout=900 --no-cov -q 2>&1 | grep -E 'passed|failed' | tail -1", cwd=wt, env=env, timeout=1200)
        tests = r.stdout.decode().strip()
        report["tests"] = tests
        ok_mut = []
        last = ""
        for _ in range(2):
            r = sh([PY, demo], cwd=wt, env=env, timeout=180)
            ok_mut.append(r.returncode)
            last = r.stdout.decode()[-400:]
        report["demo_changed_rc"] = ok_mut
        report["demo_output"] = last.strip().splitlines()[-1:] if last.strip() else []
        valid = ("failed" not in tests and "795 passed" in tests and all(x == 0 for x in ok_clean) and all(x != 0 for x in ok_mut))
        report["valid"] = valid
        print(json.dumps(report, indent=1))
        if valid and keep:
            d = os.path.join(ROOT, "seeded", name)
            os.makedirs(d, exist_ok=True)
            shutil.copy(patch, os.path.join(d, "patch.diff"))
            shutil.copy(demo, os.path.join(d, "demo.py"))
            m = json.load(open(meta))
            m["property"] = pid
            m["verified"] = {
                "patch_applies_to": subprocess.check_output(["git", "-C", "/repo", "rev-parse", "--short", "HEAD"]).decode().strip(),
                "repository_tests_with_change": tests,
                "demo_exit_codes_unchanged_tree": ok_clean,
                "demo_exit_codes_with_change": ok_mut,
                "how": "tools/intake_seed.py: fresh worktree of /repo HEAD, demo run twice on the unchanged tree, patch applied with git apply, full pytest suite, demo run twice with the change",
            }
            json.dump(m, open(os.path.join(d, "meta.json"), "w"), indent=1)
            print("kept as", d)
        return 0 if valid else 1
    finally:
        sh(["git", "-C", "/repo", "worktree", "remove", "--force", wt])
        shutil.rmtree(wt, ignore_errors=True)


if __name__ == "__main__":
    sys.exit(main())
