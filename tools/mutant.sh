#!/bin/sh
# tools/mutant.sh <patch|-> <tier> <ID>...   run checks against a scratch copy of /repo/src with a patch applied
# patch paths are relative to the repository root (src/waitress/...). "-" = no patch (pristine copy).
# VF_BASE=<git rev> takes the copy from that revision of /repo instead of the working tree.
set -e
patch="$1"; tier="$2"; shift 2
case "$patch" in -|/*) ;; *) patch="$(pwd)/$patch";; esac
tmp=$(mktemp -d "${TMPDIR:-/tmp}/vf-mut-XXXXXX")
trap 'rm -rf "$tmp"' EXIT
if [ -n "$VF_BASE" ]; then
  git -C /repo archive "$VF_BASE" src docs | tar -x -C "$tmp"
else
  cp -r /repo/src "$tmp/src"; cp -r /repo/docs "$tmp/docs"
fi
find "$tmp" -name __pycache__ -prune -exec rm -rf {} + 2>/dev/null || true
if [ "$patch" != "-" ]; then
  (cd "$tmp" && patch -s -p1 < "$patch") || { echo "PATCH FAILED"; exit 3; }
fi
mkdir -p "$tmp/evidence" "$tmp/replays" "$tmp/work"
cd "$(dirname "$0")/.."
for id in "$@"; do
  set +e
  VF_WAITRESS_SRC="$tmp/src" VF_EVIDENCE_DIR="$tmp/evidence" VF_REPLAY_DIR="$tmp/replays" VF_WORK_DIR="$tmp/work" \
    timeout ${VF_MUT_TIMEOUT:-1800} ./check "$id" --tier "$tier" > "$tmp/out.$id" 2>&1
  rc=$?
  set -e
  echo "== $id rc=$rc $(grep -c '^VIOLATION' "$tmp/out.$id") violation line(s)"
  grep -A1 '^VIOLATION' "$tmp/out.$id" | grep 'key=' | cut -c1-${VF_MUT_WIDTH:-220} | head -${VF_MUT_LINES:-8}
  grep -E '^(INCONCLUSIVE|KNOWN-FINDING)' "$tmp/out.$id" | cut -c1-220 | head -5
  tail -1 "$tmp/out.$id" | cut -c1-200
done
