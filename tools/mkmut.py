#!/venv/bin/python
"""tools/mkmut.py <name> <relpath> <old> <new> [<old2> <new2> ...]
Write selftest/mutants/<name>.diff replacing <old> by <new> (exactly once each) in /repo/<relpath>."""
import difflib, sys, os
name, rel = sys.argv[1], sys.argv[2]
pairs = sys.argv[3:]
src = open(os.path.join("/repo", rel)).read()
new = src
for i in range(0, len(pairs), 2):
    old, rep = pairs[i].encode().decode("unicode_escape"), pairs[i+1].encode().decode("unicode_escape")
    if new.count(old) != 1:
        sys.exit(f"pattern occurs {new.count(old)} times: {old!r}")
    new = new.replace(old, rep)
diff = "".join(difflib.unified_diff(src.splitlines(True), new.splitlines(True), "a/" + rel, "b/" + rel))
out = os.path.join(os.path.dirname(os.path.dirname(os.path.abspath(__file__))), "selftest", "mutants", name + ".diff")
open(out, "w").write(diff)
print(out)
