#!/bin/sh
# run the repository's own suite and print the summary line
cd /repo && /venv/bin/python -m pytest -p no:cacheprovider --timeout=900 --no-cov -q 2>&1 | grep -E "^(FAILED|ERROR)|passed|failed" | tail -15
