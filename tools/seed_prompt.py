#!/venv/bin/python
"""tools/seed_prompt.py <PROPERTY> <worktree> <outdir>

Writes (stdout) the task text given to an independent sub-agent that is asked
for seeded property-breaking changes.  The agent gets only the text of the one
property (from properties.jsonl), its own scratch worktree of the repository
and one-line summaries of the changes already kept for that property (so that
a new round explores other mechanisms) -- nothing from /verif itself.
"""

import glob
import json
import os
import sys

ROOT = os.path.dirname(os.path.dirname(os.path.abspath(__file__)))

TEMPLATE = """You are testing how well a semantic property of the Python HTTP server Pylons/waitress is protected. You get ONE property and your own scratch git worktree of the repository at {wt} (a detached checkout; the package source is {wt}/src/waitress, tests in {wt}/tests). Work ONLY inside {wt} and {out} (create it). Never read, list or touch /verif, /repo, /root or any other /tmp/seed* directory, and do not run git commands other than `git -C {wt} diff` / `git -C {wt} checkout -- .` / `git -C {wt} stash` / `git -C {wt} apply`.

THE PROPERTY
{pid} - {title}

STATEMENT: {statement}

QUANTIFIED OVER: {quant}

WHY THE EXISTING TESTS CANNOT SETTLE IT: {why}

RELEVANT FILES: {files}

YOUR TASK
Produce THREE independent, realistic changes ("seeded defects") to the waitress source, each of which BREAKS this property while the code still imports and the repository's existing test suite still passes completely. Think like a plausible maintainer mistake or well-meant refactoring/optimisation, not sabotage: small (1-15 changed lines), looks reasonable in review. Each change must need something SPECIFIC to manifest -- a particular interleaving of threads, a fault or disconnect at a particular point, a multi-step sequence of operations, an unusual input or configuration value, or two cooperating sites that each look fine alone -- NOT something that ordinary use (a plain GET, the happy path) would expose at once. The three changes must attack three different mechanisms behind the property (different functions / different parts of the statement).
{already}
For each change i in 1, 2, 3 deliver in {out}/:
  * change<i>.diff  -- `git -C {wt} diff` output with ONLY that change applied (paths relative to the repo root, applies with `git apply`),
  * demo<i>.py      -- a self-contained demonstration program (plain Python, run as `PYTHONPATH=<tree>/src /venv/bin/python demo<i>.py`) that exits 0 and prints "PROPERTY HOLDS" on the UNCHANGED tree and exits 1 and prints "PROPERTY VIOLATED: <what>" with the change applied. It may use real sockets on 127.0.0.1 with `waitress.server.create_server(app, host="127.0.0.1", port=0)` run in a thread, real threads, monkeypatching, event-based forcing of the needed interleaving (e.g. wrap a method to pause at the critical point), fake sockets, or call the relevant classes directly -- whatever demonstrates the violation of THE STATEMENT (not merely a changed internal detail). It must be deterministic enough to give the same verdict 5 times in a row and finish within 60 s.
  * meta<i>.json    -- {{"property": "{pid}", "title": "...", "what_it_breaks": "...", "needs_to_manifest": "interleaving | fault | sequence | unusual input | configuration | cooperating sites: <details>", "files_changed": [...], "why_tests_still_pass": "..."}}

HOW TO WORK
1. Read the relevant source files and the tests that cover them, to find behaviour behind the property that no test pins.
2. Make change 1 in the worktree. Run the whole suite against the worktree: `cd {wt} && PYTHONPATH={wt}/src /venv/bin/python -m pytest -q -p no:cacheprovider --no-cov -x 2>&1 | tail -5` -- it must report 795 passed (8 skipped) and 0 failed. (Check `PYTHONPATH={wt}/src /venv/bin/python -c "import waitress; print(waitress.__file__)"` prints the worktree path.) If a test fails, pick another change -- do NOT edit tests.
3. Write demo1.py; run it 3x with the change (must exit 1) and, after saving the diff and `git -C {wt} checkout -- .`, 3x on the unchanged tree (must exit 0). Restore the tree.
4. Repeat for changes 2 and 3 (each applied alone on the clean tree).
5. Leave the worktree clean at the end, delete any other scratch files, and report: for each change a 3-line description and the verification results.

Quality bar: a change that is caught by the existing tests, that does not actually violate the property's statement, or whose demo also fails on the unchanged tree is worthless. If after honest effort you can only produce two valid changes, deliver two and say so.
"""


def main():
    pid, wt, out = sys.argv[1:4]
    prop = None
    for line in open(os.path.join(ROOT, "properties.jsonl")):
        d = json.loads(line)
        if d["id"] == pid:
            prop = d
    anchors = prop.get("anchors", {})
    files = list(anchors.get("files", [])) if isinstance(anchors, dict) else []
    prior = []
    for m in sorted(glob.glob(os.path.join(ROOT, "seeded", pid + "-*", "meta.json"))):
        mm = json.load(open(m))
        prior.append("- %s: %s" % (mm.get("title", "?"), str(mm.get("what_it_breaks", ""))[:300]))
    already = ""
    if prior:
        already = ("\nOther people have ALREADY tried the following changes for this property; do NOT repeat them or close "
                   "variants of them -- find mechanisms they did not touch:\n" + "\n".join(prior) + "\n")
    q = prop.get("quantifier", {})
    print(TEMPLATE.format(wt=wt, out=out, pid=pid, title=prop["title"], statement=prop["statement"],
                          quant=q.get("text", q) if isinstance(q, dict) else q, why=prop.get("why_tests_cant", ""),
                          files=", ".join(sorted(set(files))), already=already))


if __name__ == "__main__":
    main()
