#!/venv/bin/python
"""selftest/run.py [--tier quick] [name-substring ...]

Runs every deliberate property-breaking change under selftest/mutants/ (and
every kept seeded change under seeded/<id>/patch.diff) against the check(s) it
is meant for, on a scratch copy of /repo/src, and writes selftest/RESULTS.json
and selftest/RESULTS.md.  A change is *caught* when the check exits 1 with a
VIOLATION line; exit 0 = missed; exit 2 = inconclusive.
"""

import glob
import json
import os
import re
import subprocess
import sys
import concurrent.futures as cf

ROOT = os.path.dirname(os.path.dirname(os.path.abspath(__file__)))

# mutants known to be equivalent with respect to the property (explained in DESIGN.md 7)
EQUIVALENT = {
    "c01-no-bare-lf-check": "a bare LF inside a header line is still refused by HEADER_FIELD_RE (anchored with \\Z since the F-1 fix): 400 either way",
    "c01-cl-not-singleton": "repeated Content-Length values are joined to '5, 5', which the digit gate refuses: 400 either way",
    "c10-star-for-plus": "an empty Content-Length passes the gate but int('') raises ValueError, which the F-2 fix turns into the same 400",
    "c11-readable-ignores-cwf": "received() still refuses the data under the lock; nothing is executed",
    "c12-no-connected-recheck": "handle_close() zeroes total_outbufs_len, so the loop condition ends anyway",
    "c13-recv-error-unhandled": "the error reaches wasyncore's catch-all, which closes the channel on the I/O thread as well",
    "c19-no-latch": "expect_continue is reset by send_continue(), which alone prevents a second 100 Continue",
    "c19-expect-not-reset": "the sent_continue latch alone prevents a second 100 Continue",
    "seeded/C16-r6-1": "bad quoting in a hop LEFT of the trusted suffix is no longer answered with 400: C16's stated assumption accepts 400 or 200 there (the discarded hops reach nothing; inside the suffix the 400 is still required and still given)",
}


def run(patch, checks, tier):
    env = dict(os.environ, VF_MUT_LINES="6", VF_MUT_WIDTH="200")
    p = subprocess.run([os.path.join(ROOT, "tools", "mutant.sh"), patch, tier] + checks, cwd=ROOT, env=env,
                       stdout=subprocess.PIPE, stderr=subprocess.STDOUT, timeout=3600)
    out = p.stdout.decode("utf-8", "replace")
    res = {}
    cur = None
    for line in out.splitlines():
        m = re.match(r"== (C\d+) rc=(\d+) (\d+) violation", line)
        if m:
            cur = m.group(1)
            res[cur] = {"rc": int(m.group(2)), "keys": []}
        elif cur and line.strip().startswith("key="):
            res[cur]["keys"].append(line.strip().split(" what=")[0][4:])
        elif "PATCH FAILED" in line:
            res["patch"] = "failed"
    return res


def main():
    args = [a for a in sys.argv[1:] if not a.startswith("--")]
    tier = "quick"
    if "--tier" in sys.argv:
        tier = sys.argv[sys.argv.index("--tier") + 1]
        args = [a for a in args if a != tier]
    jobs = []
    for f in sorted(glob.glob(os.path.join(ROOT, "selftest", "mutants", "*.diff"))):
        name = os.path.basename(f)[:-5]
        if args and not any(a in name for a in args):
            continue
        check = "C" + name[1:3]
        jobs.append((name, f, [check], "selftest"))
    for d in sorted(glob.glob(os.path.join(ROOT, "seeded", "*"))):
        meta = os.path.join(d, "meta.json")
        patch = os.path.join(d, "patch.diff")
        if not os.path.exists(meta) or not os.path.exists(patch):
            continue
        name = "seeded/" + os.path.basename(d)
        if args and not any(a in name for a in args):
            continue
        m = json.load(open(meta))
        checks = m.get("run_checks") or [m["property"]]
        jobs.append((name, patch, checks, "seeded"))
    results = {}
    with cf.ThreadPoolExecutor(int(os.environ.get("VF_SELFTEST_JOBS", "2"))) as ex:
        futs = {ex.submit(run, f, checks, tier): (name, checks, kind) for name, f, checks, kind in jobs}
        for fu in cf.as_completed(futs):
            name, checks, kind = futs[fu]
            try:
                r = fu.result()
            except Exception as e:  # noqa
                r = {"error": repr(e)}
            caught = [c for c in checks if r.get(c, {}).get("rc") == 1]
            results[name] = {"kind": kind, "checks": checks, "result": r, "caught_by": caught,
                             "equivalent": EQUIVALENT.get(name)}
            print(name, "->", "CAUGHT by " + ",".join(caught) if caught else ("equivalent" if name in EQUIVALENT else "MISSED"), flush=True)
    path = os.path.join(ROOT, "selftest", "RESULTS.json")
    old = {}
    if os.path.exists(path) and args:
        old = json.load(open(path))
    old.update(results)
    json.dump(old, open(path, "w"), indent=1, sort_keys=True)
    with open(os.path.join(ROOT, "selftest", "RESULTS.md"), "w") as f:
        f.write("| change | run against | verdict | violation keys |\n|---|---|---|---|\n")
        for name in sorted(old):
            r = old[name]
            keys = sorted({k for c in r["checks"] for k in r["result"].get(c, {}).get("keys", [])})
            verdict = "caught by " + ", ".join(r["caught_by"]) if r["caught_by"] else ("equivalent mutant: " + r["equivalent"] if r.get("equivalent") else "MISSED")
            f.write(f"| {name} | {', '.join(r['checks'])} | {verdict} | {'; '.join(keys)[:300]} |\n")


if __name__ == "__main__":
    main()
